#!/usr/bin/env python3
"""Regenerate /verif/MANIFEST.json from the claim table below (and validate it)."""
import json, os, sys

HERE = os.path.dirname(os.path.dirname(os.path.abspath(__file__)))
sys.path.insert(0, HERE)
from sa.claims import CLAIMS, NOT_APPLICABLE  # noqa

checks = []
for pid, c in sorted(CLAIMS.items()):
    checks.append(
        {
            "property_id": pid,
            "quick_cmd": f"./check {pid} --tier quick",
            "thorough_cmd": f"./check {pid} --tier thorough",
            "evidence_file": f"evidence/{pid}.json",
            "replay_cmd_template": f"./check {pid} --replay {{path}}",
            "engine": "sa",
            "level_claimed": {
                "category": "other",
                "text": "Static analysis (no execution) of structural clauses that are necessary conditions of the property: "
                + c["decides"]
                + " It decides those clauses on every path of the current source, not the runtime behaviour the property quantifies over.",
                "design_ref": c["design_ref"],
            },
            "level_note": c["note"],
            "technique": c["technique"],
        }
    )
m = {
    "version": 1,
    "setup_cmd": "/venv/bin/python -S -B -c \"import ast,sys; sys.path.insert(0,'.'); import sa.core\" || python3 -c \"import ast\"",
    "hooks": {
        "guard": "FONTTOOLS_VERIF",
        "enable": "no hooks: the checks only parse /repo/Lib/fontTools with ast; nothing is instrumented or executed",
        "baseline_off_cmd": "cd /repo && /venv/bin/python -m pytest -ra -q -p no:cacheprovider --timeout=900 --continue-on-collection-errors",
        "source_commits": [],
        "add_only": True,
    },
    "engines": [
        {
            "name": "sa",
            "path": "sa/",
            "serves_properties": sorted(CLAIMS),
            "kind_free_text": "repository-specific static analysis over Python ast: resolved class/MRO model, statement CFG with dominators, constant folder, otData schema loader, backward slicer, interval/bit abstract interpretation for codecs, sibling-agreement and exhaustiveness rules",
        }
    ],
    "checks": checks,
    "notes": "Technique family: static analysis only. Exit codes: 0 pass, 1 VIOLATION, 2 ANALYSIS-ERROR (anchor vanished / rule would pass vacuously). Genuine defects found are in known_findings.json (fixed ones as 'fix:' commits in /repo).",
    "not_applicable": [{"property_id": k, "reason": v} for k, v in sorted(NOT_APPLICABLE.items())],
}
with open(os.path.join(HERE, "MANIFEST.json"), "w") as f:
    json.dump(m, f, indent=1)
try:
    import jsonschema

    jsonschema.validate(m, json.load(open("/root/.vp/MANIFEST.schema.json")))
    print("MANIFEST valid;", len(checks), "checks,", len(m["not_applicable"]), "not applicable")
except ImportError:
    print("jsonschema unavailable; wrote MANIFEST without validating")

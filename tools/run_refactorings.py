"""Run the registered checks against the behaviour-preserving refactoring patches under seeded/refactorings
(each applied to a scratch copy of Lib/fontTools).  Expected outcome for every patch and every check: silent.
usage: run_refactorings.py [--all] [name-filter ...]   env SNAP_VERIF / SNAP_REPO select snapshot copies."""
import json, os, shutil, subprocess, sys, tempfile, glob
from concurrent.futures import ProcessPoolExecutor
VERIF=os.environ.get("SNAP_VERIF","/verif")
claimed=[c["property_id"] for c in json.load(open(os.path.join(VERIF,"MANIFEST.json")))["checks"]]
def run(pd):
    name=pd.split("/")[-2]
    scratch=tempfile.mkdtemp(prefix="verif-rf-")
    try:
        shutil.copytree(os.environ.get("SNAP_REPO","/repo")+"/Lib/fontTools", os.path.join(scratch,"Lib","fontTools"), ignore=shutil.ignore_patterns("__pycache__"))
        r=subprocess.run(["patch","-p1","-s","--fuzz=3","-d",scratch,"-i",pd],capture_output=True,text=True)
        if r.returncode: return name, "PATCH-FAIL "+r.stdout[-120:].replace("\n"," ")
        out=[]
        props = claimed if "--all" in sys.argv else [name.split("-")[0]]
        for p in props:
            c=subprocess.run([os.path.join(VERIF,"check"),p,"--repo",scratch],capture_output=True,text=True,env=dict(os.environ,VERIF_EVIDENCE_DIR=os.path.join(scratch,"ev")))
            if c.returncode==1:
                und=[l.strip()[:230] for l in c.stdout.splitlines() if "UNDISCHARGED" in l]
                out.append(f"{p}:FALSE-ALARM {und[:2]}")
            elif c.returncode==2:
                ae=[l.strip()[:230] for l in c.stdout.splitlines() if "ANALYSIS-ERROR" in l]
                out.append(f"{p}:anchor-lost {ae[:1]}")
        return name, "; ".join(out) or "silent"
    finally: shutil.rmtree(scratch,ignore_errors=True)
only=[a for a in sys.argv[1:] if not a.startswith("-")]
pds=sorted(p for p in glob.glob(os.path.join(os.path.dirname(os.path.dirname(os.path.abspath(__file__))), "seeded", "refactorings", "*", "patch.diff")) if os.path.getsize(p)>0 and (not only or any(o in p for o in only)))
with ProcessPoolExecutor(15) as ex:
    for n,r in ex.map(run,pds): print(f"{n:8s} {r}", flush=True)

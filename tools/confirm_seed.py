#!/usr/bin/env python3
"""Confirm a seeded defect in a scratch git worktree of /repo (never in /repo itself):
patch applies, package compiles, demo fails with the patch and passes without, the existing
test suite still passes with the patch.  Writes /verif/seeded/<id>/{patch.diff,demo.py,meta.json}.

usage: confirm_seed.py <srcdir with patch.diff demo.py notes.md> <seed id> <property> [--no-suite]
"""
import json, os, shutil, subprocess, sys, time

src, sid, prop = sys.argv[1:4]
suite = "--no-suite" not in sys.argv
VERIF = os.path.dirname(os.path.dirname(os.path.abspath(__file__)))
wt = f"/tmp/wt/confirm-{sid}"
out = os.path.join(VERIF, "seeded", sid)
PY = "/venv/bin/python"


def run(cmd, **kw):
    return subprocess.run(cmd, capture_output=True, text=True, **kw)


subprocess.run(["git", "-C", "/repo", "worktree", "remove", "--force", wt], capture_output=True)
r = run(["git", "-C", "/repo", "worktree", "add", "-q", "--detach", wt, "HEAD"])
assert r.returncode == 0, r.stderr
meta = {"seed": sid, "property": prop, "base_commit": run(["git", "-C", "/repo", "rev-parse", "HEAD"]).stdout.strip()}
try:
    env = dict(os.environ, PYTHONPATH=os.path.join(wt, "Lib"))
    patch = os.path.join(src, "patch.diff")
    demo = os.path.join(src, "demo.py")
    shutil.copy(demo, os.path.join(wt, "demo_seed.py"))
    # demo scripts written by the seeding agents may hard-code their own worktree path
    txt = open(os.path.join(wt, "demo_seed.py")).read()
    import re
    txt = re.sub(r"/tmp/wt\d?/C\d\d", wt, txt)
    open(os.path.join(wt, "demo_seed.py"), "w").write(txt)
    r0 = run([PY, "demo_seed.py"], cwd=wt, env=env)
    meta["demo_exit_without_patch"] = r0.returncode
    a = run(["git", "-C", wt, "apply", "--3way", patch])
    if a.returncode != 0:
        a = run(["patch", "-p1", "-d", wt, "-i", patch])
    meta["patch_applies"] = a.returncode == 0
    if a.returncode != 0:
        meta["error"] = (a.stdout + a.stderr)[-400:]
        raise SystemExit
    files = run(["git", "-C", wt, "diff", "HEAD", "--name-only"]).stdout.split()
    meta["files"] = files
    c = run([PY, "-m", "py_compile"] + [os.path.join(wt, f) for f in files if f.endswith(".py")])
    meta["compiles"] = c.returncode == 0
    r1 = run([PY, "demo_seed.py"], cwd=wt, env=env)
    meta["demo_exit_with_patch"] = r1.returncode
    meta["demo_output_with_patch_tail"] = (r1.stdout + r1.stderr)[-600:]
    if suite:
        t = time.time()
        s = run([PY, "-m", "pytest", "-q", "-p", "no:cacheprovider", "-x", "-n", "8", "Tests", "--ignore=demo_seed.py"], cwd=wt, env=env)
        meta["suite_exit_with_patch"] = s.returncode
        meta["suite_tail"] = s.stdout.strip().splitlines()[-1:] if s.stdout else []
        meta["suite_seconds"] = round(time.time() - t)
        d = run([PY, "-m", "pytest", "-q", "-p", "no:cacheprovider", "--doctest-modules"] + [f for f in files if f.endswith(".py")], cwd=wt, env=env)
        meta["doctest_exit_with_patch"] = d.returncode
        meta["doctest_tail"] = d.stdout.strip().splitlines()[-1:] if d.stdout else []
    meta["confirmed"] = bool(meta.get("patch_applies") and meta.get("compiles") and meta["demo_exit_without_patch"] == 0 and meta["demo_exit_with_patch"] != 0 and (not suite or meta["suite_exit_with_patch"] == 0))
    if meta["confirmed"]:
        os.makedirs(out, exist_ok=True)
        # patch relative to current HEAD
        pd = run(["git", "-C", wt, "diff", "HEAD"]).stdout
        open(os.path.join(out, "patch.diff"), "w").write(pd)
        shutil.copy(demo, os.path.join(out, "demo.py"))
        notes = os.path.join(src, "notes.md")
        if os.path.exists(notes):
            shutil.copy(notes, os.path.join(out, "notes.md"))
        meta["what_it_needs"] = "see notes.md (written by the seeding agent)"
        meta["ran"] = [f"git worktree add {wt} HEAD", "git apply patch.diff", f"PYTHONPATH={wt}/Lib /venv/bin/python demo.py  (with and without patch)", f"PYTHONPATH={wt}/Lib /venv/bin/python -m pytest -q -x -n 8 Tests  (with patch)"]
        json.dump(meta, open(os.path.join(out, "meta.json"), "w"), indent=1)
finally:
    print(json.dumps(meta)[:900])
    subprocess.run(["git", "-C", "/repo", "worktree", "remove", "--force", wt], capture_output=True)

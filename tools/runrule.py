#!/venv/bin/python
"""dev helper: run one rule function on a tree and print every obligation.
usage: tools/runrule.py consistency.save_restore [--repo DIR] [--all]"""
import os, sys

sys.path.insert(0, os.path.dirname(os.path.dirname(os.path.abspath(__file__))))
from sa import core, report
import importlib

name = sys.argv[1]
repo_dir = sys.argv[sys.argv.index("--repo") + 1] if "--repo" in sys.argv else "/repo"
mod, fn = name.split(".")
m = importlib.import_module("sa.rules." + mod)
repo = core.Repo(repo_dir)
ctx = report.Ctx("DEV", "quick", 0, repo)
getattr(m, fn)(ctx, repo)
for o in ctx.obs:
    if "--all" in sys.argv or not o.ok:
        print(("ok  " if o.ok else "FAIL"), o.rule, o.where, "::", o.construct[:150], "::", (o.detail or "")[:200])
print(len(ctx.obs), "obligations;", sum(1 for o in ctx.obs if not o.ok), "failed; notes:", ctx.notes[:5], ctx.analysis_errors[:3])

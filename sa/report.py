"""Obligation bookkeeping, known-findings matching, evidence/replay writing."""

from __future__ import annotations

import json
import os
import time

VERIF = os.path.dirname(os.path.dirname(os.path.abspath(__file__)))
EVIDENCE_DIR = os.environ.get("VERIF_EVIDENCE_DIR") or os.path.join(VERIF, "evidence")
REPLAY_DIR = os.path.join(EVIDENCE_DIR, "replay")
KNOWN_FILE = os.path.join(VERIF, "known_findings.json")


def load_known():
    if not os.path.exists(KNOWN_FILE):
        return []
    with open(KNOWN_FILE) as f:
        return json.load(f).get("findings", [])


class Obligation:
    __slots__ = ("rule", "where", "construct", "ok", "detail", "nontrivial")

    def __init__(self, rule, where, construct, ok, detail, nontrivial):
        self.rule = rule
        self.where = where
        self.construct = construct
        self.ok = ok
        self.detail = detail
        self.nontrivial = nontrivial

    def as_dict(self):
        d = {"rule": self.rule, "where": self.where, "construct": self.construct}
        if self.detail:
            d["detail"] = self.detail
        return d


class Ctx:
    def __init__(self, prop, tier="quick", seed=0, repo=None):
        self.prop = prop
        self.tier = tier
        self.seed = seed
        self.repo = repo
        self.obs = []
        self.floors = {}  # rule -> minimal number of obligations
        self.rule_text = {}  # rule -> description
        self.notes = []
        self.info = {}  # extra coverage keys
        self.assumptions = []
        self.consulted = set()
        self.t0 = time.time()
        self.analysis_errors = []

    # -- recording ---------------------------------------------------------
    def rule(self, rule, text, floor=1):
        self.rule_text[rule] = text
        self.floors[rule] = max(self.floors.get(rule, 0), floor)

    def ob(self, rule, where, construct, ok, detail="", nontrivial=True):
        """Record one obligation.  ``where`` = 'path.py:Qual.name', ``construct`` =
        normalised text identifying the instance (never a line number)."""
        if rule not in self.rule_text:
            raise RuntimeError(f"rule {rule} not declared")
        o = Obligation(rule, where, str(construct), bool(ok), detail, nontrivial)
        self.obs.append(o)
        return bool(ok)

    def note(self, text):
        self.notes.append(text)

    def error(self, text):
        self.analysis_errors.append(text)

    def consult(self, *rels):
        self.consulted.update(rels)

    def unmatched_violations(self):
        known = [k for k in load_known() if k.get("property") == self.prop and k.get("status", "known") == "known"]
        out = []
        for o in self.obs:
            if o.ok:
                continue
            if not any(k["rule"] == o.rule and k["where"] == o.where and k["construct"] == o.construct for k in known):
                out.append(o)
        return out

    # -- finishing ---------------------------------------------------------
    def finish(self):
        known = [k for k in load_known() if k.get("property") == self.prop]
        viol = [o for o in self.obs if not o.ok]
        unmatched = []
        known_hit = []
        for o in viol:
            hit = None
            for k in known:
                if k.get("status", "known") != "known":
                    continue  # fixed entries suppress nothing
                if k["rule"] == o.rule and k["where"] == o.where and k["construct"] == o.construct:
                    hit = k
                    break
            if hit:
                known_hit.append((o, hit))
            else:
                unmatched.append(o)
        # floors
        per_rule = {}
        for o in self.obs:
            d = per_rule.setdefault(o.rule, {"obligations": 0, "discharged": 0})
            d["obligations"] += 1
            d["discharged"] += 1 if o.ok else 0
        for r, fl in self.floors.items():
            n = per_rule.get(r, {"obligations": 0})["obligations"]
            if n < fl:
                self.analysis_errors.append(f"rule {r}: {n} obligations found, floor confirmed by hand is {fl} (rule would pass vacuously)")
        for r, d in sorted(per_rule.items()):
            print(f"rule={r} obligations={d['obligations']} discharged={d['discharged']} :: {self.rule_text[r]}")
        for o, k in known_hit:
            print(f"KNOWN-FINDING: property={self.prop} {k.get('id','')} {o.rule} {o.where} :: {o.construct} :: {k.get('what','')}")
        replay_path = None
        if unmatched:
            os.makedirs(REPLAY_DIR, exist_ok=True)
            replay_path = os.path.join(REPLAY_DIR, f"{self.prop}-{self.tier}.json")
            with open(replay_path, "w") as f:
                json.dump(
                    {
                        "property": self.prop,
                        "tier": self.tier,
                        "repo": self.repo.root if self.repo else None,
                        "violations": [dict(o.as_dict(), rule_text=self.rule_text[o.rule]) for o in unmatched],
                    },
                    f,
                    indent=1,
                )
            for o in unmatched[:40]:
                print(f"  UNDISCHARGED {o.rule} {o.where} :: {o.construct} :: {o.detail}")
        self._write_evidence(per_rule, unmatched, known_hit)
        if self.analysis_errors:
            for e in self.analysis_errors:
                print(f"ANALYSIS-ERROR property={self.prop} {e}")
        if unmatched:
            print(f"VIOLATION property={self.prop} replay={replay_path}")
            return 1
        if self.analysis_errors:
            return 2
        print(f"OK property={self.prop} tier={self.tier} obligations={len(self.obs)} known_findings={len(known_hit)}")
        return 0

    def _write_evidence(self, per_rule, unmatched, known_hit):
        os.makedirs(EVIDENCE_DIR, exist_ok=True)
        n = len(self.obs)
        distinct = len({(o.rule, o.where, o.construct) for o in self.obs if o.nontrivial})
        # samples: a few per rule, rotated by seed
        samples = []
        byrule = {}
        for o in self.obs:
            byrule.setdefault(o.rule, []).append(o)
        for r, lst in sorted(byrule.items()):
            k = self.seed % len(lst)
            for o in (lst[k:] + lst[:k])[:3]:
                samples.append(dict(o.as_dict(), discharged=o.ok))
        rules_expl = "; ".join(f"{r}: {t}" for r, t in sorted(self.rule_text.items()))
        cov = {
            "explanation": (
                "Static analysis of /repo/Lib/fontTools source (ast only, nothing imported or executed). "
                "Each obligation is one instance of a structural rule discovered from the current tree; "
                "a pass means every instance was discharged and each rule met its hand-confirmed floor. "
                "Decides structural necessary conditions of the property, not the behaviour. Rules: " + rules_expl
            ),
            "obligations": n,
            "discharged": sum(1 for o in self.obs if o.ok),
            "evaluations": max(n, 0),
            "distinct_nontrivial": distinct,
            "rule": "one case = one (rule, function, normalised construct) obligation discovered in the parsed tree; non-trivial = the rule's slots were filled from source (not a constant check); distinct by that triple",
            "samples": samples,
            "per_rule": per_rule,
            "floors": self.floors,
            "modules_parsed": len(self.repo._mods) if self.repo else 0,
            "modules_in_package": len(self.repo._paths) if self.repo else 0,
            "functions_indexed": sum(len(m.funcs) for m in self.repo._mods.values()) if self.repo else 0,
            "source_digest": self.repo.digest() if self.repo else None,
            "known_findings_matched": [dict(o.as_dict(), id=k.get("id")) for o, k in known_hit],
            "unmatched_violations": [o.as_dict() for o in unmatched],
            "analysis_errors": list(self.analysis_errors),
            "notes": self.notes[:200],
            "exhaustive": False,
        }
        cov.update(self.info)
        ev = {
            "property_id": self.prop,
            "tier": self.tier,
            "seed": self.seed,
            "level": "other",
            "coverage": cov,
            "assumptions": [
                "CPython ast parses the tree as the interpreter would",
                "the checker's name/MRO resolver and constant folder are correct (sa/core.py, sa/consteval.py)",
                "frozen spec/audit tables in sa/tables/ were confirmed by reading the source",
            ]
            + self.assumptions,
            "wall_s": round(time.time() - self.t0, 3),
            "violations": len(unmatched),
        }
        with open(os.path.join(EVIDENCE_DIR, f"{self.prop}.json"), "w") as f:
            json.dump(ev, f, indent=1, default=str)

"""Source model for the static checks: parsed modules, classes with MRO,
functions with qualified names, import tables.  Nothing under the analysed
repository is imported or executed; everything is read with ``ast``.
"""

from __future__ import annotations

import ast
import hashlib
import os
import sys
from functools import lru_cache

REPO = os.environ.get("VERIF_REPO", "/repo")
PKG_ROOT_REL = "Lib/fontTools"


class AnalysisError(Exception):
    """An anchor needed to *discover* obligations is gone (exit 2)."""


def norm(node) -> str:
    """Normalised text of a construct (position/format independent)."""
    if node is None:
        return "None"
    if isinstance(node, str):
        return node
    try:
        return ast.unparse(node)
    except Exception:  # pragma: no cover
        return ast.dump(node)


class Func:
    __slots__ = ("mod", "qual", "node", "cls")

    def __init__(self, mod, qual, node, cls):
        self.mod = mod
        self.qual = qual
        self.node = node
        self.cls = cls

    @property
    def name(self):
        return self.node.name

    @property
    def where(self):
        return f"{self.mod.rel}:{self.qual}"

    def __repr__(self):
        return f"<Func {self.where}>"


class Class:
    __slots__ = ("mod", "qual", "node", "methods", "attrs", "_bases")

    def __init__(self, mod, qual, node):
        self.mod = mod
        self.qual = qual
        self.node = node
        self.methods = {}  # name -> Func
        self.attrs = {}  # name -> value node (class-level simple assigns)
        self._bases = None

    @property
    def name(self):
        return self.node.name

    @property
    def where(self):
        return f"{self.mod.rel}:{self.qual}"

    def __repr__(self):
        return f"<Class {self.where}>"


class Module:
    def __init__(self, repo, rel, dotted, src):
        self.repo = repo
        self.rel = rel  # path relative to Lib/fontTools e.g. "ttLib/sfnt.py"
        self.dotted = dotted  # fontTools.ttLib.sfnt
        self.src = src
        self.tree = ast.parse(src, filename=rel)
        self.is_pkg = rel.endswith("__init__.py")
        self.funcs = {}  # qual -> Func  (includes methods and nested)
        self.classes = {}  # qual -> Class
        self.imports = {}  # local name -> dotted target ("fontTools.misc.sstruct" or "fontTools.misc.textTools.safeEval")
        self.assigns = {}  # module-level name -> value node (last simple assignment)
        self.all_assigns = {}  # name -> [value nodes]
        self._index()

    # -- indexing ---------------------------------------------------------
    def _pkg(self):
        parts = self.dotted.split(".")
        return parts if self.is_pkg else parts[:-1]

    def _index(self):
        for node in ast.walk(self.tree):
            for child in ast.iter_child_nodes(node):
                child._parent = node  # type: ignore[attr-defined]
        self.tree._parent = None  # type: ignore[attr-defined]
        self.tree._mod = self  # type: ignore[attr-defined]  (lets consteval find the module of any node)

        def visit(body, prefix, cls):
            for st in body:
                if isinstance(st, (ast.FunctionDef, ast.AsyncFunctionDef)):
                    q = prefix + st.name
                    f = Func(self, q, st, cls)
                    # keep first definition under q, later ones as q#2.. (conditional defs)
                    key = q
                    n = 2
                    while key in self.funcs:
                        key = f"{q}#{n}"
                        n += 1
                    self.funcs[key] = f
                    if cls is not None and prefix == cls.qual + ".":
                        cls.methods.setdefault(st.name, f)
                        # later definition overrides at runtime; record last
                        cls.methods[st.name] = f
                    visit(st.body, q + ".", None if cls is None else cls)
                elif isinstance(st, ast.ClassDef):
                    q = prefix + st.name
                    c = Class(self, q, st)
                    self.classes.setdefault(q, c)
                    c = self.classes[q]
                    for s2 in st.body:
                        if isinstance(s2, ast.Assign) and len(s2.targets) == 1 and isinstance(s2.targets[0], ast.Name):
                            c.attrs[s2.targets[0].id] = s2.value
                        elif isinstance(s2, ast.AnnAssign) and isinstance(s2.target, ast.Name) and s2.value is not None:
                            c.attrs[s2.target.id] = s2.value
                    visit(st.body, q + ".", c)
                elif isinstance(st, (ast.If, ast.Try, ast.With, ast.For, ast.While)):
                    for fld in ("body", "orelse", "finalbody"):
                        visit(getattr(st, fld, []) or [], prefix, cls)
                    for h in getattr(st, "handlers", []) or []:
                        visit(h.body, prefix, cls)

        visit(self.tree.body, "", None)

        def top(body):
            for st in body:
                if isinstance(st, ast.Import):
                    for a in st.names:
                        if a.asname:
                            self.imports[a.asname] = a.name
                        else:
                            self.imports[a.name.split(".")[0]] = a.name.split(".")[0]
                elif isinstance(st, ast.ImportFrom):
                    if st.level:
                        pk = self._pkg()
                        base = pk[: len(pk) - (st.level - 1)] if st.level > 1 else pk
                        base = ".".join(base)
                        modname = base + ("." + st.module if st.module else "")
                    else:
                        modname = st.module or ""
                    for a in st.names:
                        self.imports[a.asname or a.name] = modname + "." + a.name
                elif isinstance(st, ast.Assign):
                    for t in st.targets:
                        if isinstance(t, ast.Name):
                            self.assigns[t.id] = st.value
                            self.all_assigns.setdefault(t.id, []).append(st.value)
                elif isinstance(st, ast.AnnAssign) and isinstance(st.target, ast.Name) and st.value is not None:
                    self.assigns[st.target.id] = st.value
                    self.all_assigns.setdefault(st.target.id, []).append(st.value)
                elif isinstance(st, (ast.If, ast.Try)):
                    for fld in ("body", "orelse", "finalbody"):
                        top(getattr(st, fld, []) or [])
                    for h in getattr(st, "handlers", []) or []:
                        top(h.body)

        top(self.tree.body)
        # function-local imports are also recorded (lower priority)
        for node in ast.walk(self.tree):
            if isinstance(node, ast.ImportFrom) and node not in self.tree.body:
                if node.level:
                    pk = self._pkg()
                    base = pk[: len(pk) - (node.level - 1)] if node.level > 1 else pk
                    modname = ".".join(base) + ("." + node.module if node.module else "")
                else:
                    modname = node.module or ""
                for a in node.names:
                    self.imports.setdefault(a.asname or a.name, modname + "." + a.name)
            elif isinstance(node, ast.Import) and node not in self.tree.body:
                for a in node.names:
                    if a.asname:
                        self.imports.setdefault(a.asname, a.name)
                    else:
                        self.imports.setdefault(a.name.split(".")[0], a.name.split(".")[0])

    # -- lookup -----------------------------------------------------------
    def func(self, qual) -> Func:
        f = self.funcs.get(qual)
        if f is None:
            raise AnalysisError(f"anchor function {self.rel}:{qual} not found")
        return f

    def cls(self, qual) -> Class:
        c = self.classes.get(qual)
        if c is None:
            raise AnalysisError(f"anchor class {self.rel}:{qual} not found")
        return c

    def const(self, name):
        if name not in self.assigns:
            raise AnalysisError(f"anchor constant {self.rel}:{name} not found")
        return self.assigns[name]


class Repo:
    def __init__(self, root=None):
        self.root = root or REPO
        self.pkg_root = os.path.join(self.root, PKG_ROOT_REL)
        if not os.path.isdir(self.pkg_root):
            raise AnalysisError(f"{self.pkg_root} is not a directory")
        self._mods = {}  # rel -> Module (parsed on demand)
        self._paths = {}  # rel -> (full path, dotted, raw bytes)
        self._dotted2rel = {}
        self.digests = {}
        self.parse_errors = []
        self._scan()

    def _scan(self):
        for dirpath, dirnames, filenames in os.walk(self.pkg_root):
            dirnames[:] = sorted(d for d in dirnames if d != "__pycache__")
            for fn in sorted(filenames):
                if not fn.endswith(".py"):
                    continue
                full = os.path.join(dirpath, fn)
                rel = os.path.relpath(full, self.pkg_root).replace(os.sep, "/")
                with open(full, "rb") as f:
                    raw = f.read()
                self.digests[rel] = hashlib.sha256(raw).hexdigest()
                dotted = "fontTools." + rel[:-3].replace("/", ".")
                if dotted.endswith(".__init__"):
                    dotted = dotted[: -len(".__init__")]
                self._paths[rel] = (full, dotted, raw)
                self._dotted2rel[dotted] = rel

    def _get(self, rel):
        m = self._mods.get(rel)
        if m is None:
            ent = self._paths.get(rel)
            if ent is None:
                return None
            full, dotted, raw = ent
            try:
                m = Module(self, rel, dotted, raw.decode("utf-8"))
            except SyntaxError as e:
                raise AnalysisError(f"syntax error in {rel}: {e}")
            self._mods[rel] = m
        return m

    @property
    def modules(self):
        """All modules (forces a parse of the whole package)."""
        for rel in self._paths:
            self._get(rel)
        return self._mods

    def has(self, rel):
        return rel in self._paths

    def rels(self):
        return list(self._paths)

    def by_dotted_get(self, dotted):
        rel = self._dotted2rel.get(dotted)
        return self._get(rel) if rel else None

    def mod(self, rel) -> Module:
        m = self._get(rel)
        if m is None:
            raise AnalysisError(f"anchor module Lib/fontTools/{rel} not found")
        return m

    def digest(self, rels=None):
        h = hashlib.sha256()
        for r in sorted(rels or self.digests):
            h.update(r.encode())
            h.update(self.digests.get(r, "missing").encode())
        return h.hexdigest()[:16]

    # -- name resolution -----------------------------------------------
    def resolve_dotted(self, dotted):
        """dotted 'fontTools.x.y.Z' -> ('module', Module) | ('class', Class) | ('func', Func) | ('const', (Module,name)) | None"""
        seen = set()
        while dotted and dotted not in seen:
            seen.add(dotted)
            if dotted in self._dotted2rel:
                return ("module", self.by_dotted_get(dotted))
            if "." not in dotted:
                return None
            modname, _, attr = dotted.rpartition(".")
            m = self.by_dotted_get(modname)
            if m is None:
                # maybe Class.attr
                r = self.resolve_dotted(modname)
                if r and r[0] == "class":
                    f = self.lookup_method(r[1], attr)
                    if f:
                        return ("func", f)
                return None
            if attr in m.classes:
                return ("class", m.classes[attr])
            if attr in m.funcs:
                return ("func", m.funcs[attr])
            if attr in m.imports:
                dotted = m.imports[attr]
                continue
            if attr in m.assigns:
                return ("const", (m, attr))
            # submodule of package
            return None
        return None

    def resolve_name(self, mod: Module, name: str):
        if name in mod.classes:
            return ("class", mod.classes[name])
        if name in mod.funcs:
            return ("func", mod.funcs[name])
        if name in mod.imports:
            return self.resolve_dotted(mod.imports[name])
        if name in mod.assigns:
            return ("const", (mod, name))
        return None

    def resolve_expr(self, mod: Module, expr):
        """Resolve Name / dotted Attribute chains to a definition."""
        if isinstance(expr, ast.Name):
            return self.resolve_name(mod, expr.id)
        if isinstance(expr, ast.Attribute):
            base = self.resolve_expr(mod, expr.value)
            if base is None:
                return None
            kind, obj = base
            if kind == "module":
                return self.resolve_dotted(obj.dotted + "." + expr.attr)
            if kind == "class":
                f = self.lookup_method(obj, expr.attr)
                if f:
                    return ("func", f)
                v = self.lookup_class_attr(obj, expr.attr)
                if v is not None:
                    return ("classattr", (obj, expr.attr, v))
        return None

    # -- classes ---------------------------------------------------------
    def bases(self, c: Class):
        if c._bases is not None:
            return c._bases
        out = []
        for b in c.node.bases:
            r = self._resolve_base(c.mod, b)
            if r is not None:
                out.append(r)
        c._bases = out
        return out

    def _resolve_base(self, mod, b):
        r = self.resolve_expr(mod, b)
        if r and r[0] == "class":
            return r[1]
        if r and r[0] == "const":
            m, name = r[1]
            return self._resolve_base(m, m.assigns[name])
        # getTableClass("glyf") / ttLib.getTableClass("fpgm")
        if isinstance(b, ast.Call):
            fn = b.func
            fname = fn.attr if isinstance(fn, ast.Attribute) else getattr(fn, "id", None)
            if fname == "getTableClass" and b.args and isinstance(b.args[0], ast.Constant):
                tag = b.args[0].value
                return self.table_class(tag)
            if fname == "getFormatSwitchingBaseTableClass":
                m = self._get("ttLib/tables/otBase.py")
                if m:
                    return m.classes.get("FormatSwitchingBaseTable")
        return None

    def mro(self, c: Class):
        """Linearisation good enough for single/multiple inheritance in this package (depth-first, left-to-right, dedup keeping last)."""
        out = []

        def go(k, stack):
            out.append(k)
            for b in self.bases(k):
                if any(b is x for x in stack):
                    continue  # a base that resolves to the class itself (name re-bound in the module): not an ancestor
                go(b, stack + [b])

        go(c, [c])
        # dedup keeping last occurrence (approximates C3 for diamond)
        seen = set()
        res = []
        for k in reversed(out):
            if id(k) in seen:
                continue
            seen.add(id(k))
            res.append(k)
        return list(reversed(res))

    def lookup_method(self, c: Class, name):
        for k in self.mro(c):
            if name in k.methods:
                return k.methods[name]
        return None

    def lookup_class_attr(self, c: Class, name):
        for k in self.mro(c):
            if name in k.attrs:
                return k.attrs[name]
        return None

    def is_subclass(self, c: Class, basename: str):
        return any(k.name == basename for k in self.mro(c))

    # -- ttLib table classes ----------------------------------------------
    @staticmethod
    def tag_to_identifier(tag: str) -> str:
        # static re-implementation of ttLib.ttFont.tagToIdentifier (checked
        # against the source by rule C15/tag-ident)
        import re

        if tag == "GlyphOrder":
            return tag
        assert len(tag) == 4, tag
        while len(tag) > 1 and tag[-1] == " ":
            tag = tag[:-1]
        ident = ""
        for c in tag:
            if re.match("[a-z0-9]", c):
                ident += "_" + c
            elif re.match("[A-Z]", c):
                ident += c + "_"
            else:
                ident += hex(ord(c))[2:].rjust(2, "0")
        return ident

    def table_class(self, tag):
        ident = self.tag_to_identifier(tag)
        m = self._get(f"ttLib/tables/{ident}.py")
        if m is None:
            return None
        return m.classes.get("table_" + ident)

    def table_modules(self):
        out = {}
        for rel in self.rels():
            if rel.startswith("ttLib/tables/") and rel.count("/") == 2:
                m = self._get(rel)
                base = rel.rsplit("/", 1)[1][:-3]
                c = m.classes.get("table_" + base)
                if c is not None:
                    out[base] = c
        return out


def parent(node):
    return getattr(node, "_parent", None)


def enclosing_func(node):
    p = parent(node)
    while p is not None and not isinstance(p, (ast.FunctionDef, ast.AsyncFunctionDef, ast.Lambda)):
        p = parent(p)
    return p


def enclosing_stmt(node):
    p = node
    while p is not None and not isinstance(p, ast.stmt):
        p = parent(p)
    return p


def walk_no_nested(node):
    """Walk a function body without descending into nested defs/classes/lambdas."""
    # pre-order, source order
    stack = list(ast.iter_child_nodes(node))[::-1]
    while stack:
        n = stack.pop()
        yield n
        if isinstance(n, (ast.FunctionDef, ast.AsyncFunctionDef, ast.ClassDef, ast.Lambda)):
            continue
        stack.extend(list(ast.iter_child_nodes(n))[::-1])


_WALK_CACHE = {}


def walk_cached(node):
    """walk_no_nested as a cached list (the trees are immutable during a run)"""
    k = id(node)
    r = _WALK_CACHE.get(k)
    if r is None or r[0] is not node:
        r = (node, list(walk_no_nested(node)))
        _WALK_CACHE[k] = r
    return r[1]


def calls_in(node, nested=True):
    it = ast.walk(node) if nested else walk_no_nested(node)
    for n in it:
        if isinstance(n, ast.Call):
            yield n


def call_name(call: ast.Call):
    """'f' for f(...), 'a.b.f' for a.b.f(...), None otherwise."""
    return dotted_name(call.func)


def dotted_name(e):
    parts = []
    while isinstance(e, ast.Attribute):
        parts.append(e.attr)
        e = e.value
    if isinstance(e, ast.Name):
        parts.append(e.id)
        return ".".join(reversed(parts))
    return None


def last_attr(call: ast.Call):
    f = call.func
    if isinstance(f, ast.Attribute):
        return f.attr
    if isinstance(f, ast.Name):
        return f.id
    return None


@lru_cache(maxsize=4)
def load_repo(root=None) -> Repo:
    return Repo(root)


# ---------------------------------------------------------------------------
# helpers that make shape rules survive behaviour-preserving refactorings
# ---------------------------------------------------------------------------
def single_defs(fn):
    """{local name: defining expression} for the plain locals of ``fn`` that are bound exactly once by a simple assignment
    and never mutated in place (cached on the function node)"""
    cached = getattr(fn, "_single_defs", None)
    if cached is not None:
        return cached
    defs = {}
    multi = set()
    for n in walk_no_nested(fn):
        if isinstance(n, ast.Assign) and len(n.targets) == 1 and isinstance(n.targets[0], ast.Name):
            defs.setdefault(n.targets[0].id, []).append(n.value)
        elif isinstance(n, (ast.AugAssign, ast.AnnAssign)) and isinstance(n.target, ast.Name):
            multi.add(n.target.id)
        elif isinstance(n, (ast.For, ast.AsyncFor, ast.comprehension)):
            multi.update(x.id for x in ast.walk(n.target) if isinstance(x, ast.Name))
        elif isinstance(n, ast.Assign):
            for t in n.targets:
                multi.update(x.id for x in ast.walk(t) if isinstance(x, ast.Name) and isinstance(x.ctx, ast.Store))
    # names whose object is mutated in place are containers being filled, not aliases: never inline them
    MUT = {"append", "extend", "insert", "update", "add", "setdefault", "pop", "remove", "clear", "sort", "reverse", "discard", "write", "seek"}
    for n in walk_no_nested(fn):
        if isinstance(n, ast.Call) and isinstance(n.func, ast.Attribute) and isinstance(n.func.value, ast.Name) and n.func.attr in MUT:
            multi.add(n.func.value.id)
        elif isinstance(n, ast.Subscript) and isinstance(n.ctx, (ast.Store, ast.Del)) and isinstance(n.value, ast.Name):
            multi.add(n.value.id)
    params = {a.arg for a in fn.args.posonlyargs + fn.args.args + fn.args.kwonlyargs} if hasattr(fn, "args") else set()
    single = {k: v[0] for k, v in defs.items() if len(v) == 1 and k not in multi and k not in params}

    try:
        fn._single_defs = single
    except Exception:
        pass
    return single


def inline_locals(fn, expr, max_rounds=3):
    """``expr`` with every plain local of ``fn`` that is assigned exactly once (and is not a loop/with/except target)
    replaced by its defining expression -- undoes `alias = self.tables[tag]` style refactorings."""
    import copy

    single = single_defs(fn)

    class T(ast.NodeTransformer):
        def visit_Name(self, n):
            if isinstance(n.ctx, ast.Load) and n.id in single:
                return ast.parse(norm(single[n.id]), mode="eval").body
            return n

    out = ast.parse(norm(expr), mode="eval").body
    for _ in range(max_rounds):
        before = ast.dump(out)
        out = T().visit(out)
        if ast.dump(out) == before:
            break
    return out


def private_callees(repo, f, depth=2):
    """Functions of the same module / class that ``f`` calls as self._x(...), cls._x(...), Class._x(...) or _x(...)
    (underscore-prefixed or not), followed ``depth`` levels: the closure an extract-method refactoring moves code into."""
    out = []
    seen = {id(f.node)}
    frontier = [f]
    for _ in range(depth):
        nxt = []
        for g in frontier:
            for c in calls_in(g.node, nested=False):
                tgt = None
                fn = c.func
                if isinstance(fn, ast.Attribute) and isinstance(fn.value, ast.Name) and fn.value.id in ("self", "cls") and g.cls is not None:
                    for k in repo.mro(g.cls):
                        if fn.attr in k.methods:
                            tgt = k.methods[fn.attr]
                            break
                elif isinstance(fn, ast.Attribute) and isinstance(fn.value, ast.Name) and fn.value.id in g.mod.classes:
                    tgt = g.mod.classes[fn.value.id].methods.get(fn.attr)
                elif isinstance(fn, ast.Name) and fn.id in g.mod.funcs:
                    tgt = g.mod.funcs[fn.id]
                if tgt is not None and id(tgt.node) not in seen:
                    seen.add(id(tgt.node))
                    out.append(tgt)
                    nxt.append(tgt)
        frontier = nxt
    return out


def walk_closure(repo, f, depth=2):
    """nodes of f and of its private callees (see private_callees)"""
    yield from walk_no_nested(f.node)
    for g in private_callees(repo, f, depth):
        yield from walk_no_nested(g.node)


def canon_cond(t):
    """(expr_text, polarity) with leading `not`s stripped and `!=` / `is not` / `not in` turned into their positive forms"""
    pol = True
    while isinstance(t, ast.UnaryOp) and isinstance(t.op, ast.Not):
        t, pol = t.operand, not pol
    if isinstance(t, ast.Compare) and len(t.ops) == 1:
        op = t.ops[0]
        flip = {ast.NotEq: ast.Eq, ast.IsNot: ast.Is, ast.NotIn: ast.In}
        for neg, posop in flip.items():
            if isinstance(op, neg):
                t2 = ast.Compare(left=t.left, ops=[posop()], comparators=t.comparators)
                return norm(t2), not pol
    return norm(t), pol


def sym_return(repo, f, depth=2, _args=None):
    """Symbolic summary of a straight-line function: the returned expression written over the parameters only, with every
    local substituted in assignment order (re-bound names included) and calls to straight-line module-level helpers of
    the same module inlined ``depth`` levels.  Returns an ast expression, or None when the body has control flow.  Local
    renames, extracted helpers and temporaries all produce the same summary."""
    node = f.node
    if not isinstance(node, (ast.FunctionDef, ast.AsyncFunctionDef)):
        return None
    env = dict(_args or {})

    def subst(expr):
        clone = ast.parse(norm(expr), mode="eval").body

        class T(ast.NodeTransformer):
            def visit_Name(self, n):
                if isinstance(n.ctx, ast.Load) and n.id in env:
                    return ast.parse("(" + norm(env[n.id]) + ")", mode="eval").body
                return n

            def visit_Call(self, c):
                c = self.generic_visit(c)
                if depth > 0 and isinstance(c.func, ast.Name) and c.func.id not in env and not c.keywords:
                    h = f.mod.funcs.get(c.func.id)
                    if h is not None and h.cls is None and isinstance(h.node, ast.FunctionDef) and h.node is not node:
                        ps = [a.arg for a in h.node.args.posonlyargs + h.node.args.args]
                        if len(ps) == len(c.args) and not h.node.args.vararg and not h.node.args.kwarg and not h.node.args.defaults:
                            r = sym_return(repo, h, depth - 1, dict(zip(ps, c.args)))
                            if r is not None:
                                return r
                return c

            def visit_Lambda(self, n):
                return n

        return T().visit(clone)

    ret = None
    for st in node.body:
        if isinstance(st, ast.Expr) and isinstance(st.value, ast.Constant):
            continue
        if isinstance(st, ast.Assign) and len(st.targets) == 1 and isinstance(st.targets[0], ast.Name):
            env[st.targets[0].id] = subst(st.value)
        elif isinstance(st, ast.Assign) and len(st.targets) == 1 and isinstance(st.targets[0], ast.Tuple) and isinstance(st.value, ast.Tuple) and len(st.targets[0].elts) == len(st.value.elts) and all(isinstance(t, ast.Name) for t in st.targets[0].elts):
            vals = [subst(v) for v in st.value.elts]
            for t, v in zip(st.targets[0].elts, vals):
                env[t.id] = v
        elif isinstance(st, ast.Return) and st.value is not None:
            ret = subst(st.value)
            break
        else:
            return None
    return ret

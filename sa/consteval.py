"""Constant folder for pure literal expressions in the analysed source.

``fold(expr, env)`` returns a Python value or raises ``Unknown``.  Nothing from
the analysed repository is executed: only a closed set of operators/builtins
is interpreted on literals.
"""

from __future__ import annotations

import ast
import operator


class Unknown(Exception):
    pass


class FuncRef:
    """A module-level function used as a value (e.g. in a dispatch table)."""

    __slots__ = ("mod", "name")

    def __init__(self, mod, name):
        self.mod, self.name = mod, name

    def __eq__(self, o):
        return isinstance(o, FuncRef) and (self.mod, self.name) == (o.mod, o.name)

    def __hash__(self):
        return hash((self.mod, self.name))

    def __repr__(self):
        return f"<func {self.name}>"


_BINOPS = {
    ast.Add: operator.add,
    ast.Sub: operator.sub,
    ast.Mult: operator.mul,
    ast.FloorDiv: operator.floordiv,
    ast.Div: operator.truediv,
    ast.Mod: operator.mod,
    ast.LShift: operator.lshift,
    ast.RShift: operator.rshift,
    ast.BitAnd: operator.and_,
    ast.BitOr: operator.or_,
    ast.BitXor: operator.xor,
    ast.Pow: operator.pow,
}
_UNOPS = {ast.USub: operator.neg, ast.UAdd: operator.pos, ast.Invert: operator.invert, ast.Not: operator.not_}
_CMP = {
    ast.Eq: operator.eq,
    ast.NotEq: operator.ne,
    ast.Lt: operator.lt,
    ast.LtE: operator.le,
    ast.Gt: operator.gt,
    ast.GtE: operator.ge,
    ast.In: lambda a, b: a in b,
    ast.NotIn: lambda a, b: a not in b,
}

_SAFE_BUILTINS = {
    "len": len,
    "chr": chr,
    "ord": ord,
    "range": range,
    "list": list,
    "tuple": tuple,
    "set": set,
    "frozenset": frozenset,
    "sorted": sorted,
    "dict": dict,
    "int": int,
    "str": str,
    "bytes": bytes,
    "min": min,
    "max": max,
    "sum": sum,
    "abs": abs,
    "bool": bool,
    "float": float,
    "zip": lambda *a: list(zip(*a)),
    "enumerate": lambda *a: list(enumerate(*a)),
    "reversed": lambda a: list(reversed(a)),
    "hex": hex,
    "divmod": divmod,
    "pow": pow,
    "round": round,
}
_SAFE_METHODS = {
    str: {"split", "lower", "upper", "join", "ljust", "rjust", "strip", "splitlines", "replace", "format", "encode", "startswith", "endswith", "lstrip", "rstrip"},
    bytes: {"decode", "split", "join", "hex"},
    dict: {"keys", "values", "items", "get", "copy"},
    list: {"index", "count", "copy"},
    tuple: {"index", "count"},
    set: {"union", "intersection", "difference", "copy"},
    frozenset: {"union", "intersection", "difference"},
}


class Env:
    """Name environment: a chain of dicts plus an optional module resolver."""

    def __init__(self, repo=None, mod=None, local=None, depth=0):
        self.repo = repo
        self.mod = mod
        self.local = dict(local or {})
        self.depth = depth

    def child(self, local):
        e = Env(self.repo, self.mod, {**self.local, **local}, self.depth)
        return e

    def lookup(self, name):
        if name in self.local:
            return self.local[name]
        if name in _SAFE_BUILTINS and (self.mod is None or name not in self.mod.assigns):
            raise Unknown(name)  # builtin function object itself is not a value
        if self.mod is not None:
            if self.depth > 40:
                raise Unknown("depth")
            if name in self.mod.assigns:
                # fold every assignment sequence: use the last module-level binding
                return fold(self.mod.assigns[name], Env(self.repo, self.mod, {}, self.depth + 1))
            if name in self.mod.funcs:
                return FuncRef(self.mod.rel, name)
            if name in self.mod.imports and self.repo is not None:
                r = self.repo.resolve_dotted(self.mod.imports[name])
                if r and r[0] == "const":
                    m, n = r[1]
                    return fold(m.assigns[n], Env(self.repo, m, {}, self.depth + 1))
                if r and r[0] == "func":
                    return FuncRef(r[1].mod.rel, r[1].qual)
        raise Unknown(name)


def fold(e, env: Env | None = None):
    env = env or Env()
    if isinstance(e, ast.Constant):
        return e.value
    if isinstance(e, ast.Name):
        if e.id in ("True", "False", "None"):
            return {"True": True, "False": False, "None": None}[e.id]
        return env.lookup(e.id)
    if isinstance(e, ast.Tuple):
        return tuple(_elts(e.elts, env))
    if isinstance(e, ast.List):
        return list(_elts(e.elts, env))
    if isinstance(e, ast.Set):
        return set(_elts(e.elts, env))
    if isinstance(e, ast.Dict):
        d = {}
        for k, v in zip(e.keys, e.values):
            if k is None:
                d.update(fold(v, env))
            else:
                d[fold(k, env)] = fold(v, env)
        return d
    if isinstance(e, ast.BinOp):
        op = _BINOPS.get(type(e.op))
        if op is None:
            raise Unknown(ast.dump(e.op))
        l, r = fold(e.left, env), fold(e.right, env)
        if isinstance(e.op, ast.Pow) and (not isinstance(r, int) or abs(r) > 256):
            raise Unknown("pow")
        if isinstance(e.op, ast.Mult) and isinstance(l, (str, bytes, list, tuple)) and isinstance(r, int) and r > 1 << 20:
            raise Unknown("big repeat")
        if isinstance(e.op, ast.LShift) and r > 4096:
            raise Unknown("big shift")
        try:
            return op(l, r)
        except Exception as ex:
            raise Unknown(str(ex))
    if isinstance(e, ast.UnaryOp):
        return _UNOPS[type(e.op)](fold(e.operand, env))
    if isinstance(e, ast.BoolOp):
        vals = [fold(v, env) for v in e.values]
        if isinstance(e.op, ast.And):
            r = True
            for v in vals:
                r = v
                if not v:
                    break
            return r
        r = False
        for v in vals:
            r = v
            if v:
                break
        return r
    if isinstance(e, ast.Compare):
        l = fold(e.left, env)
        for op, c in zip(e.ops, e.comparators):
            r = fold(c, env)
            f = _CMP.get(type(op))
            if f is None:
                raise Unknown("cmp")
            if not f(l, r):
                return False
            l = r
        return True
    if isinstance(e, ast.IfExp):
        return fold(e.body, env) if fold(e.test, env) else fold(e.orelse, env)
    if isinstance(e, ast.Subscript):
        v = fold(e.value, env)
        s = e.slice
        if isinstance(s, ast.Slice):
            lo = fold(s.lower, env) if s.lower else None
            hi = fold(s.upper, env) if s.upper else None
            st = fold(s.step, env) if s.step else None
            return v[lo:hi:st]
        try:
            return v[fold(s, env)]
        except Exception as ex:
            raise Unknown(str(ex))
    if isinstance(e, ast.JoinedStr):
        out = []
        for v in e.values:
            if isinstance(v, ast.Constant):
                out.append(str(v.value))
            elif isinstance(v, ast.FormattedValue):
                val = fold(v.value, env)
                spec = fold(v.format_spec, env) if v.format_spec else ""
                out.append(format(val, spec))
        return "".join(out)
    if isinstance(e, ast.Call):
        return _call(e, env)
    if isinstance(e, (ast.ListComp, ast.SetComp, ast.GeneratorExp, ast.DictComp)):
        return _comp(e, env)
    if isinstance(e, ast.Attribute):
        # module.CONST
        if env.repo is not None and env.mod is not None:
            r = env.repo.resolve_expr(env.mod, e)
            if r and r[0] == "const":
                m, n = r[1]
                return fold(m.assigns[n], Env(env.repo, m, {}, env.depth + 1))
            if r and r[0] == "classattr":
                c, n, v = r[1]
                return fold(v, Env(env.repo, c.mod, {}, env.depth + 1))
        raise Unknown(ast.unparse(e))
    if isinstance(e, ast.Starred):
        raise Unknown("starred")
    raise Unknown(type(e).__name__)


def _elts(elts, env):
    for x in elts:
        if isinstance(x, ast.Starred):
            yield from fold(x.value, env)
        else:
            yield fold(x, env)


def _call(e: ast.Call, env):
    f = e.func
    args = list(_elts(e.args, env))
    kw = {k.arg: fold(k.value, env) for k in e.keywords if k.arg}
    if isinstance(f, ast.Name):
        if f.id in _SAFE_BUILTINS and f.id not in env.local:
            try:
                r = _SAFE_BUILTINS[f.id](*args, **kw)
            except Exception as ex:
                raise Unknown(str(ex))
            if isinstance(r, range):
                if len(r) > 1 << 20:
                    raise Unknown("big range")
            return r
        if f.id == "bytechr" and len(args) == 1:
            return bytes([args[0]])
        if f.id == "byteord" and len(args) == 1:
            return args[0] if isinstance(args[0], int) else args[0][0]
        raise Unknown(f.id)
    if isinstance(f, ast.Attribute):
        # struct.calcsize / sstruct.calcsize
        base = f.value
        if isinstance(base, ast.Name) and base.id in ("struct",) and f.attr == "calcsize" and len(args) == 1:
            import struct

            return struct.calcsize(args[0])
        if isinstance(base, ast.Name) and base.id == "sstruct" and f.attr == "calcsize" and len(args) == 1:
            from .fmt import sstruct_parse

            return sstruct_parse(args[0]).size
        if isinstance(base, ast.Name) and base.id == "dict" and f.attr == "fromkeys":
            return dict.fromkeys(*args)
        obj = fold(base, env)
        allowed = None
        for t, names in _SAFE_METHODS.items():
            if isinstance(obj, t):
                allowed = names
                break
        if allowed and f.attr in allowed:
            try:
                r = getattr(obj, f.attr)(*args, **kw)
            except Exception as ex:
                raise Unknown(str(ex))
            if f.attr in ("keys", "values", "items"):
                r = list(r)
            return r
        raise Unknown(ast.unparse(f))
    raise Unknown("call")


def _comp(e, env):
    results = []

    def rec(gens, env):
        if not gens:
            if isinstance(e, ast.DictComp):
                results.append((fold(e.key, env), fold(e.value, env)))
            else:
                results.append(fold(e.elt, env))
            return
        g = gens[0]
        it = fold(g.iter, env)
        n = 0
        for item in it:
            n += 1
            if n > 1 << 18:
                raise Unknown("big comp")
            local = {}
            _bind(g.target, item, local)
            e2 = env.child(local)
            if all(fold(c, e2) for c in g.ifs):
                rec(gens[1:], e2)

    rec(e.generators, env)
    if isinstance(e, ast.ListComp) or isinstance(e, ast.GeneratorExp):
        return results
    if isinstance(e, ast.SetComp):
        return set(results)
    return dict(results)


def _bind(target, value, local):
    if isinstance(target, ast.Name):
        local[target.id] = value
    elif isinstance(target, (ast.Tuple, ast.List)):
        vals = list(value)
        if len(vals) != len(target.elts):
            raise Unknown("unpack")
        for t, v in zip(target.elts, vals):
            _bind(t, v, local)
    else:
        raise Unknown("bind")


def _default_env(e):
    """module environment of the module that owns node ``e`` (found through the parent links), so that named module
    constants fold without the caller passing an env"""
    cur = e
    for _ in range(200):
        p = getattr(cur, "_parent", None)
        if p is None:
            break
        cur = p
    mod = getattr(cur, "_mod", None)
    if mod is None or getattr(mod, "repo", None) is None:
        return None
    env = getattr(mod, "_default_env", None)
    if env is None:
        env = Env(mod.repo, mod, {})
        mod._default_env = env
    return env


def env_of(node):
    """module environment of the module owning ``node`` (public alias of _default_env)"""
    return _default_env(node)


def try_fold(e, env=None, default=None):
    if env is None and isinstance(e, ast.AST):
        env = _default_env(e)
    try:
        return fold(e, env)
    except Unknown:
        pass
    except RecursionError:
        return default
    # a local alias for a constant (`bits = _SCALE_BITS` ... f(x, bits)): inline single-assignment locals and retry
    if isinstance(e, ast.AST):
        from .core import single_defs, inline_locals

        fn = getattr(e, "_parent", None)
        while fn is not None and not isinstance(fn, (ast.FunctionDef, ast.AsyncFunctionDef)):
            fn = getattr(fn, "_parent", None)
        if fn is not None:
            sd = single_defs(fn)
            if sd and any(isinstance(x, ast.Name) and x.id in sd for x in ast.walk(e)):
                try:
                    return fold(inline_locals(fn, e), env if env is not None else _default_env(fn))
                except (Unknown, RecursionError):
                    return default
    return default


def module_env(repo, mod):
    return Env(repo, mod, {})


def fold_module_sequence(repo, mod, name):
    """Fold module-level name ``name`` by interpreting the module's top-level
    statements in order (assignments of foldable values, slice/item stores,
    augmented assignments, update/append/extend calls).  Statements whose value
    cannot be folded are skipped; the name asked for must end up known."""
    cache = getattr(mod, "_seqfold", None)
    if cache is None:
        env = Env(repo, mod, {})
        local = env.local
        poisoned = set()
        for st in mod.tree.body:
            try:
                if isinstance(st, ast.AnnAssign) and st.value is not None and isinstance(st.target, ast.Name):
                    try:
                        local[st.target.id] = fold(st.value, env)
                        poisoned.discard(st.target.id)
                    except Unknown:
                        local.pop(st.target.id, None)
                        poisoned.add(st.target.id)
                elif isinstance(st, ast.Assign) and len(st.targets) == 1:
                    t = st.targets[0]
                    if isinstance(t, ast.Name):
                        try:
                            local[t.id] = fold(st.value, env)
                            poisoned.discard(t.id)
                        except Unknown:
                            local.pop(t.id, None)
                            poisoned.add(t.id)
                    elif isinstance(t, ast.Subscript) and isinstance(t.value, ast.Name) and t.value.id in local:
                        val = local[t.value.id]
                        try:
                            v = fold(st.value, env)
                            sl = t.slice
                            if isinstance(sl, ast.Slice):
                                lo = fold(sl.lower, env) if sl.lower else None
                                hi = fold(sl.upper, env) if sl.upper else None
                                val[lo:hi] = v
                            else:
                                val[fold(sl, env)] = v
                        except Unknown:
                            local.pop(t.value.id, None)
                            poisoned.add(t.value.id)
                elif isinstance(st, ast.AugAssign) and isinstance(st.target, ast.Name) and st.target.id in local:
                    try:
                        local[st.target.id] = _BINOPS[type(st.op)](local[st.target.id], fold(st.value, env))
                    except (Unknown, KeyError):
                        local.pop(st.target.id, None)
                        poisoned.add(st.target.id)
                elif isinstance(st, ast.Expr) and isinstance(st.value, ast.Call):
                    c = st.value
                    if isinstance(c.func, ast.Attribute) and isinstance(c.func.value, ast.Name) and c.func.value.id in local and c.func.attr in ("update", "append", "extend"):
                        try:
                            getattr(local[c.func.value.id], c.func.attr)(*[fold(a, env) for a in c.args])
                        except Unknown:
                            local.pop(c.func.value.id, None)
                            poisoned.add(c.func.value.id)
            except Exception:
                continue
        cache = (local, poisoned)
        mod._seqfold = cache
    local, poisoned = cache
    if name not in local:
        raise Unknown(name)
    return local[name]


def cnorm(node, env=None):
    """Normalised text like core.norm, with every sub-expression that folds to an int / str / bytes constant through the
    module environment (named module constants, arithmetic on them) replaced by the literal: `data[:_headAdjOffset]` and
    `data[:8]` read the same."""
    import copy
    from .core import norm

    if node is None or isinstance(node, str):
        return norm(node)
    if env is None:
        env = _default_env(node)

    class T(ast.NodeTransformer):
        def generic_visit(self, n):
            if isinstance(n, ast.expr) and not isinstance(n, (ast.Constant, ast.Starred)) and isinstance(n, (ast.Name, ast.Attribute, ast.BinOp, ast.UnaryOp)):
                if not (isinstance(n, ast.Name) and isinstance(n.ctx, ast.Store)) and not (isinstance(n, ast.Attribute) and isinstance(n.ctx, ast.Store)):
                    try:
                        v = fold(n, env)
                        if isinstance(v, (int, str, bytes)) and not isinstance(v, bool):
                            return ast.copy_location(ast.Constant(value=v), n)
                    except (Unknown, RecursionError, Exception):
                        pass
            return super().generic_visit(n)

    try:
        clone = ast.parse(norm(node), mode="eval").body if isinstance(node, ast.expr) else ast.parse(norm(node))
    except SyntaxError:
        return norm(node)
    return norm(T().visit(clone))

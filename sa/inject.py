"""Method injection model: ``@_add_method(A, B)`` / ``@add_method`` decorators and
visitor registrations.  Classes are identified by strings: ``tt:<tag>`` for ttLib
table classes (``ttLib.getTableClass("hmtx")``) and ``ot:<Name>`` for otTables classes."""

from __future__ import annotations

import ast

from .core import norm, call_name


def class_id(repo, mod, expr):
    """Resolve a decorator argument to a class id string (or None)."""
    if isinstance(expr, ast.Call):
        fn = call_name(expr) or ""
        if fn.rsplit(".", 1)[-1] in ("getTableClass", "newTable") and expr.args and isinstance(expr.args[0], ast.Constant):
            return "tt:" + expr.args[0].value
        return None
    if isinstance(expr, ast.Attribute) and isinstance(expr.value, ast.Name):
        base = expr.value.id
        tgt = mod.imports.get(base, "")
        if tgt.endswith("otTables") or base in ("otTables", "ot"):
            return "ot:" + expr.attr
        if tgt.endswith("ttLib") and expr.attr == "TTFont":
            return "cls:TTFont"
        r = repo.resolve_expr(mod, expr)
        if r and r[0] == "class":
            return "cls:" + r[1].name
        return None
    if isinstance(expr, ast.Name):
        r = repo.resolve_name(mod, expr.id)
        if r and r[0] == "class":
            if r[1].mod.rel == "ttLib/tables/otTables.py":
                return "ot:" + r[1].name
            return "cls:" + r[1].name
        tgt = mod.imports.get(expr.id, "")
        if ".otTables." in tgt:
            return "ot:" + tgt.rsplit(".", 1)[-1]
        return None
    return None


def injected_methods(repo, mod, decorator_names=("_add_method", "add_method")):
    """Return {class_id: {method_name: Func}} for one module."""
    out = {}
    for q, f in mod.funcs.items():
        for d in f.node.decorator_list:
            if isinstance(d, ast.Call) and (call_name(d) or "").rsplit(".", 1)[-1] in decorator_names:
                for a in d.args:
                    cid = class_id(repo, mod, a)
                    if cid is None:
                        out.setdefault("?:" + norm(a), {})[f.node.name] = f
                    else:
                        out.setdefault(cid, {})[f.node.name] = f
    return out


def tt_mro_tags(repo, tag):
    """Tags of the table classes in the MRO of a ttLib table class (CBLC -> [CBLC, EBLC])."""
    c = repo.table_class(tag)
    if c is None:
        return [tag]
    out = []
    for k in repo.mro(c):
        if k.name.startswith("table_"):
            out.append(identifier_to_tag(k.name[6:]))
    return out or [tag]


def identifier_to_tag(ident):
    if ident == "GlyphOrder":
        return ident
    if len(ident) % 2 and ident[0] == "_":
        ident = ident[1:]
    tag = ""
    for i in range(0, len(ident), 2):
        if ident[i] == "_":
            tag += ident[i + 1]
        elif ident[i + 1] == "_":
            tag += ident[i]
        else:
            tag += chr(int(ident[i : i + 2], 16))
    return tag + " " * (4 - len(tag))


def all_table_tags(repo):
    """tag -> Class for every table module."""
    out = {}
    for ident, c in repo.table_modules().items():
        try:
            out[identifier_to_tag(ident)] = c
        except Exception:
            pass
    return out

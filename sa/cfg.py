"""Statement-level control-flow graph for one function, with dominators.

Nodes are simple statements and the header of each compound statement (the
``if``/``while`` test, the ``for`` iterator, the ``with`` items, ``except``
clauses).  Implicit exceptions are modelled only inside ``try`` bodies (every
node of the body may jump to every handler).  Expression-level short circuit
is not modelled.
"""

from __future__ import annotations

import ast


class CFG:
    ENTRY = 0
    EXIT = 1  # normal return / fall off the end
    RAISE = 2  # uncaught raise

    def __init__(self, func: ast.AST):
        self.func = func
        self.stmt = {0: None, 1: None, 2: None}  # id -> ast node
        self.kind = {0: "entry", 1: "exit", 2: "raise"}
        self.succ = {0: set(), 1: set(), 2: set()}
        self.pred = {0: set(), 1: set(), 2: set()}
        self.node_of = {}  # id(ast stmt) -> node id
        self._n = 3
        self._loops = []  # (head, break_targets list)
        self._handlers = []  # stack of lists of handler entry ids
        self._finally = []
        out = self._seq(func.body, {0})
        for p in out:
            self._edge(p, 1)
        self._dom = None
        self._pdom = None

    # -- construction --------------------------------------------------------
    def _new(self, node, kind="stmt"):
        i = self._n
        self._n += 1
        self.stmt[i] = node
        self.kind[i] = kind
        self.succ[i] = set()
        self.pred[i] = set()
        self.node_of.setdefault(id(node), i)
        if self._handlers:
            for h in self._handlers[-1]:
                self._edge(i, h)
        return i

    def _edge(self, a, b):
        self.succ[a].add(b)
        self.pred[b].add(a)

    def _seq(self, stmts, preds):
        for st in stmts:
            preds = self._stmt(st, preds)
        return preds

    def _stmt(self, st, preds):
        if isinstance(st, (ast.FunctionDef, ast.AsyncFunctionDef, ast.ClassDef)):
            n = self._new(st, "def")
            for p in preds:
                self._edge(p, n)
            return {n}
        if isinstance(st, ast.If):
            n = self._new(st, "if")
            for p in preds:
                self._edge(p, n)
            a = self._seq(st.body, {n})
            b = self._seq(st.orelse, {n}) if st.orelse else {n}
            return a | b
        if isinstance(st, (ast.For, ast.AsyncFor, ast.While)):
            n = self._new(st, "loop")
            for p in preds:
                self._edge(p, n)
            brk = []
            self._loops.append((n, brk))
            body_out = self._seq(st.body, {n})
            self._loops.pop()
            for p in body_out:
                self._edge(p, n)
            infinite = isinstance(st, ast.While) and isinstance(st.test, ast.Constant) and bool(st.test.value)
            out = set()
            if not infinite:
                out = self._seq(st.orelse, {n}) if st.orelse else {n}
            return out | set(brk)
        if isinstance(st, (ast.With, ast.AsyncWith)):
            n = self._new(st, "with")
            for p in preds:
                self._edge(p, n)
            return self._seq(st.body, {n})
        if isinstance(st, ast.Try) or st.__class__.__name__ == "TryStar":
            # handler entries
            hs = []
            for h in st.handlers:
                hn = self._n
                self._n += 1
                self.stmt[hn] = h
                self.kind[hn] = "except"
                self.succ[hn] = set()
                self.pred[hn] = set()
                self.node_of[id(h)] = hn
                hs.append(hn)
            t = self._new(st, "try")
            for p in preds:
                self._edge(p, t)
            for h in hs:
                self._edge(t, h)
            self._handlers.append(hs + (self._handlers[-1] if self._handlers and not _catches_all(st) else []))
            body_out = self._seq(st.body, {t})
            self._handlers.pop()
            else_out = self._seq(st.orelse, body_out) if st.orelse else body_out
            outs = set(else_out)
            for h, hn in zip(st.handlers, hs):
                if self._handlers:
                    for oh in self._handlers[-1]:
                        self._edge(hn, oh)
                outs |= self._seq(h.body, {hn})
            if st.finalbody:
                # finally runs on every way out; model normal continuation only,
                # plus an abnormal edge from the try header (exception passing through)
                fin_out = self._seq(st.finalbody, outs | {t})
                return fin_out
            return outs
        if isinstance(st, ast.Return):
            n = self._new(st, "return")
            for p in preds:
                self._edge(p, n)
            self._edge(n, 1)
            return set()
        if isinstance(st, ast.Raise):
            n = self._new(st, "raise")
            for p in preds:
                self._edge(p, n)
            if not self._handlers or not self._handlers[-1]:
                self._edge(n, 2)
            else:
                # may also escape if no handler matches
                self._edge(n, 2)
            return set()
        if isinstance(st, ast.Break):
            n = self._new(st, "break")
            for p in preds:
                self._edge(p, n)
            if self._loops:
                self._loops[-1][1].append(n)
            return set()
        if isinstance(st, ast.Continue):
            n = self._new(st, "continue")
            for p in preds:
                self._edge(p, n)
            if self._loops:
                self._edge(n, self._loops[-1][0])
            return set()
        if st.__class__.__name__ == "Match":
            n = self._new(st, "match")
            for p in preds:
                self._edge(p, n)
            outs = {n}
            for case in st.cases:
                outs |= self._seq(case.body, {n})
            return outs
        n = self._new(st, "assert" if isinstance(st, ast.Assert) else "stmt")
        for p in preds:
            self._edge(p, n)
        return {n}

    # -- queries -------------------------------------------------------------
    def nodes(self):
        return list(self.stmt)

    def id_of(self, node):
        """CFG node of an ast statement (or the statement enclosing an expression)."""
        cur = node
        while cur is not None:
            i = self.node_of.get(id(cur))
            if i is not None:
                return i
            cur = getattr(cur, "_parent", None)
            if cur is self.func:
                break
        return None

    def _compute_dom(self, succ, pred, root):
        nodes = self._reach(root, succ)
        dom = {n: set(nodes) for n in nodes}
        dom[root] = {root}
        changed = True
        order = list(nodes)
        while changed:
            changed = False
            for n in order:
                if n == root:
                    continue
                ps = [p for p in pred[n] if p in nodes]
                if ps:
                    new = set.intersection(*(dom[p] for p in ps)) | {n}
                else:
                    new = {n}
                if new != dom[n]:
                    dom[n] = new
                    changed = True
        return dom

    @staticmethod
    def _reach(root, succ):
        seen = {root}
        st = [root]
        while st:
            x = st.pop()
            for y in succ[x]:
                if y not in seen:
                    seen.add(y)
                    st.append(y)
        return seen

    def dominators(self):
        if self._dom is None:
            self._dom = self._compute_dom(self.succ, self.pred, 0)
        return self._dom

    def dominates(self, a, b):
        """Every path entry->b passes a."""
        d = self.dominators()
        return b in d and a in d[b]

    def reachable(self, a, b):
        return b in self._reach(a, self.succ)

    def reachable_nodes(self, a):
        return self._reach(a, self.succ)

    def post_dominates_exit(self, a, exits=(1,)):
        """Every path entry -> one of ``exits`` passes node a (a must-pass-through check)."""
        # remove a and see if an exit is still reachable
        seen = {0}
        st = [0]
        if a == 0:
            return True
        while st:
            x = st.pop()
            for y in self.succ[x]:
                if y == a or y in seen:
                    continue
                seen.add(y)
                st.append(y)
        return not any(e in seen for e in exits)

    def paths_avoiding(self, src, dst, avoid):
        """Is dst reachable from src without passing any node in avoid?"""
        avoid = set(avoid)
        if src in avoid:
            return False
        seen = {src}
        st = [src]
        while st:
            x = st.pop()
            for y in self.succ[x]:
                if y in avoid or y in seen:
                    continue
                if y == dst:
                    return True
                seen.add(y)
                st.append(y)
        return dst == src

    def returns(self):
        return [i for i, k in self.kind.items() if k == "return"]

    def raises(self):
        return [i for i, k in self.kind.items() if k == "raise"]


def _catches_all(trynode):
    for h in trynode.handlers:
        if h.type is None:
            return True
        if isinstance(h.type, ast.Name) and h.type.id in ("BaseException",):
            return True
    return False


def guard_conditions(node, stop=None):
    """List of (test_expr, polarity) for enclosing ``if``/``elif``/ternary/while
    conditions on the way from ``node`` up to the enclosing function (or ``stop``)."""
    out = []
    cur = node
    p = getattr(cur, "_parent", None)
    while p is not None and p is not stop and not isinstance(p, (ast.FunctionDef, ast.AsyncFunctionDef, ast.Lambda)):
        if isinstance(p, ast.If):
            if _in(cur, p.body):
                out.append((p.test, True))
            elif _in(cur, p.orelse):
                out.append((p.test, False))
        elif isinstance(p, ast.IfExp):
            if cur is p.body:
                out.append((p.test, True))
            elif cur is p.orelse:
                out.append((p.test, False))
        elif isinstance(p, ast.While):
            if _in(cur, p.body):
                out.append((p.test, True))
        cur = p
        p = getattr(cur, "_parent", None)
    return out


def _in(node, lst):
    return any(node is x for x in lst)


def _atoms(test, pol, out, nodes=False):
    """decompose a condition known to be ``pol`` into atomic (text, polarity) facts (``nodes``: (ast node, polarity))"""
    from .core import norm

    while isinstance(test, ast.UnaryOp) and isinstance(test.op, ast.Not):
        test, pol = test.operand, not pol
    if isinstance(test, ast.BoolOp):
        if isinstance(test.op, ast.And) and pol or isinstance(test.op, ast.Or) and not pol:
            for v in test.values:
                _atoms(v, pol, out, nodes)
            return
    if isinstance(test, ast.Compare) and len(test.ops) == 1:
        flip = {ast.NotEq: ast.Eq, ast.IsNot: ast.Is, ast.NotIn: ast.In}
        for neg, posop in flip.items():
            if isinstance(test.ops[0], neg):
                test = ast.Compare(left=test.left, ops=[posop()], comparators=test.comparators)
                pol = not pol
                break
    if nodes:
        out.append((test, pol))
    else:
        out.add((norm(test), pol))


def implied_atoms(g: "CFG", node):
    """as implied_conditions, but the atoms are returned as (ast expression, polarity) so that callers can fold constants"""
    return implied_conditions(g, node, nodes=True)


def upper_bound(atoms, var, fold):
    """largest integer value of the expression spelled ``var`` that the atomic facts admit (None when unbounded)"""
    from .core import norm

    best = None
    for t, pol in atoms:
        if not (isinstance(t, ast.Compare) and len(t.ops) == 1):
            continue
        a, op, b = t.left, t.ops[0], t.comparators[0]
        if norm(b) == var:  # K > x  ==  x < K
            swap = {ast.Lt: ast.Gt, ast.LtE: ast.GtE, ast.Gt: ast.Lt, ast.GtE: ast.LtE}
            if type(op) not in swap:
                continue
            a, op, b = b, swap[type(op)](), a
        if norm(a) != var:
            continue
        k = fold(b)
        if not isinstance(k, int):
            continue
        hi = None
        if pol and isinstance(op, ast.Lt):
            hi = k - 1
        elif pol and isinstance(op, ast.LtE):
            hi = k
        elif not pol and isinstance(op, ast.GtE):
            hi = k - 1
        elif not pol and isinstance(op, ast.Gt):
            hi = k
        if hi is not None:
            best = hi if best is None else min(best, hi)
    return best


def implied_conditions(g: "CFG", node, nodes=False):
    """Atomic conditions that hold on EVERY path from the entry to ``node`` (an ast statement or expression inside one),
    derived from the if statements that dominate it: an arm that cannot reach the node (because it always returns /
    raises / continues) makes the opposite polarity hold.  `if a and b:` true contributes a and b; `if a or b:` false
    contributes not a and not b; `!=`/`is not`/`not in`/`not` are normalised.  Restructuring between nested ifs, guard
    clauses and early returns does not change the result."""
    nid = g.id_of(node)
    out = [] if nodes else set()
    if nid is None:
        return out
    for i, st in g.stmt.items():
        if not isinstance(st, ast.If) or i == nid or not g.dominates(i, nid):
            continue
        # entries of the two arms
        def first(stmts):
            for s in stmts:
                k = g.node_of.get(id(s))
                if k is not None:
                    return k
            return None

        t_entry = first(st.body)
        f_entry = first(st.orelse) if st.orelse else None
        reach_t = t_entry is not None and (t_entry == nid or nid in g.reachable_nodes(t_entry))
        if f_entry is not None:
            reach_f = f_entry == nid or nid in g.reachable_nodes(f_entry)
        else:
            # no else: the false edge goes to whatever follows the if; the node is reachable that way unless it sits
            # inside the true arm and nothing loops back
            succs = [s for s in g.succ[i] if s != t_entry]
            reach_f = any(s == nid or nid in g.reachable_nodes(s) for s in succs)
        # loops can make both arms "reach" the node through the back edge; only use the fact when exactly one arm reaches it
        # without passing through the if again
        def reach_avoiding(entry):
            if entry is None:
                return False
            return entry == nid or g.paths_avoiding(entry, nid, {i})

        rt = reach_avoiding(t_entry)
        if f_entry is not None:
            rf = reach_avoiding(f_entry)
        else:
            rf = any(s == nid or g.paths_avoiding(s, nid, {i}) for s in g.succ[i] if s != t_entry)
        if rt and not rf:
            _atoms(st.test, True, out, nodes)
        elif rf and not rt:
            _atoms(st.test, False, out, nodes)
    return out


def flag_state(atoms, flag):
    """From atomic facts, whether the bit named ``flag`` is known set (True) or clear (False) in an `x & flag` test:
    `x & F` / `(x & F) != 0` / `(x & F) == F` true  -> set;  `(x & F) == 0` true or `x & F` false -> clear."""
    import re

    for text, pol in atoms:
        if flag not in text or "&" not in text:
            continue
        t = text.replace("(", "").replace(")", "")
        m = re.fullmatch(r"(.+) & (\w+)( == (\w+))?", t)
        if not m:
            m2 = re.fullmatch(r"(\w+) & (.+?)( == (\w+))?", t)
            if not m2 or m2.group(1) != flag:
                continue
            rhs = m2.group(4)
        else:
            if m.group(2) != flag:
                continue
            rhs = m.group(4)
        if rhs is None or rhs == flag:
            return pol
        if rhs == "0":
            return not pol
    return None

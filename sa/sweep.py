"""Sensitivity sweep (thorough tier): every rule instance that the self-test knows how to
break is broken on a scratch copy of the current source and the quick check is re-run on
it; a rule that stays silent on its own canonical break is reported INSENSITIVE (analysis
error).  Benign refactors must stay silent.  Nothing of the analysed repository is executed:
the sweep only edits source text and re-parses it."""

from __future__ import annotations

import json
import os
import sys
from concurrent.futures import ProcessPoolExecutor

VERIF = os.path.dirname(os.path.dirname(os.path.abspath(__file__)))


def run(ctx, prop, repo_root):
    sys.path.insert(0, os.path.join(VERIF, "selftest"))
    import run as harness  # selftest/run.py
    from variants import VARIANTS

    harness.REPO = repo_root
    vs = [dict(v, props=[prop]) for v in VARIANTS if prop in v["props"]]
    # seeded defects that this property's check is expected to catch
    exp_file = os.path.join(VERIF, "seeded", "EXPECT.json")
    if os.path.exists(exp_file):
        exp = json.load(open(exp_file))
        for sid, e in sorted(exp.items()):
            if prop in e.get("caught_by", {}):
                vs.append({"name": "seeded-" + sid, "props": [prop], "patch": f"seeded/{sid}/patch.diff", "rule": e["caught_by"][prop], "expect": 1})
    # behaviour-preserving refactorings written for this property (seeded/refactorings/<prop>-R*): must stay silent
    import glob

    for pd in sorted(glob.glob(os.path.join(VERIF, "seeded", "refactorings", prop + "-R*", "patch.diff"))):
        name = os.path.basename(os.path.dirname(pd))
        vs.append({"name": "refactoring-" + name, "props": [prop], "patch": os.path.relpath(pd, VERIF), "rule": None, "expect": 0})
    ctx.rule("SWEEP", "sensitivity: each canonical break of a rule instance (source variant on a scratch copy) makes the check fire with that rule; benign refactors stay silent", floor=3)
    tested = fired = silent_ok = skipped = 0
    results = []
    with ProcessPoolExecutor(min(16, os.cpu_count() or 4)) as ex:
        for v, verdict, out in ex.map(harness.run_variant, vs):
            if verdict == "SETUP-FAIL":
                skipped += 1
                results.append({"variant": v["name"], "verdict": "skipped: anchor text of the variant no longer matches the tree"})
                continue
            tested += 1
            ok = verdict == "OK"
            if ok and v.get("expect", 1) == 1:
                fired += 1
            elif ok:
                silent_ok += 1
            ctx.ob("SWEEP", "selftest/variants.py:" + v["name"], f"{'break' if v.get('expect', 1) == 1 else 'benign'} variant -> {verdict} (rule {v.get('rule')})", ok, "" if ok else ("INSENSITIVE: the rule did not fire on its canonical break" if v.get("expect", 1) == 1 else "false alarm on a behaviour-preserving edit"))
            results.append({"variant": v["name"], "verdict": verdict})
    ctx.info["sensitivity"] = {"tested": tested, "fired": fired, "benign_silent": silent_ok, "skipped": skipped, "results": results}
    # an insensitive rule is an analysis error, not a violation of the property
    bad = [o for o in ctx.obs if o.rule == "SWEEP" and not o.ok]
    for o in bad:
        ctx.error(f"sweep: {o.where} {o.construct} :: {o.detail}")
        o.ok = True  # reported as analysis error (exit 2), never as a property violation

"""Claim table: which properties are claimed, what is decided, and the N/A list."""

CLAIMS = {
    "C20": {
        "decides": "inventory and argument provenance of every code-evaluating sink (eval/exec/compile/dynamic import/process spawn); safeEval bound to ast.literal_eval in every using module; no document-controlled text reaches a filesystem-write path without a sanitiser; save methods open the destination only after compiling; on the file-open path every unpack of file bytes is dominated by a length test raising TTLibError, no asserts on file data, decompressor errors converted; decompile-error fallback keeps the same raw bytes in a DefaultTable whose compile returns them verbatim; XML parsers enable no entity features.",
        "design_ref": "DESIGN.md §3.5, §4 C20",
        "note": "Trusted: CPython ast; the checker's resolver/CFG/slicer; audited sink tables in sa/rules/safety.py. Not decided: behaviour at every truncation length, exception types inside table decompilers.",
        "technique": "static analysis: sink inventory + backward-slice provenance (taint), CFG dominance / must-pass-through, who-may-call audit tables",
    },
}

CLAIMS["C15"] = {
    "decides": "interval (+known trailing-zero bits) abstract interpretation of the variable-length integer codecs: every value class of the CFF/T1/T2 integer encoders, uint32var and 255UInt16 writers lands in exactly one reader class, the reader consumes the emitted width and its image contains the writer's class, and the classes cover the domain; constant relations that make the loop codecs inverse (UIntBase128, packed point numbers, packed deltas: flag/mask disjointness, chunk = mask+1, typecode per flag, value guard = typecode range); literal code tables injective and their inverses derived from the same table; scale/constant agreement of fixed-point helpers, eexec, timestamps, sstruct, tag<->identifier mangling.",
    "design_ref": "DESIGN.md §3.1 F5/F6, §3.6 F22, §4 C15",
    "note": "Trusted: CPython ast; sa/absint.py transfer functions (interval over +,-,*,<<,>>,&,| by constants, struct pack/unpack byte images); constant folder. Not decided: encodeFloat decimal formatting, shortest-representation minimality, eexec over all byte strings, behaviour inside a class away from the analysed expressions.",
    "technique": "static analysis: interval abstract interpretation of writer/reader pairs, constant-relation checks, literal-table injectivity, sibling normal-form comparison",
}

CLAIMS["C16"] = {
    "decides": "no iteration over an inferred unordered container (sets, set algebra, dict-view algebra, set-typed attributes) feeds an order-sensitive consumer outside an audited table whose reasons are re-checked; inventory of clock/environment/cwd/random/mtime reads equals the audited table and the clock is read in compile paths only under recalcTimestamp with SOURCE_DATE_EPOCH honoured first; every attribute stored on self by compile/preWrite/toXML/write methods is audited, temporary fields are restored on all exits; compile/dump code branches on lazy/isLoaded only at audited sites and pass-through returns reader bytes; subtable interning and gathering iterate ordered sequences.",
    "design_ref": "DESIGN.md §3.4 F11-F13, §4 C16",
    "note": "Trusted: set-type inference is name/attribute based and flow-insensitive (sets reaching a site through untyped parameters are not seen); audit tables in sa/rules/determinism.py. Not decided: byte equality across processes, float formatting stability.",
    "technique": "static analysis: type inference for unordered containers + consumer classification, ambient-input inventory, effect (self-store) audit, CFG dominance for guards and restores",
}

CLAIMS["C07"] = {
    "decides": "schema-driven exhaustiveness of the subsetter: every table that stores per-glyph data (reaches GlyphID/Coverage/ClassDef/AAT lookup/glyph-indexed maps in otData, or uses the glyph-order API) has a subset_glyphs handler or is dropped, and none is exempted through the no-subset list; every GSUB/GPOS lookup class has its closure/subset/lookup-renumbering handlers; the glyph order is switched only after all tables were subset and the gid map derives from the same order-preserving list; var-index maps returned by the store are applied (GDEF and GPOS paired); no set-order reaches numbering in subset/.",
    "design_ref": "DESIGN.md §3.3 F20, §3.6 F19, §4 C07",
    "note": "Trusted: otData schema loader, decorator-injection model (_add_method), frozen fallthrough table in sa/rules/exhaust.py. Not decided: closure correctness, class renumbering arithmetic, CFF subroutine pruning.",
    "technique": "static analysis: schema reachability vs. handler registry (exhaustiveness), CFG post-dominance, result-use (must-use) check",
}
CLAIMS["C08"] = {
    "decides": "every table that carries variation data per the otData schema (VarStore/MultiVarStore/VarIndex) or by definition (gvar, cvar, CFF2, avar, fvar, STAT) is dispatched to an instancing handler under a presence test, each handler has a path deleting the table/store when nothing varies; orchestration order (variation tables before fvar, limits normalised before mutation, avar before fvar, fvar/STAT on all paths, fvar deleted only when all axes pinned); store-optimisation index maps are applied and GDEF/GPOS remaps paired.",
    "design_ref": "DESIGN.md §3.3 F20, §4 C08",
    "note": "Trusted: schema loader, handler table in sa/rules/exhaust.py. Not decided: tent rebasing, delta scaling/rounding, IUP.",
    "technique": "static analysis: schema reachability vs. dispatcher (exhaustiveness), CFG dominance/reachability between calls, must-use of returned maps",
}
CLAIMS["C17"] = {
    "decides": "reorderGlyphs: every rule's attribute strings resolve in the schema for its (class, format); a rule re-sorting a Coverage names every array the OpenType spec indexes by that coverage (frozen 30-row spec table cross-checked against the schema: every schema (class, format) with a Coverage is classified); glyph-keyed record arrays are re-sorted; every table reaching ruled classes is a coverage container; decode-all and loaded check dominate the order switch; CFF charset/charStrings rebuilt in the new order; reverse map invalidated. scaleUpem: registered attributes exist; fields of head/hhea/vhea/OS2/post/VORG are registered or frozen non-unit; every otData field whose description says design units is registered; only FontMatrix is divided; vsindex skipped; VARC delta walk follows VAR_TRANSFORM_MAPPING.",
    "design_ref": "DESIGN.md §3.3 F20, §4 C17",
    "note": "Trusted: schema loader; frozen spec tables COVERAGE_PARALLEL / NON_UNIT_FIELDS (OpenType spec provenance). Not decided: rounding, HarfBuzz-observable equality. A missing reorder rule (unsorted coverage) is not armed because Coverage.preWrite compiles unsorted coverages consistently.",
    "technique": "static analysis: registry strings resolved against the otData schema, spec-table completeness, CFG dominance",
}

CLAIMS["C01"] = {
    "decides": "reader/writer API conformance of every converter and table method (no call to a non-existent OTTableReader/Writer method); otData schema well-formedness (types resolve, repeats/aux refer to earlier fields, format variants aligned); converter pairs (read/write primitive kinds, staticSize, fixed-point triples, offset widths, bit-layout siblings); per-class struct/sstruct layout equality of encode and decode sides for the 49 classes confirmed equal; every table class takes compile and decompile (and toXML/fromXML) from the same class; decoders store no one-shot iterators or str/bytes mixtures and build the same container types as fromXML; WOFF stored/compressed discriminator agrees; only audited glyph-id sorts in preWrite; pass-through of unloaded tables and DefaultTable byte identity.",
    "design_ref": "DESIGN.md §3.1 F1-F3, F26, F29/F30, §4 C01",
    "note": "Trusted: resolver/MRO model, schema loader, frozen F1_EQUAL instance list and audit tables in sa/rules/tables.py and otl.py. Not decided: any wrong value computed inside a well-formed pair; idempotence over all fonts.",
    "technique": "static analysis: sibling agreement of encoder/decoder (layout signatures, primitive kinds), schema well-formedness, API-conformance lint over resolved receiver types, coarse type inference of stored values",
}
CLAIMS["C02"] = {
    "decides": "field-level agreement of sibling encoders/decoders in the anchored modules: per-class struct/sstruct layout equality (armed instances), converter primitive pairs and bit layouts, schema keys used by preWrite/postRead, packed point/delta run constants, and for glyf components the flag-to-layout map of compile vs decompile, narrow-layout guards equal to struct code ranges, and identical transform-form tests in compile and toXML; shared header formats (head, hhea, vhea, maxp, post, OS/2, name record, fvar, gvar header, glyph header) against a frozen OpenType layout table.",
    "design_ref": "DESIGN.md §3.1 F1, F2, F4, §4 C02",
    "note": "Trusted: as C01. Not decided: format-choice thresholds (cmap 4 segmentation, Coverage 1 vs 2, hmtx trimming, loca short/long), independent-reader equivalence.",
    "technique": "static analysis: sibling agreement of encoder/decoder, flag-conditioned layout maps from path conditions, interval checks of guards against struct code ranges",
}
CLAIMS["C06"] = {
    "decides": "offset packers do not mask values, truncating packers raise (not assert) on out-of-range offsets, the 16-bit arm converts struct.error to the overflow error and unknown sizes raise; the overflow handler retries only after a successful fix-up, otherwise changes state or re-raises and gives up on a repeated record; extension promotion wraps every subtable; splitters divide sequences by complementary slices/filters with the old half kept first, move dict entries atomically and recompute counts; the split registry matches lookupTypes; de-duplication compares and hashes the same content.",
    "design_ref": "DESIGN.md §3.6 F23, §4 C06",
    "note": "Trusted: CFG/guard extraction; lookupTypes loader. Not decided: that deduplicated or reordered object graphs decode identically; GPOS compact() regrouping (value level).",
    "technique": "static analysis: effect/shape rules on packers, handler path analysis, conservation rules (complementary slices and filters) on splitters, registry-vs-schema agreement",
}

CLAIMS["C03"] = {
    "decides": "TTX vocabulary agreement: every XML attribute a reader requires unconditionally is emitted by a writer of the same (or an imported sibling) module, and in modules with literal element names every element the reader dispatches on is emitted; every data parameter of XMLWriter reaches the stream through an escaper (CDATA split at ']]>'), escape covers & < > with '&' first and escapeattr the quote, nothing else writes the stream raw; fixed-point precision agrees between toXML, fromXML and the binary codec per class; split-dump src= handling mirrors between writer and reader; converter xmlRead/xmlWrite pairing; glyf component form tests agree between compile and toXML; tag<->XML-name mangling.",
    "design_ref": "DESIGN.md §3.2 F7, F8, §4 C03",
    "note": "Trusted: vocabulary extraction idioms listed in sa/rules/xmlvocab.py (keywords, tuple lists, dict literals, sstruct name loops); modules whose writers compute element names are not armed for elements (listed in evidence). Not decided: shortest-representation printing, whitespace normalisation, bitmap dump formats beyond vocabulary.",
    "technique": "static analysis: writer/reader vocabulary extraction and set comparison, backward-slice must-pass-through of escapers, sibling constant agreement",
}
CLAIMS["C04"] = {
    "decides": "cross-table stores made while compiling are covered by the target's dependencies (writer compiled first) and declared read-dependencies stay declared; container literals equal computed struct sizes/field offsets (12/16/44/20, searchRange item 16, checkSumAdjustment at 8..12, fontRevision 4..8, zeroed-window idiom at every head-checksum site); every round-up is (x+3)&~3 with NUL padding and matching offset advance; directory sorted after the count check; entry checksums from the stored bytes; master checksum formula and its WOFF2 twin agree; hhea/vhea recalc mirror; WOFF raw/compressed discriminator; sfnt/WOFF/TTC directory formats against a frozen specification layout table.",
    "design_ref": "DESIGN.md §3.3 F10, §4 C04",
    "note": "Trusted: sstruct parser in sa/fmt.py; alias resolution of ttFont['x'] in compile closures. Not decided: numeric correctness of bbox/maxp/extent recomputation, WOFF2 transform fidelity, TTC sharing results.",
    "technique": "static analysis: effect analysis of compile closures vs. declared dependency order, constant folding of layout formats vs. literals, sibling normal-form comparison",
}

CLAIMS["C11"] = {
    "decides": "three-way agreement of feaLib: every statement class has a printer and either a build hook or an audited reason not to; every builder.X(...) call in ast.py resolves to a Builder method with fitting arity; every ast class the parser constructs exists; no call passes same-named arguments crosswise (prefix/suffix, value1/value2 ...); lookups are kept in an append-only list and numbered by enumeration, feature records come from a sort; the three chain-context subtable builders all reverse the backtrack sequence and glyph-class add_* methods flush pending glyphs before ranges; leading keywords printed by asFea are parser keywords; store-optimisation index maps are applied; no set order reaches numbering in feaLib/otlLib.",
    "design_ref": "DESIGN.md §3.3 F9, §3.6 F21, §4 C11",
    "note": "Trusted: resolver for self./module-level callees; audited NO_BUILD table. Not decided: that a compiled subtable matches what the rule text means (needs a shaper).",
    "technique": "static analysis: registry/dispatch exhaustiveness across three modules, signature conformance of resolved calls, argument-name cross-check, sibling agreement",
}

CLAIMS["C13"] = {
    "decides": "the only value-returning exits of curve_to_quadratic, curves_to_quadratic, cubic_approx_spline, quadratic_to_curves/spline_to_curves are guarded by a successful acceptance test evaluated with the caller's tolerance (never rebound, no arithmetic), rejection returns None / skips the candidate, exhaustion raises ApproxNotFoundError, a rejection in the multi-curve search re-validates every curve with the new n, each curve is tested against the tolerance of the same index, returned splines start/end at the cubic's end points; parallel glyph/tolerance lists are re-indexed alike; no duplicated or one-coordinate-only conjunct in pen/curve code.",
    "design_ref": "DESIGN.md §3.6 F25, §4 C13",
    "note": "Decides 'nothing is returned unaccepted', not 'accepted means within tolerance' (the error bound itself is arithmetic). Trusted: CFG/guard extraction.",
    "technique": "static analysis: CFG dominance of acceptance guards over returns, provenance of the tolerance argument, parallel-index agreement, duplicate-operand lint",
}

CLAIMS["C12"] = {
    "decides": "Type 2 / Type 1 operator tables are injective with inverses built from the same item; every operator has a handler on the drawing extractor; the generalizer covers every path operator and pass 6 leaves only real operators; operand widths agree between extractor, generalizer and the Type 2 spec; the stack limit flows consistently (513 / 48 / callers / merge guard / blend guard / CFF2->CFF threshold / depth sampled after push); point-removing rewrites are dominated by `not preserveTopology` and lineto merging is only the alternating h/v form; desubroutinize clears every Private's subrs and the global subrs, remove_hints prunes subroutines; integer operand codecs agree (shared with C15).",
    "design_ref": "DESIGN.md §3.3 F9, §3.6 F24, §4 C12",
    "note": "Trusted: constant folder for the operator tables; guard extraction. Not decided: that peephole rewrites preserve the path (needs execution).",
    "technique": "static analysis: dispatch exhaustiveness over literal operator tables, constant flow of the stack limit, guard dominance for topology-changing statements",
}

CLAIMS["C19"] = {
    "decides": "designspace writer/reader vocabulary agreement in both directions (elements and attributes, apart from audited ones); GLIF and plist element/attribute/type-dispatch agreement; file-name safety constants in both filename modules (single-character entries covering separators, NUL, controls, quote, Windows punctuation; 255 limit; reserved device names); userNameToFileName/handleClash1/2 return only names tested absent from `existing` or raise, clip with prefix and suffix; every caller seeds and updates `existing` lower-cased; continuous axis inverse table built from the validated map swapped and sorted by design value, discrete maps mirror, design-location defaults pass through map_forward; fontinfo version maps injective and derived.",
    "design_ref": "DESIGN.md §3.2 F7, §3.6 F22/F25/F28, §4 C19",
    "note": "Trusted: etree vocabulary extraction idioms in sa/rules/design.py; frozen MUST set of illegal characters. Not decided: number formatting round trips, nested lib equality, behaviour on non-monotone maps.",
    "technique": "static analysis: writer/reader vocabulary set comparison, constant folding of safety tables, guard dominance over returns, caller discipline (who-must-update) check",
}

CLAIMS["C10"] = {
    "decides": "narrow wiring/registry clauses only: MVAR value tags map to the fields the OpenType registry assigns and those fields exist; every _add_*/_merge_* table builder is reached from build() under the exclude entry of the table it writes and receives the model together with the master list; the model is built from ds.normalized_master_locs in source order; design-location defaults pass through the axis map; store-optimisation index maps are applied with GDEF/GPOS paired; no set order reaches numbering in varLib.",
    "design_ref": "DESIGN.md §4 C10",
    "note": "Decides registry and wiring clauses, not delta values, rounding budgets, GPOS value merging or CFF2 blend merging. Trusted: frozen 28-row MVAR registry (OpenType spec).",
    "technique": "static analysis: registry vs. frozen specification table and struct formats, call-graph reachability with guard agreement, slice provenance of the model's master order",
}

_PENDING = "check not built yet in this round (planned structural clauses in DESIGN.md §4); not claimed until its check exists"
NOT_APPLICABLE = {
    "C05": "numeric equality of outlines/advances with independent rasterisers at every location: runtime values only; no structural clause that is a necessary condition and survives refactoring (DESIGN §4 C05)",
    "C09": "exact rational identities of variation arithmetic over all master sets/tents/contours: value-level, needs execution or a solver, outside the static-analysis family (DESIGN §4 C09)",
    "C14": "geometric equality through pen adapters over all call sequences: adapters may legally buffer/merge/re-emit calls, so no forwarding-shape rule is both necessary and refactoring-stable (DESIGN §4 C14)",
    "C18": "rendering equivalence of merged fonts: only weak structural facts (first-writer-wins cmap guard) exist, not enough for a necessary-condition clause (DESIGN §4 C18)",
}
for _p in ():
    NOT_APPLICABLE[_p] = _PENDING

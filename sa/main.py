"""CLI: ./check <ID> [--tier quick|thorough] [--repo DIR] [--replay FILE]"""
import os
import sys
import time
import traceback

HERE = os.path.dirname(os.path.abspath(__file__))
sys.path.insert(0, os.path.dirname(HERE))


def main(argv):
    import argparse

    ap = argparse.ArgumentParser()
    ap.add_argument("prop")
    ap.add_argument("--tier", default=os.environ.get("VERIF_TIER", "quick"), choices=["quick", "thorough"])
    ap.add_argument("--repo", default=os.environ.get("VERIF_REPO", "/repo"))
    ap.add_argument("--replay", default=None)
    args = ap.parse_args(argv)
    try:
        seed = int(os.environ.get("VERIF_SEED", "0"))
    except ValueError:
        seed = 0
    from sa import core, report, props

    if args.replay:
        import json

        with open(args.replay) as f:
            rp = json.load(f)
        print("replaying (re-running the static check on the current tree); recorded violations were:")
        for v in rp.get("violations", []):
            print("  ", v["rule"], v["where"], "::", v["construct"])
    try:
        if args.prop not in props.PROPS:
            print(f"ANALYSIS-ERROR property={args.prop} unknown or not claimed (see MANIFEST not_applicable)")
            return 2
        repo = core.Repo(args.repo)
        ctx = report.Ctx(args.prop, args.tier, seed, repo)
        fns = list(props.PROPS[args.prop])
        if args.tier == "thorough":
            fns += props.THOROUGH_EXTRA.get(args.prop, [])
        for fn in fns:
            try:
                fn(ctx, repo)
            except core.AnalysisError as e:
                ctx.error(f"{fn.__module__}.{fn.__name__}: {e}")
        if args.tier == "thorough" and not ctx.unmatched_violations() and os.environ.get("VERIF_NO_SWEEP") != "1":
            from sa import sweep

            sweep.run(ctx, args.prop, args.repo)
        return ctx.finish()
    except core.AnalysisError as e:
        print(f"ANALYSIS-ERROR property={args.prop} {e}")
        return 2
    except Exception:
        traceback.print_exc()
        print(f"ANALYSIS-ERROR property={args.prop} internal error in checker (traceback above)")
        return 2


if __name__ == "__main__":
    sys.exit(main(sys.argv[1:]))

"""Interval (+ trailing-zero-bits) abstract interpretation of small integer
codec functions.  No code of the analysed repository is executed: the AST of a
straight-line/if-chain function is evaluated over intervals.
"""

from __future__ import annotations

import ast

from .consteval import try_fold
from .fmt import code_range, code_size

INF = float("inf")


class Top(Exception):
    """The expression is outside the supported fragment."""


class Iv:
    __slots__ = ("lo", "hi", "tz")

    def __init__(self, lo, hi=None, tz=0):
        if hi is None:
            hi = lo
        self.lo, self.hi = lo, hi
        if lo == hi and isinstance(lo, int):
            tz = _tz(lo)
        self.tz = tz

    @property
    def single(self):
        return self.lo == self.hi

    def within(self, lo, hi):
        return lo <= self.lo and self.hi <= hi

    def __eq__(self, o):
        return isinstance(o, Iv) and (self.lo, self.hi) == (o.lo, o.hi)

    def __hash__(self):
        return hash((self.lo, self.hi))

    def __repr__(self):
        def f(x):
            return hex(x) if isinstance(x, int) and abs(x) > 255 else str(x)

        return f"[{f(self.lo)},{f(self.hi)}]" + (f"/2^{self.tz}" if self.tz and not self.single else "")


def _tz(n):
    if n == 0:
        return 64
    k = 0
    while n % 2 == 0:
        n //= 2
        k += 1
    return k


def _pow2_minus1(m):
    return m >= 0 and (m & (m + 1)) == 0


class Bytes:
    """Abstract byte string: list of Iv per byte (None tail = unknown rest)."""

    def __init__(self, items):
        self.items = list(items)

    def __len__(self):
        return len(self.items)


class DataView:
    """A reader's input cursor: bytes b[off], b[off+1], ... of an abstract input."""

    def __init__(self, src, off=0, index_base=None):
        self.src = src  # list of Iv (abstract input bytes)
        self.off = off

    def byte(self, k):
        i = self.off + k
        if isinstance(i, int) and 0 <= i < len(self.src):
            return self.src[i]
        if isinstance(i, int) and i >= len(self.src):
            raise ShortRead(i)
        raise Top("byte index")


class ShortRead(Exception):
    def __init__(self, i):
        self.index = i


def add(a, b):
    return Iv(a.lo + b.lo, a.hi + b.hi, min(a.tz, b.tz))


def sub(a, b):
    return Iv(a.lo - b.hi, a.hi - b.lo, min(a.tz, b.tz))


def neg(a):
    return Iv(-a.hi, -a.lo, a.tz)


def mul(a, b):
    c = [a.lo * b.lo, a.lo * b.hi, a.hi * b.lo, a.hi * b.hi]
    return Iv(min(c), max(c), a.tz + b.tz if not (a.single and a.lo == 0 or b.single and b.lo == 0) else 64)


def shl(a, b):
    if not b.single or b.lo < 0:
        raise Top("shift")
    return Iv(a.lo << b.lo, a.hi << b.lo, a.tz + b.lo)


def shr(a, b):
    if not b.single or b.lo < 0:
        raise Top("shift")
    return Iv(a.lo >> b.lo, a.hi >> b.lo, max(a.tz - b.lo, 0))


def _max_and(hi, m):
    """max of (v & m) over 0 <= v <= hi (exact)"""
    if hi is None or hi < 0:
        return m
    best = hi & m
    for i in range(hi.bit_length()):
        if hi >> i & 1:
            v = (hi & ~(1 << i)) | ((1 << i) - 1)
            best = max(best, v & m)
    return best


def and_(a, b):
    # mask by constant
    if b.single and a.single:
        return Iv(a.lo & b.lo)
    if a.single and not b.single:
        a, b = b, a
    if b.single:
        m = b.lo
        if m >= 0 and _pow2_minus1(m):
            if a.lo >= 0 and a.hi <= m:
                return Iv(a.lo, a.hi, a.tz)
            if a.lo >= 0 and (a.lo >> m.bit_length()) == (a.hi >> m.bit_length()):
                return Iv(a.lo & m, a.hi & m)
            return Iv(0, m)
        if m >= 0:
            # general mask: result in [0, m], multiples of lowest set bit
            if a.lo >= 0 and a.hi <= (m & -m) - 1:
                return Iv(0)
            # if mask is a single high bit and the interval is on one side of it
            if m & (m - 1) == 0 and a.lo >= 0:
                if a.hi < m:
                    return Iv(0)
                if a.lo >= m and a.hi < 2 * m:
                    return Iv(m)
                return Iv(0, m, _tz(m))
            # contiguous high-bit mask like 0xC0 on a byte
            low = m & -m
            if a.lo >= 0 and (a.lo // low) == (a.hi // low) and a.hi < 2 * (1 << (m.bit_length() - 1)) * 1:
                return Iv(((a.lo // low) * low) & m)
            return Iv(0, _max_and(a.hi, m) if a.lo >= 0 else m, _tz(m))
        if m < 0:
            # clearing low bits:  x & ~3
            k = ~m
            if _pow2_minus1(k):
                return Iv(a.lo & m, a.hi & m, max(a.tz, k.bit_length()))
    raise Top("and")


def or_(a, b):
    if a.single and b.single:
        return Iv(a.lo | b.lo)
    # disjoint bits: a multiple of 2^k, 0 <= b < 2^k  (either order)
    for x, y in ((a, b), (b, a)):
        if y.lo >= 0 and x.lo >= 0 and x.tz > 0 and y.hi < (1 << min(x.tz, 62)):
            return Iv(x.lo + y.lo, x.hi + y.hi, min(x.tz, y.tz))
        # OR with a single constant bit above the range: v | 0x8000 with v < 0x8000
        if y.single and y.lo > 0 and x.lo >= 0 and x.hi < (y.lo & -y.lo):
            return Iv(x.lo + y.lo, x.hi + y.lo, min(x.tz, y.tz))
        # OR with constant whose bits are below/inside an aligned range start
    raise Top("or")


def floordiv(a, b):
    if not b.single or b.lo <= 0:
        raise Top("div")
    return Iv(a.lo // b.lo, a.hi // b.lo)


def mod(a, b):
    if not b.single or b.lo <= 0:
        raise Top("mod")
    if a.lo >= 0 and a.hi < b.lo:
        return Iv(a.lo, a.hi, a.tz)
    return Iv(0, b.lo - 1)


_BIN = {ast.Add: add, ast.Sub: sub, ast.Mult: mul, ast.LShift: shl, ast.RShift: shr, ast.BitAnd: and_, ast.BitOr: or_, ast.FloorDiv: floordiv, ast.Mod: mod}


def cmp_(op, a, b):
    """Three-valued comparison of intervals: True / False / None (indefinite)."""
    if isinstance(op, ast.Lt):
        return True if a.hi < b.lo else False if a.lo >= b.hi else None
    if isinstance(op, ast.LtE):
        return True if a.hi <= b.lo else False if a.lo > b.hi else None
    if isinstance(op, ast.Gt):
        return cmp_(ast.Lt(), b, a)
    if isinstance(op, ast.GtE):
        return cmp_(ast.LtE(), b, a)
    if isinstance(op, ast.Eq):
        if a.single and b.single:
            return a.lo == b.lo
        return False if a.hi < b.lo or b.hi < a.lo else None
    if isinstance(op, ast.NotEq):
        r = cmp_(ast.Eq(), a, b)
        return None if r is None else not r
    raise Top("cmp")


class Evaluator:
    """Evaluate integer expressions over Iv.  ``env`` maps names to Iv / Bytes /
    DataView / python constants (None, bytes).  ``const_env`` is a consteval Env
    for module constants."""

    def __init__(self, env=None, const_env=None, index_var=None, data_var=None):
        self.env = dict(env or {})
        self.const_env = const_env
        self.index_var = index_var  # name of the reader's index variable (treated as offset 0)
        self.data_var = data_var

    def ev(self, e):
        if isinstance(e, ast.Constant):
            if isinstance(e.value, bool):
                return Iv(int(e.value))
            if isinstance(e.value, int):
                return Iv(e.value)
            if isinstance(e.value, bytes):
                return Bytes([Iv(b) for b in e.value])
            if e.value is None:
                return None
            raise Top("const")
        if isinstance(e, ast.Name):
            if e.id in self.env:
                return self.env[e.id]
            if self.const_env is not None:
                v = try_fold(e, self.const_env, default=Top)
                if v is not Top:
                    return self._lift(v)
            raise Top("name " + e.id)
        if isinstance(e, ast.Attribute) and self.const_env is not None:
            v = try_fold(e, self.const_env, default=Top)
            if v is not Top:
                return self._lift(v)
            raise Top("attr")
        if isinstance(e, ast.BinOp):
            a, b = self.ev(e.left), self.ev(e.right)
            if isinstance(a, Bytes) and isinstance(b, Bytes) and isinstance(e.op, ast.Add):
                return Bytes(a.items + b.items)
            if isinstance(e.op, ast.Pow) and isinstance(a, Iv) and isinstance(b, Iv) and a.single and b.single:
                return Iv(a.lo**b.lo)
            f = _BIN.get(type(e.op))
            if f is None or not isinstance(a, Iv) or not isinstance(b, Iv):
                raise Top("binop")
            return f(a, b)
        if isinstance(e, ast.UnaryOp):
            v = self.ev(e.operand)
            if isinstance(e.op, ast.USub):
                return neg(v)
            if isinstance(e.op, ast.UAdd):
                return v
            if isinstance(e.op, ast.Invert) and v.single:
                return Iv(~v.lo)
            if isinstance(e.op, ast.Not):
                t = self.truth(e.operand)
                return None if t is None else Iv(int(not t))
            raise Top("unary")
        if isinstance(e, ast.Subscript):
            return self._subscript(e)
        if isinstance(e, ast.Call):
            return self._call(e)
        if isinstance(e, ast.Tuple):
            return tuple(self.ev(x) for x in e.elts)
        if isinstance(e, ast.IfExp):
            t = self.truth(e.test)
            if t is True:
                return self.ev(e.body)
            if t is False:
                return self.ev(e.orelse)
            raise Top("ifexp")
        raise Top(type(e).__name__)

    def _lift(self, v):
        if isinstance(v, bool):
            return Iv(int(v))
        if isinstance(v, int):
            return Iv(v)
        if isinstance(v, bytes):
            return Bytes([Iv(b) for b in v])
        if v is None:
            return None
        raise Top("lift")

    def _index_offset(self, e):
        """offset of an index expression relative to the reader's index variable: index -> 0, index+2 -> 2"""
        if isinstance(e, ast.Name) and e.id == self.index_var:
            return 0
        if isinstance(e, ast.BinOp) and isinstance(e.op, ast.Add) and isinstance(e.left, ast.Name) and e.left.id == self.index_var and isinstance(e.right, ast.Constant):
            return e.right.value
        if isinstance(e, ast.Constant) and isinstance(e.value, int):
            return e.value
        v = self.ev(e)
        if isinstance(v, Iv) and v.single:
            return v.lo
        raise Top("index")

    def _subscript(self, e):
        base = self.ev(e.value) if not (isinstance(e.value, ast.Name) and e.value.id == self.data_var and self.data_var not in self.env) else None
        if isinstance(base, DataView):
            s = e.slice
            if isinstance(s, ast.Slice):
                lo = self._index_offset(s.lower) if s.lower else 0
                if s.upper is None:
                    return DataView(base.src, base.off + lo)
                hi = self._index_offset(s.upper)
                return Bytes([base.byte(k) for k in range(lo, hi)])
            return base.byte(self._index_offset(s))
        if isinstance(base, Bytes):
            s = e.slice
            if isinstance(s, ast.Slice):
                lo = self._index_offset(s.lower) if s.lower else 0
                hi = self._index_offset(s.upper) if s.upper else None
                return Bytes(base.items[lo:hi])
            k = self._index_offset(s)
            return base.items[k]
        if isinstance(base, tuple):
            k = self.ev(e.slice)
            if isinstance(k, Iv) and k.single:
                return base[k.lo]
        raise Top("subscript")

    def _call(self, e):
        f = e.func
        name = f.id if isinstance(f, ast.Name) else (f.attr if isinstance(f, ast.Attribute) else None)
        full = ast.unparse(f)
        if name in ("bytechr",) and len(e.args) == 1:
            v = self.ev(e.args[0])
            return Bytes([v])
        if name in ("byteord", "ord") and len(e.args) == 1:
            v = self.ev(e.args[0])
            if isinstance(v, Bytes) and len(v) == 1:
                return v.items[0]
            if isinstance(v, Iv):
                return v
            raise Top("byteord")
        if name == "pack" or full in ("struct.pack",):
            fmt = try_fold(e.args[0], self.const_env)
            if not isinstance(fmt, str):
                raise Top("pack fmt")
            return self.pack(fmt, [self.ev(a) for a in e.args[1:]])
        if name == "unpack" or full in ("struct.unpack",):
            fmt = try_fold(e.args[0], self.const_env)
            if not isinstance(fmt, str):
                raise Top("unpack fmt")
            data = self.ev(e.args[1])
            if not isinstance(data, Bytes):
                raise Top("unpack data")
            return self.unpack(fmt, data)
        if name == "len" and len(e.args) == 1:
            v = self.ev(e.args[0])
            if isinstance(v, Bytes):
                return Iv(len(v))
            if isinstance(v, DataView):
                return Iv(len(v.src) - v.off)
            raise Top("len")
        if name in ("int",) and len(e.args) == 1:
            return self.ev(e.args[0])
        raise Top("call " + full)

    @staticmethod
    def pack(fmt, vals):
        codes = [c for c in fmt if c not in "<>=!@ "]
        if len(codes) != len(vals):
            raise Top("pack arity")
        out = []
        for c, v in zip(codes, vals):
            n = code_size(c)
            rng = code_range(c)
            if rng is None or not isinstance(v, Iv):
                raise Top("pack code")
            out.extend(int_bytes(v, n, signed=rng[0] < 0))
        return Bytes(out)

    @staticmethod
    def unpack(fmt, data: Bytes):
        codes = [c for c in fmt if c not in "<>=!@ "]
        pos = 0
        vals = []
        for c in codes:
            n = code_size(c)
            rng = code_range(c)
            bs = data.items[pos : pos + n]
            if len(bs) != n:
                raise ShortRead(pos + n)
            pos += n
            vals.append(bytes_int(bs, signed=rng[0] < 0))
        if pos != len(data.items):
            raise Top("unpack size")
        return tuple(vals)

    def truth(self, t):
        """Three-valued truth of a test expression."""
        if isinstance(t, ast.Compare):
            left = self.ev(t.left)
            res = True
            for op, c in zip(t.ops, t.comparators):
                right = self.ev(c)
                if isinstance(op, (ast.Is, ast.IsNot)):
                    r = (left is None) == (right is None) if (left is None or right is None) else None
                    if isinstance(op, ast.IsNot) and r is not None:
                        r = not r
                else:
                    if left is None or right is None:
                        raise Top("cmp None")
                    r = cmp_(op, left, right)
                if r is False:
                    return False
                if r is None:
                    res = None
                left = right
            return res
        if isinstance(t, ast.BoolOp):
            vals = [self.truth(v) for v in t.values]
            if isinstance(t.op, ast.And):
                if any(v is False for v in vals):
                    return False
                return True if all(v is True for v in vals) else None
            if any(v is True for v in vals):
                return True
            return False if all(v is False for v in vals) else None
        if isinstance(t, ast.UnaryOp) and isinstance(t.op, ast.Not):
            v = self.truth(t.operand)
            return None if v is None else not v
        v = self.ev(t)
        if v is None:
            return False
        if isinstance(v, Iv):
            if v.single:
                return v.lo != 0
            if v.lo > 0 or v.hi < 0:
                return True
            return None
        if isinstance(v, Bytes):
            return len(v) > 0
        raise Top("truth")


def int_bytes(v: Iv, n, signed=False):
    """Abstract big-endian bytes of an integer interval."""
    lo, hi = v.lo, v.hi
    full = Iv(0, 255)
    if signed and lo < 0:
        if hi < 0 or True:
            # two's complement of a range crossing or below zero: bytes unconstrained unless single
            if v.single:
                x = lo & ((1 << (8 * n)) - 1)
                return [Iv((x >> (8 * (n - 1 - k))) & 0xFF) for k in range(n)]
            return [full] * n
    out = []
    for k in range(n):
        s = 8 * (n - 1 - k)
        a, b = lo >> s, hi >> s
        if a == b:
            out.append(Iv(a & 0xFF))
        elif (a >> 8) == (b >> 8):
            out.append(Iv(a & 0xFF, b & 0xFF))
        else:
            out.append(full)
        # once a higher byte is not single, lower bytes are unconstrained
        if a != b:
            out.extend([full] * (n - 1 - k))
            break
    return out


def bytes_int(bs, signed=False):
    """Interval of the big-endian integer formed by abstract bytes."""
    lo = hi = 0
    for b in bs:
        lo = (lo << 8) | b.lo
        hi = (hi << 8) | b.hi
    n = len(bs)
    if signed:
        top = 1 << (8 * n - 1)
        if hi < top:
            return Iv(lo, hi)
        if lo >= top:
            return Iv(lo - 2 * top, hi - 2 * top)
        return Iv(-top, top - 1)
    return Iv(lo, hi)


# ---------------------------------------------------------------------------
# if-chain partitioning of a writer over its input variable
# ---------------------------------------------------------------------------


def split_by_test(ev: Evaluator, test, var, iv: Iv):
    """Split interval ``iv`` of variable ``var`` into (true_parts, false_parts) for ``test``.
    Supports comparisons of var with constants, chained, and/or/not of those, and
    conjuncts that do not mention var (evaluated three-valued in ev.env)."""
    mentions = any(isinstance(n, ast.Name) and n.id == var for n in ast.walk(test))
    if not mentions:
        t = ev.truth(test)
        if t is True:
            return [iv], []
        if t is False:
            return [], [iv]
        raise Top("indefinite side condition " + ast.unparse(test))
    if isinstance(test, ast.BoolOp):
        if isinstance(test.op, ast.And):
            true = [iv]
            false = []
            for v in test.values:
                nt = []
                for part in true:
                    t, f = split_by_test(ev, v, var, part)
                    nt += t
                    false += f
                true = nt
            return true, false
        else:
            false = [iv]
            true = []
            for v in test.values:
                nf = []
                for part in false:
                    t, f = split_by_test(ev, v, var, part)
                    true += t
                    nf += f
                false = nf
            return true, false
    if isinstance(test, ast.UnaryOp) and isinstance(test.op, ast.Not):
        t, f = split_by_test(ev, test.operand, var, iv)
        return f, t
    if isinstance(test, ast.Compare):
        # chain: c1 op v op c2 ... treat as conjunction of binary comparisons
        items = [test.left] + list(test.comparators)
        true = [iv]
        false = []
        for (l, op, r) in zip(items, test.ops, items[1:]):
            nt = []
            for part in true:
                t, f = _split_cmp(ev, l, op, r, var, part)
                nt += t
                false += f
            true = nt
        return true, false
    raise Top("test shape " + ast.unparse(test))


def _split_cmp(ev, l, op, r, var, iv):
    lv = isinstance(l, ast.Name) and l.id == var
    rv = isinstance(r, ast.Name) and r.id == var
    if lv == rv:
        # neither side is the plain variable: maybe a side condition or unsupported
        saved = ev.env.get(var)
        ev.env[var] = iv
        try:
            t = ev.truth(ast.Compare(left=l, ops=[op], comparators=[r]))
        finally:
            if saved is None:
                ev.env.pop(var, None)
            else:
                ev.env[var] = saved
        if t is True:
            return [iv], []
        if t is False:
            return [], [iv]
        raise Top("cannot split on " + ast.unparse(ast.Compare(left=l, ops=[op], comparators=[r])))
    if rv:
        # c op v  ->  v op' c
        flip = {ast.Lt: ast.Gt, ast.LtE: ast.GtE, ast.Gt: ast.Lt, ast.GtE: ast.LtE, ast.Eq: ast.Eq, ast.NotEq: ast.NotEq}
        op = flip[type(op)]()
        l, r = r, l
    c = ev.ev(r)
    if not (isinstance(c, Iv) and c.single):
        raise Top("non-constant bound")
    c = c.lo
    lo, hi = iv.lo, iv.hi

    def mk(a, b):
        return [Iv(a, b)] if a <= b else []

    if isinstance(op, ast.Lt):
        return mk(lo, min(hi, c - 1)), mk(max(lo, c), hi)
    if isinstance(op, ast.LtE):
        return mk(lo, min(hi, c)), mk(max(lo, c + 1), hi)
    if isinstance(op, ast.Gt):
        return mk(max(lo, c + 1), hi), mk(lo, min(hi, c))
    if isinstance(op, ast.GtE):
        return mk(max(lo, c), hi), mk(lo, min(hi, c - 1))
    if isinstance(op, ast.Eq):
        return mk(max(lo, c), min(hi, c)), mk(lo, min(hi, c - 1)) + mk(max(lo, c + 1), hi)
    if isinstance(op, ast.NotEq):
        return mk(lo, min(hi, c - 1)) + mk(max(lo, c + 1), hi), mk(max(lo, c), min(hi, c))
    raise Top("op")


class Path:
    """One path through a straight-line/if function for an interval of the input variable."""

    def __init__(self, iv, env, result, kind, trace):
        self.iv = iv  # interval of the ORIGINAL input variable
        self.env = env
        self.result = result  # returned abstract value (or None)
        self.kind = kind  # 'return' | 'raise' | 'fall'
        self.trace = trace  # list of test texts taken


def run_paths(fnode, var, domain: Iv, env, const_env, index_var=None, data_var=None, result_var=None, max_paths=64):
    """Enumerate the paths of ``fnode`` (no loops) partitioning ``domain`` of ``var``.
    Returns a list of Path.  Rebinding of ``var`` inside a branch is supported (the
    partition is always expressed in terms of the original input)."""
    paths = []

    def exec_block(stmts, iv_in, cur_env, orig_iv, trace):
        """returns list of (cur_env, orig_iv, trace) continuing after the block"""
        states = [(cur_env, orig_iv, trace)]
        for st in stmts:
            nxt = []
            for (e, oiv, tr) in states:
                nxt += exec_stmt(st, e, oiv, tr)
            states = nxt
            if not states:
                break
        return states

    def exec_stmt(st, e, oiv, tr):
        ev = Evaluator(e, const_env, index_var, data_var)
        if isinstance(st, ast.Expr):
            return [(e, oiv, tr)]
        if isinstance(st, ast.Assert):
            return [(e, oiv, tr)]
        if isinstance(st, ast.Return):
            try:
                val = ev.ev(st.value) if st.value is not None else None
            except Top as ex:
                val = ex
            paths.append(Path(oiv, e, val, "return", tr))
            return []
        if isinstance(st, ast.Raise):
            paths.append(Path(oiv, e, None, "raise", tr))
            return []
        if isinstance(st, ast.Assign) and len(st.targets) == 1:
            tgt = st.targets[0]
            try:
                val = ev.ev(st.value)
            except Top as ex:
                val = ex
            ne = dict(e)
            if isinstance(tgt, ast.Name):
                ne[tgt.id] = val
            elif isinstance(tgt, ast.Tuple) and isinstance(val, tuple) and len(val) == len(tgt.elts):
                for t, v in zip(tgt.elts, val):
                    if isinstance(t, ast.Name):
                        ne[t.id] = v
            elif isinstance(tgt, ast.Tuple):
                for t in tgt.elts:
                    if isinstance(t, ast.Name):
                        ne[t.id] = Top("tuple assign")
            return [(ne, oiv, tr)]
        if isinstance(st, ast.AugAssign) and isinstance(st.target, ast.Name):
            ne = dict(e)
            try:
                cur = e.get(st.target.id)
                rhs = ev.ev(st.value)
                f = _BIN[type(st.op)]
                ne[st.target.id] = f(cur, rhs) if isinstance(cur, Iv) else Top("aug")
            except (Top, KeyError) as ex:
                ne[st.target.id] = Top(str(ex))
            return [(ne, oiv, tr)]
        if isinstance(st, ast.If):
            cur = e.get(var) if var is not None else None
            # is the test about the (possibly rebound) input variable, and is var still the original?
            out = []
            try:
                if isinstance(cur, Iv) and cur == oiv and any(isinstance(n, ast.Name) and n.id == var for n in ast.walk(st.test)):
                    tparts, fparts = split_by_test(ev, st.test, var, cur)
                    for p in tparts:
                        ne = dict(e)
                        ne[var] = p
                        out += exec_block(st.body, p, ne, p, tr + [ast.unparse(st.test)])
                    for p in fparts:
                        ne = dict(e)
                        ne[var] = p
                        out += exec_block(st.orelse, p, ne, p, tr + ["not(" + ast.unparse(st.test) + ")"])
                    return out
                t = ev.truth(st.test)
            except ShortRead:
                raise
            except Top as ex:
                t = None
                tr = tr + ["?" + ast.unparse(st.test)]
            if t is True:
                return exec_block(st.body, oiv, e, oiv, tr + [ast.unparse(st.test)])
            if t is False:
                return exec_block(st.orelse, oiv, e, oiv, tr + ["not(" + ast.unparse(st.test) + ")"])
            # indefinite: both branches, marked
            out = exec_block(st.body, oiv, dict(e), oiv, tr + ["INDEFINITE:" + ast.unparse(st.test)])
            out += exec_block(st.orelse, oiv, dict(e), oiv, tr + ["INDEFINITE:not " + ast.unparse(st.test)])
            return out
        if isinstance(st, (ast.For, ast.While)):
            paths.append(Path(oiv, e, Top("loop"), "return", tr + ["LOOP"]))
            return []
        # anything else: ignore (log calls etc.)
        return [(e, oiv, tr)]

    e0 = dict(env)
    if var is not None:
        e0[var] = domain
    rest = exec_block(fnode.body, domain, e0, domain, [])
    for (e, oiv, tr) in rest:
        val = e.get(result_var) if result_var else None
        paths.append(Path(oiv, e, val, "fall", tr))
    if len(paths) > max_paths:
        raise Top("too many paths")
    return paths

"""Static load of ttLib/tables/otData.py into a schema graph (no import)."""

from __future__ import annotations

import ast
import re

from .core import AnalysisError, Repo
from .consteval import fold, Unknown, Env


class Field:
    __slots__ = ("type", "name", "repeat", "aux", "table", "index")

    def __init__(self, type, name, repeat, aux, table, index):
        self.type = type
        self.name = name
        self.repeat = repeat
        self.aux = aux
        self.table = table
        self.index = index

    def __repr__(self):
        return f"<Field {self.table}.{self.name}:{self.type}>"


class Schema:
    def __init__(self, repo: Repo):
        self.repo = repo
        mod = repo.mod("ttLib/tables/otData.py")
        node = mod.assigns.get("otData")
        if not isinstance(node, ast.List):
            raise AnalysisError("otData.py: `otData` is not a list literal")
        self.tables = {}  # full name (with FormatN) -> [Field]
        self.order = []
        self.duplicates = []
        for elt in node.elts:
            if not (isinstance(elt, ast.Tuple) and len(elt.elts) == 2 and isinstance(elt.elts[0], ast.Constant)):
                raise AnalysisError("otData entry is not a (name, [fields]) tuple: " + ast.unparse(elt)[:80])
            name = elt.elts[0].value
            fields = []
            if not isinstance(elt.elts[1], ast.List):
                raise AnalysisError(f"otData entry {name}: field list is not a list literal")
            for i, fs in enumerate(elt.elts[1].elts):
                fields.append(self._field(fs, name, i))
            if name in self.tables:
                self.duplicates.append(name)
            self.tables[name] = fields
            self.order.append(name)
        # converterMapping keys
        cm = repo.mod("ttLib/tables/otConverters.py").assigns.get("converterMapping")
        if not isinstance(cm, ast.Dict):
            raise AnalysisError("otConverters.py: converterMapping is not a dict literal")
        self.converter_map = {}  # type string -> value node
        for k, v in zip(cm.keys, cm.values):
            if isinstance(k, ast.Constant):
                self.converter_map[k.value] = v
        # _equivalents and lookupTypes from otTables.py
        otm = repo.mod("ttLib/tables/otTables.py")
        self.equivalents = {}  # alt name -> base name
        eq = otm.assigns.get("_equivalents")
        if isinstance(eq, ast.Dict):
            for k, v in zip(eq.keys, eq.values):
                try:
                    for alt in fold(v):
                        self.equivalents[alt] = fold(k)
                except Unknown:
                    raise AnalysisError("otTables._equivalents is not a literal")
        else:
            raise AnalysisError("otTables._equivalents not found")
        self.lookup_types = {}  # tag -> {int: class name}
        bc = otm.funcs.get("_buildClasses")
        if bc is None:
            raise AnalysisError("otTables._buildClasses not found")
        for n in ast.walk(bc.node):
            if isinstance(n, ast.Assign) and isinstance(n.targets[0], ast.Name) and n.targets[0].id == "lookupTypes" and isinstance(n.value, ast.Dict):
                for k, v in zip(n.value.keys, n.value.values):
                    if isinstance(v, ast.Dict):
                        self.lookup_types[fold(k)] = {fold(kk): ast.unparse(vv) for kk, vv in zip(v.keys, v.values)}
            elif isinstance(n, ast.Assign) and isinstance(n.targets[0], ast.Subscript) and ast.unparse(n.targets[0].value) == "lookupTypes" and isinstance(n.value, ast.Subscript) and ast.unparse(n.value.value) == "lookupTypes":
                self.lookup_types[fold(n.targets[0].slice)] = ("alias", fold(n.value.slice))
        for k, v in list(self.lookup_types.items()):
            if isinstance(v, tuple):
                self.lookup_types[k] = self.lookup_types[v[1]]
        if "GSUB" not in self.lookup_types or "GPOS" not in self.lookup_types:
            raise AnalysisError("lookupTypes literal not found in otTables._buildClasses")
        # class name -> [(fullname, format or None)]
        self.by_class = {}
        for full in self.order:
            m = re.match(r"^(.*)Format(\d+)$", full)
            if m:
                self.by_class.setdefault(m.group(1), []).append((full, int(m.group(2))))
            else:
                self.by_class.setdefault(full, []).append((full, None))

    def _field(self, fs, table, i):
        if not (isinstance(fs, ast.Call) and getattr(fs.func, "id", None) == "FieldSpec"):
            # legacy tuple form
            if isinstance(fs, ast.Tuple):
                vals = [fold(x) for x in fs.elts]
                vals += [None] * (5 - len(vals))
                return Field(vals[0], vals[1], vals[2], vals[3], table, i)
            raise AnalysisError(f"otData {table}[{i}] is not a FieldSpec call")
        pos = ["type", "name", "repeat", "aux", "description"]
        d = {}
        try:
            for k, a in zip(pos, fs.args):
                d[k] = fold(a)
            for kw in fs.keywords:
                d[kw.arg] = fold(kw.value)
        except Unknown as e:
            raise AnalysisError(f"otData {table}[{i}]: non-literal FieldSpec argument ({e})")
        return Field(d.get("type"), d.get("name"), d.get("repeat"), d.get("aux"), table, i)

    # -- type helpers ------------------------------------------------------
    TEMPLATE_RE = re.compile(r"^(\w+)\((\w+)\)$")

    def type_target(self, f: Field):
        """Return the schema table name a field's type refers to (struct / Offset / OffsetTo(X)), else None."""
        t = f.type
        m = self.TEMPLATE_RE.match(t)
        if m:
            return m.group(2)
        if t in ("struct", "Offset", "LOffset", "Offset24"):
            return self.equivalents.get(f.name, f.name)
        if t in self.converter_map:
            # MortChain / MorxChain / MorxSubtable ...: converter whose table class is the schema table of the same name
            return t if t in self.by_class else None
        return self.equivalents.get(t, t)  # bare table name used as type => Struct of that table

    def formats_of(self, cls):
        return self.by_class.get(cls, [])

    def fields_of_class(self, cls):
        out = []
        for full, fmt in self.formats_of(cls):
            out.extend(self.tables[full])
        return out

    def field_names(self, cls, fmt=None):
        names = set()
        for full, f in self.formats_of(cls):
            if fmt is None or f is None or f == fmt:
                names.update(x.name for x in self.tables[full])
        return names

    def class_names(self):
        return set(self.by_class)

    def successors(self, f: Field, root=None):
        """schema classes a field leads to (type target, or the lookup classes for SubTable-like fields)"""
        if f.name in ("SubTable", "ExtSubTable", "SubStruct"):
            if root in self.lookup_types:
                return sorted(set(self.lookup_types[root].values()))
            out = set()
            for d in self.lookup_types.values():
                out.update(d.values())
            return sorted(out)
        tgt = self.type_target(f)
        if tgt and tgt in self.by_class:
            return [tgt]
        return []

    def reach_fields(self, cls, root=None):
        """all (path, Field) reachable from schema class ``cls`` (cycle-safe)"""
        seen = set()
        out = []

        def go(c, path):
            if c in seen:
                return
            seen.add(c)
            for f in self.fields_of_class(c):
                out.append((path + (f"{f.table}.{f.name}",), f))
                for nxt in self.successors(f, root):
                    go(nxt, path + (f"{f.table}.{f.name}",))

        go(cls, ())
        return out

    def reaches(self, cls, pred, _seen=None):
        """Does class ``cls`` (any format) transitively contain a field satisfying pred(Field)?"""
        seen = _seen if _seen is not None else set()
        if cls in seen:
            return False
        seen.add(cls)
        for f in self.fields_of_class(cls):
            if pred(f):
                return True
            tgt = self.type_target(f)
            if tgt and tgt in self.by_class and self.reaches(tgt, pred, seen):
                return True
            if f.name in ("SubTable", "ExtSubTable", "SubStruct"):
                pass
        return False

    def reach_path(self, cls, pred, _seen=None, _path=()):
        seen = _seen if _seen is not None else set()
        if cls in seen:
            return None
        seen.add(cls)
        for f in self.fields_of_class(cls):
            if pred(f):
                return _path + (f"{f.table}.{f.name}",)
        for f in self.fields_of_class(cls):
            tgt = self.type_target(f)
            if tgt and tgt in self.by_class:
                r = self.reach_path(tgt, pred, seen, _path + (f"{f.table}.{f.name}",))
                if r:
                    return r
        return None


_cache = {}


def load_schema(repo) -> Schema:
    k = id(repo)
    if k not in _cache:
        _cache[k] = Schema(repo)
    return _cache[k]

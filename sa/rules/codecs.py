"""C15 (and parts of C02/C12): F5 CODEC-RANGE, F6 TABLE-INJ, F22 scale/constant agreement."""

from __future__ import annotations

import ast

from ..core import AnalysisError, norm, calls_in, call_name, last_attr, walk_no_nested
from ..consteval import Env, fold, try_fold, Unknown, fold_module_sequence, FuncRef, module_env
from ..absint import Iv, Bytes, DataView, Evaluator, Top, ShortRead, run_paths
from ..fmt import code_range, sstruct_parse
from ..cfg import guard_conditions, CFG, implied_conditions, implied_atoms, upper_bound, flag_state


def _covers(parts, lo, hi):
    """do the intervals in parts cover [lo,hi] without gap?"""
    cur = lo
    for p in sorted(parts, key=lambda p: p.lo):
        if p.lo > cur:
            return False
        cur = max(cur, p.hi + 1)
    return cur > hi


def _bytes_of(val):
    return val if isinstance(val, Bytes) else None


def _reader_eval(ctx, rule, where, rfn, bytes_val: Bytes, env, const_env, index_var, data_names, label, want: Iv, skip_leading=0, value_index=0):
    """Run a reader function over abstract input bytes; returns True if exactly one
    definite path consumes exactly the bytes and its decoded image contains ``want``."""
    try:
        paths = run_paths(rfn.node, None, None, env, const_env, index_var=index_var, data_var=None)
    except ShortRead as ex:
        ctx.ob(rule, where, label, False, f"reader {rfn.qual} reads byte {ex.index} but the writer emitted only {len(bytes_val)} bytes for this range")
        return False
    except Top as ex:
        ctx.ob(rule, where, label, False, f"reader {rfn.qual}: outside the analysable fragment ({ex})")
        return False
    live = [p for p in paths if p.kind in ("return", "fall")]
    indef = [t for p in paths for t in p.trace if t.startswith("INDEFINITE") or t.startswith("?")]
    if indef:
        ctx.ob(rule, where, label, False, f"writer range {want} does not select a single reader branch in {rfn.qual}: {sorted(set(indef))[:2]}")
        return False
    if len(live) != 1:
        ctx.ob(rule, where, label, False, f"reader {rfn.qual} has {len(live)} returning paths for this byte range (raises: {sum(1 for p in paths if p.kind == 'raise')})")
        return False
    return live[0]


# ---------------------------------------------------------------------------
# F5 branch mode: CFF / T1 / T2 integer operands
# ---------------------------------------------------------------------------


def f5_ps_operands(ctx, repo):
    ctx.rule("F5-int", "each value class of getIntEncoder(fmt).encodeInt lands in one class of the fmt operand-decoding table, the reader consumes exactly the emitted width, and the reader's image over the emitted byte ranges contains the writer's guard interval; guards cover the declared int32 domain", floor=12)
    mod = repo.mod("misc/psCharStrings.py")
    cenv = module_env(repo, mod)
    gie = mod.func("getIntEncoder")
    enc = mod.func("getIntEncoder.encodeInt")
    tables = {"cff": "cffDictOperandEncoding", "t1": "t1OperandEncoding", "t2": "t2OperandEncoding"}
    for fmt, tname in tables.items():
        try:
            table = fold_module_sequence(repo, mod, tname)
        except Unknown as ex:
            raise AnalysisError(f"cannot fold {tname}: {ex}")
        if not (isinstance(table, list) and len(table) == 256):
            ctx.ob("F5-int", mod.rel + ":<module>", f"{tname} has 256 entries", False, "table length %r" % (len(table) if isinstance(table, list) else None))
            continue
        # partial evaluation of getIntEncoder for this format
        env = {}
        ev0 = Evaluator({}, Env(repo, mod, {"format": fmt}))
        for st in gie.node.body:
            if isinstance(st, ast.If):
                cur = st
                while True:
                    t = try_fold(cur.test, Env(repo, mod, {"format": fmt}))
                    if t:
                        body = cur.body
                        break
                    if len(cur.orelse) == 1 and isinstance(cur.orelse[0], ast.If):
                        cur = cur.orelse[0]
                        continue
                    body = cur.orelse
                    break
                for s2 in body:
                    if isinstance(s2, ast.Assign) and isinstance(s2.targets[0], ast.Name):
                        try:
                            env[s2.targets[0].id] = ev0.ev(s2.value)
                        except Top:
                            env[s2.targets[0].id] = Top("pe")
        if "twoByteOp" not in env or "fourByteOp" not in env:
            raise AnalysisError("getIntEncoder no longer binds twoByteOp/fourByteOp per format")
        dom = Iv(-(1 << 31), (1 << 31) - 1)
        try:
            paths = run_paths(enc.node, "value", dom, env, cenv)
        except Top as ex:
            raise AnalysisError(f"encodeInt outside analysable fragment: {ex}")
        covered = []
        for p in paths:
            where = f"{mod.rel}:getIntEncoder.encodeInt[{fmt}]"
            label = f"value in {p.iv}"
            if p.kind == "raise":
                continue
            b = _bytes_of(p.result)
            if b is None or len(b) == 0:
                ctx.ob("F5-int", where, label, False, f"emitted code is not a byte string the analysis can follow ({p.result})")
                continue
            covered.append(p.iv)
            lossy = any("fourByteOp is None" in t and not t.startswith("not(") for t in p.trace)
            lead = b.items[0]
            classes = {table[i] for i in range(max(lead.lo, 0), min(lead.hi, 255) + 1)} if lead.lo >= 0 and lead.hi <= 255 else None
            if classes is None or len(classes) != 1:
                ctx.ob("F5-int", where, label, False, f"leading byte range {lead} spans reader classes {sorted(map(repr, classes or []))}")
                continue
            rf = classes.pop()
            if not isinstance(rf, FuncRef):
                ctx.ob("F5-int", where, label, False, f"operand table entry is {rf!r}")
                continue
            rfn = mod.func(rf.name)
            if lossy:
                # documented backwards-compatibility hack (log.warning in source): T2 4-byte ints are written with the 16.16 tag
                ctx.note(f"{where} {label}: documented lossy branch (writes tag 255 which T2 reads as 16.16); exempt")
                ctx.ob("F5-int", where, label + " [documented lossy hack]", True, "exempt: branch logs a warning", nontrivial=False)
                continue
            renv = {"b0": lead, "data": DataView(b.items[1:], 0), "index": Iv(0), "self": None}
            res = _reader_eval(ctx, "F5-int", where, rfn, b, renv, cenv, "index", None, label, p.iv)
            if res is False:
                continue
            val = res.result
            if not (isinstance(val, tuple) and len(val) == 2 and isinstance(val[0], Iv) and isinstance(val[1], Iv)):
                ctx.ob("F5-int", where, label, False, f"reader {rf.name} result not analysable: {val}")
                continue
            image, consumed = val
            okw = consumed.single and consumed.lo == len(b) - 1
            oki = image.lo <= p.iv.lo and p.iv.hi <= image.hi
            ctx.ob("F5-int", where, f"{label} -> {rf.name} bytes={len(b)} image={image}", okw and oki, "" if okw and oki else (f"reader consumes {consumed.lo}+1 bytes, writer emitted {len(b)}" if not okw else f"reader image {image} does not contain writer interval {p.iv}"))
        ok = _covers(covered, dom.lo, dom.hi)
        ctx.ob("F5-int", f"{mod.rel}:getIntEncoder.encodeInt[{fmt}]", "guards cover [-2^31, 2^31-1]", ok, "" if ok else "gap in the writer's value classes")

    # encodeFixed <-> read_fixed1616
    ctx.rule("F5-fixed", "encodeFixed emits tag 255 + '>l' with 16 fractional bits and the T2 table maps 255 to a reader unpacking '>l' with the same precision", floor=3)
    ef = mod.func("encodeFixed")
    t2 = fold_module_sequence(repo, mod, "t2OperandEncoding")
    rf = t2[255]
    ok = isinstance(rf, FuncRef) and rf.name == "read_fixed1616"
    ctx.ob("F5-fixed", mod.rel + ":<module>", "t2OperandEncoding[255] = read_fixed1616", ok, "" if ok else f"is {rf!r}")
    wbits = [try_fold(k.value) for c in calls_in(ef.node) if call_name(c) == "floatToFixed" for k in c.keywords if k.arg == "precisionBits"]
    rfn = mod.func("read_fixed1616")
    rbits = [try_fold(k.value) for c in calls_in(rfn.node) if call_name(c) == "fixedToFloat" for k in c.keywords if k.arg == "precisionBits"]
    ctx.ob("F5-fixed", ef.where, f"precisionBits writer={wbits} reader={rbits}", wbits == rbits == [16], "" if wbits == rbits == [16] else "fixed-point precision differs between encodeFixed and read_fixed1616")
    wf = sorted({try_fold(c.args[0]) for c in calls_in(ef.node) if call_name(c) in ("pack", "struct.pack")})
    rfm = sorted({try_fold(c.args[0]) for c in calls_in(rfn.node) if call_name(c) in ("struct.unpack", "unpack")})
    tagok = any(isinstance(n, ast.Constant) and n.value == b"\xff" for n in ast.walk(ef.node))
    ctx.ob("F5-fixed", ef.where, f"tag 0xFF + pack{wf} / unpack{rfm}", wf == rfm == [">l"] and tagok, "" if wf == rfm == [">l"] and tagok else "layout differs")
    # the integer shortcut: value & 0xFFFF == 0 -> encodeIntT2(value >> 16): mask and shift agree with precision
    masks = [norm(n) for n in ast.walk(ef.node) if isinstance(n, ast.BinOp) and isinstance(n.op, (ast.BitAnd, ast.RShift)) and norm(n.left) == "value"]
    ok = sorted(masks) == ["value & 65535", "value >> 16"]
    ctx.ob("F5-fixed", ef.where, "integer shortcut uses mask 0xFFFF and shift 16: " + ", ".join(sorted(masks)), ok, "" if ok else "fraction mask / integer shift disagree with 16 fractional bits")


# ---------------------------------------------------------------------------
# F5 branch mode: uint32var, 255UShort, packed point count
# ---------------------------------------------------------------------------


def _branch_codec(ctx, rule, mod, wname, rname, var, dom: Iv, renv_fn, cenv, decode_ok=None):
    wfn = mod.func(wname)
    rfn = mod.func(rname)
    try:
        paths = run_paths(wfn.node, var, dom, {}, cenv)
    except Top as ex:
        raise AnalysisError(f"{wname} outside analysable fragment: {ex}")
    covered = []
    for p in paths:
        where = f"{mod.rel}:{wname}"
        label = f"{var} in {p.iv}"
        if p.kind == "raise":
            continue
        b = _bytes_of(p.result)
        if b is None or len(b) == 0:
            ctx.ob(rule, where, label, False, f"emitted value not analysable ({p.result})")
            continue
        covered.append(p.iv)
        renv = renv_fn(b)
        res = _reader_eval(ctx, rule, where, rfn, b, renv, cenv, None, None, label, p.iv)
        if res is False:
            continue
        val = res.result
        if not (isinstance(val, tuple) and len(val) == 2 and isinstance(val[0], Iv)):
            ctx.ob(rule, where, label, False, f"reader result not analysable: {val}")
            continue
        image, rest = val
        if isinstance(rest, DataView):
            consumed = rest.off
        elif isinstance(rest, Iv) and rest.single:
            consumed = rest.lo
        else:
            consumed = None
        okw = consumed == len(b)
        oki = image.lo <= p.iv.lo and p.iv.hi <= image.hi
        ctx.ob(rule, where, f"{label} -> bytes={len(b)} lead={b.items[0]} image={image}", okw and oki, "" if okw and oki else (f"reader consumes {consumed} bytes, writer emitted {len(b)}" if not okw else f"reader image {image} does not contain writer interval {p.iv}"))
    ok = _covers(covered, dom.lo, dom.hi)
    ctx.ob(rule, f"{mod.rel}:{wname}", f"guards cover {dom}", ok, "" if ok else "gap in the writer's value classes (some values raise or fall through)")


def f5_uint32var(ctx, repo):
    ctx.rule("F5-u32var", "_write_uint32var value classes land in matching _read_uint32var branches with equal width and containing image", floor=5)
    mod = repo.mod("ttLib/tables/otTables.py")
    cenv = module_env(repo, mod)
    _branch_codec(ctx, "F5-u32var", mod, "_write_uint32var", "_read_uint32var", "v", Iv(0, (1 << 32) - 1), lambda b: {"data": DataView(b.items, 0), "i": Iv(0)}, cenv)


def f5_255ushort(ctx, repo):
    ctx.rule("F5-255u16", "pack255UShort value classes land in matching unpack255UShort code classes with equal width and containing image", floor=4)
    mod = repo.mod("ttLib/woff2.py")
    cenv = module_env(repo, mod)
    _branch_codec(ctx, "F5-255u16", mod, "pack255UShort", "unpack255UShort", "value", Iv(0, 0xFFFF), lambda b: {"data": DataView(b.items, 0)}, cenv)


# ---------------------------------------------------------------------------
# F5 constant-relation mode: loops
# ---------------------------------------------------------------------------


def _const_in(fnode, pred):
    return [n for n in ast.walk(fnode) if pred(n)]


def f5_base128(ctx, repo):
    ctx.rule("F5-b128", "UIntBase128: payload bits, continuation bit, maximum length, writer domain and reader overflow mask satisfy the relations that make packBase128/unpackBase128 inverse", floor=7)
    mod = repo.mod("ttLib/woff2.py")
    cenv = module_env(repo, mod)
    pk, up, sz = mod.func("packBase128"), mod.func("unpackBase128"), mod.func("base128Size")
    W = pk.where

    def consts(fn, op, side="right"):
        out = []
        for n in ast.walk(fn.node):
            if isinstance(n, ast.BinOp) and isinstance(n.op, op):
                v = try_fold(getattr(n, side), cenv)
                if isinstance(v, int):
                    out.append((v, norm(n)))
            if isinstance(n, ast.AugAssign) and isinstance(n.op, op):
                v = try_fold(n.value, cenv)
                if isinstance(v, int):
                    out.append((v, norm(n)))
        return out

    # writer: b = (n >> (7 * (...))) & 0x7F ; b |= 0x80
    wmask = {v for v, _ in consts(pk, ast.BitAnd)}
    wcont = {v for v, _ in consts(pk, ast.BitOr)}
    wshift = set()
    for n in ast.walk(pk.node):
        if isinstance(n, ast.BinOp) and isinstance(n.op, ast.RShift) and isinstance(n.right, ast.BinOp) and isinstance(n.right.op, ast.Mult):
            v = try_fold(n.right.left, cenv)
            if isinstance(v, int):
                wshift.add(v)
    rmask = set()
    rcont = set()
    rover = set()
    rshift = set()
    # the reader's accumulator is the name that is re-bound from itself shifted left (whatever it is called); any other
    # masked name is the current byte
    ACC = next((st.targets[0].id for st in ast.walk(up.node) if isinstance(st, ast.Assign) and isinstance(st.targets[0], ast.Name) and any(isinstance(x, ast.BinOp) and isinstance(x.op, ast.LShift) and isinstance(x.left, ast.Name) and x.left.id == st.targets[0].id for x in ast.walk(st.value))), "result")
    for n in ast.walk(up.node):
        if isinstance(n, ast.BinOp) and isinstance(n.op, ast.BitAnd) and isinstance(n.left, ast.Name):
            v = try_fold(n.right, cenv)
            if n.left.id != ACC and isinstance(v, int):
                (rcont if v & (v - 1) == 0 else rmask).add(v)
            if n.left.id == ACC and isinstance(v, int):
                rover.add(v)
        if isinstance(n, ast.BinOp) and isinstance(n.op, ast.LShift) and isinstance(n.left, ast.Name) and n.left.id == ACC:
            v = try_fold(n.right, cenv)
            if isinstance(v, int):
                rshift.add(v)
    ok = len(wshift) == 1 and wshift == rshift
    k = next(iter(wshift)) if len(wshift) == 1 else None
    ctx.ob("F5-b128", W, f"payload bits per byte writer={sorted(wshift)} reader={sorted(rshift)}", ok, "" if ok else "shift amounts differ")
    if k is None:
        return
    m = (1 << k) - 1
    ctx.ob("F5-b128", W, f"payload mask writer={sorted(map(hex, wmask))} reader={sorted(map(hex, rmask))} == (1<<{k})-1", wmask == {m} and rmask == {m}, "" if wmask == {m} and rmask == {m} else "payload mask is not (1<<k)-1 on both sides")
    okc = wcont == rcont and len(wcont) == 1 and next(iter(wcont)) == (1 << k)
    ctx.ob("F5-b128", W, f"continuation bit writer={sorted(map(hex, wcont))} reader={sorted(map(hex, rcont))} == 1<<{k}", okc, "" if okc else "continuation bit differs or overlaps the payload")
    # size function: while n >= 128: n >>= 7
    thr = [try_fold(n.test.comparators[0], cenv) for n in ast.walk(sz.node) if isinstance(n, ast.While) and isinstance(n.test, ast.Compare) and isinstance(n.test.ops[0], ast.GtE)]
    shr = [try_fold(n.value, cenv) for n in ast.walk(sz.node) if isinstance(n, ast.AugAssign) and isinstance(n.op, ast.RShift)]
    oks = thr == [1 << k] and shr == [k]
    ctx.ob("F5-b128", sz.where, f"base128Size threshold {thr} and shift {shr}", oks, "" if oks else "size computation disagrees with the payload width")
    # max size and domain
    mx = try_fold(ast.Name("woff2Base128MaxSize", ast.Load()), cenv)
    dom = None
    for n in ast.walk(pk.node):
        if isinstance(n, ast.Compare) and isinstance(n.ops[0], ast.GtE) and norm(n.left) == "n":
            dom = try_fold(n.comparators[0], cenv)
    import math

    okm = isinstance(mx, int) and isinstance(dom, int) and mx == math.ceil((dom.bit_length() - 1) / k) and dom == 1 << 32
    ctx.ob("F5-b128", W, f"woff2Base128MaxSize={mx} == ceil(32/{k}); writer domain bound={dom} == 2**32", okm, "" if okm else "maximum length / domain bound inconsistent")
    # reader overflow mask: top k bits of 32
    want = 0xFFFFFFFF & ~((1 << (32 - k)) - 1)
    oko = rover == {want}
    ctx.ob("F5-b128", up.where, f"overflow mask {sorted(map(hex, rover))} == {hex(want)}", oko, "" if oko else "overflow test does not match 32-bit domain")
    # loop bound uses the max size
    rng = [norm(c.args[0]) for c in calls_in(up.node) if call_name(c) == "range"]
    ctx.ob("F5-b128", up.where, f"reader loops range({rng})", rng == ["woff2Base128MaxSize"], "" if rng == ["woff2Base128MaxSize"] else "reader loop bound is not the shared maximum size")
    # leading-zero rejection 0x80
    lz = [try_fold(n.comparators[0], cenv) for n in ast.walk(up.node) if isinstance(n, ast.Compare) and isinstance(n.ops[0], ast.Eq) and "data[0]" in norm(n.left)]
    ctx.ob("F5-b128", up.where, f"leading-zero byte test == {lz}", lz == [1 << k], "" if lz == [1 << k] else "leading zero test constant is not the bare continuation bit")


def f5_points(ctx, repo):
    ctx.rule("F5-points", "packed point numbers: count header and run header constants of compilePoints and decompilePoints_ agree (flag bit, count mask, run length, byte/word thresholds and typecodes)", floor=8)
    mod = repo.mod("ttLib/tables/TupleVariation.py")
    cenv = module_env(repo, mod)
    w = mod.func("TupleVariation.compilePoints")
    r = mod.func("TupleVariation.decompilePoints_")
    FLAG = try_fold(ast.Name("POINTS_ARE_WORDS", ast.Load()), cenv)
    MASK = try_fold(ast.Name("POINT_RUN_COUNT_MASK", ast.Load()), cenv)
    ok = isinstance(FLAG, int) and isinstance(MASK, int) and FLAG & MASK == 0 and FLAG | MASK == 0xFF and MASK & (MASK + 1) == 0
    ctx.ob("F5-points", mod.rel + ":<module>", f"POINTS_ARE_WORDS={FLAG} POINT_RUN_COUNT_MASK={MASK}: disjoint, together one byte, mask contiguous", ok)
    if not ok:
        return
    # --- count header as a branch codec -------------------------------
    first_if = None
    for st in w.node.body:
        if isinstance(st, ast.If) and any(isinstance(n, ast.Name) and n.id == "numPoints" for n in ast.walk(st.test)):
            first_if = st
            break
    if first_if is None:
        raise AnalysisError("compilePoints: count-header if not found")
    # synthesise writer function: if test: return bytes(appends) else: return bytes(appends)
    def appends(stmts):
        elts = []
        for st in stmts:
            if isinstance(st, ast.Expr) and isinstance(st.value, ast.Call) and norm(st.value.func) == "result.append":
                elts.append(st.value.args[0])
            else:
                raise AnalysisError("compilePoints count header: unexpected statement " + norm(st)[:40])
        e = None
        for x in elts:
            piece = ast.Call(func=ast.Name("bytechr", ast.Load()), args=[x], keywords=[])
            e = piece if e is None else ast.BinOp(left=e, op=ast.Add(), right=piece)
        return [ast.Return(value=e)]

    wf = ast.FunctionDef(name="w", args=ast.arguments(posonlyargs=[], args=[ast.arg("numPoints")], kwonlyargs=[], kw_defaults=[], defaults=[]), body=[ast.If(test=first_if.test, body=appends(first_if.body), orelse=appends(first_if.orelse))], decorator_list=[])
    ast.fix_missing_locations(wf)
    # reader prefix: statements before the first while, with a final return
    pre = []
    for st in r.node.body:
        if isinstance(st, ast.While):
            break
        if isinstance(st, ast.If) and any(isinstance(n, ast.Return) for n in ast.walk(st)):
            continue  # `if numPointsInData == 0: return range(...)` handled as the all-points special case
        pre.append(st)
    pre.append(ast.Return(value=ast.Tuple(elts=[ast.Name("numPointsInData", ast.Load()), ast.Name("pos", ast.Load())], ctx=ast.Load())))
    rf = ast.FunctionDef(name="r", args=r.node.args, body=pre, decorator_list=[])
    ast.fix_missing_locations(rf)
    # max count: two bytes with flag => (MASK<<8)|0xFF
    dom = Iv(1, (MASK << 8) | 0xFF)
    paths = run_paths(wf, "numPoints", dom, {}, cenv)
    cov = []
    for p in paths:
        label = f"numPoints in {p.iv}"
        b = _bytes_of(p.result)
        if b is None:
            ctx.ob("F5-points", w.where, label, False, f"count header not analysable: {p.result}")
            continue
        cov.append(p.iv)
        # every emitted byte must fit a byte
        fit = all(isinstance(x, Iv) and 0 <= x.lo and x.hi <= 255 for x in b.items)
        renv = {"data": DataView(b.items, 0), "offset": Iv(0), "numPoints": Iv(0, 65535), "tableTag": None}

        class _R:  # adapter with attributes used by _reader_eval
            node = rf
            qual = "decompilePoints_[count header]"

        res = _reader_eval(ctx, "F5-points", w.where, _R, b, renv, cenv, None, None, label, p.iv)
        if res is False:
            continue
        val = res.result
        if not (isinstance(val, tuple) and isinstance(val[0], Iv) and isinstance(val[1], Iv)):
            ctx.ob("F5-points", w.where, label, False, f"reader result not analysable: {val}")
            continue
        image, pos = val
        okk = fit and pos.single and pos.lo == len(b) and image.lo <= p.iv.lo and p.iv.hi <= image.hi
        ctx.ob("F5-points", w.where, f"{label} -> {len(b)} byte(s) lead={b.items[0]} image={image}", okk, "" if okk else f"count header mismatch: fit={fit} consumed={pos} emitted={len(b)} image={image}")
    ctx.ob("F5-points", w.where, f"count header classes cover {dom}", _covers(cov, dom.lo, dom.hi))
    # --- run header relations -------------------------------------------
    mrl = None
    for n in ast.walk(w.node):
        if isinstance(n, ast.Assign) and norm(n.targets[0]) == "MAX_RUN_LENGTH":
            mrl = try_fold(n.value, cenv)
    loop_ok = any(isinstance(n, ast.Compare) and norm(n) == "runLength <= MAX_RUN_LENGTH" for n in ast.walk(w.node))
    ok = mrl == MASK and loop_ok
    ctx.ob("F5-points", w.where, f"MAX_RUN_LENGTH={mrl} with loop test runLength <= MAX_RUN_LENGTH: stored runLength-1 <= mask {MASK}", ok, "" if ok else "run length can exceed what the count mask can hold")
    hdr = sorted(norm(n.value) for n in ast.walk(w.node) if isinstance(n, ast.Assign) and norm(n.targets[0]) == "result[headerPos]")
    okh = hdr == ["runLength - 1", "runLength - 1 | POINTS_ARE_WORDS"]
    ctx.ob("F5-points", w.where, "run header values: " + " ; ".join(hdr), okh, "" if okh else "run header is not (runLength-1) [| POINTS_ARE_WORDS]")
    rcount = [norm(n.value) for n in ast.walk(r.node) if isinstance(n, ast.Assign) and norm(n.targets[0]) == "numPointsInRun"]
    okr = rcount == ["(runHeader & POINT_RUN_COUNT_MASK) + 1"]
    ctx.ob("F5-points", r.where, "numPointsInRun = " + " ; ".join(rcount), okr, "" if okr else "reader run length is not (header & mask) + 1")
    # byte/word split: writer guard 0 <= delta <= 0xFF <-> typecode B ; else two bytes (>>8, &0xFF) <-> H
    bguard = [n for n in ast.walk(w.node) if isinstance(n, ast.Compare) and len(n.ops) == 2 and norm(n.comparators[0]) == "delta"]
    gb = [(try_fold(n.left, cenv), try_fold(n.comparators[1], cenv)) for n in bguard]
    okb = gb == [code_range("B")]
    ctx.ob("F5-points", w.where, f"byte-run guard {gb} == range of typecode 'B'", okb, "" if okb else "byte encoding guard differs from unsigned byte range")
    brk = [norm(n.test) for n in ast.walk(w.node) if isinstance(n, ast.If) and any(isinstance(x, ast.Break) for x in n.body)]
    okbr = brk == ["useByteEncoding and (delta > 255 or delta < 0)"]
    ctx.ob("F5-points", w.where, "byte run is broken when a delta leaves the byte range: " + " ; ".join(brk), okbr, "" if okbr else "run-break condition does not complement the byte guard")
    # which typecode / size belongs to which state of the POINTS_ARE_WORDS bit: from the conditions that hold on every
    # path to the statement (arm order, negation and != 0 / == 0 spelling do not matter)
    tcs = {"words": ([], []), "bytes": ([], [])}
    gr = CFG(r.node)
    for st in walk_no_nested(r.node):
        if not isinstance(st, ast.Assign):
            continue
        tc = [try_fold(c.args[0]) for c in calls_in(st) if call_name(c) == "array.array" and c.args]
        sz = [norm(st.value)] if norm(st.targets[0]) == "pointsSize" else []
        if not tc and not sz:
            continue
        fs = flag_state(implied_conditions(gr, st), "POINTS_ARE_WORDS")
        side = {True: "words", False: "bytes"}.get(fs)
        if side is None:
            tcs.setdefault("unguarded", ([], []))
            side = "unguarded"
        tcs[side][0].extend(tc)
        tcs[side][1].extend(sz)
    okt = tcs.get("words") == (["H"], ["numPointsInRun * 2"]) and tcs.get("bytes") == (["B"], ["numPointsInRun"])
    ctx.ob("F5-points", r.where, f"reader typecodes/sizes {tcs}", okt, "" if okt else "reader array typecode or size per flag is wrong")
    gw = CFG(w.node)
    wwords = sorted(norm(c.args[0]) for st in walk_no_nested(w.node) if isinstance(st, ast.Expr) for c in calls_in(st) if norm(c.func) == "result.append" and c.args and ("useByteEncoding", False) in implied_conditions(gw, st))
    okw = wwords == ["delta & 255", "delta >> 8"]
    ctx.ob("F5-points", w.where, "word run emits " + ", ".join(wwords), okw, "" if okw else "word encoding is not big-endian (delta>>8, delta&0xFF)")


def _array_typecodes(repo, mod, f):
    """typecodes of the arrays a function builds: array.array("h", ...) directly, or through a module helper that
    receives the typecode as a parameter (extract-function refactoring)"""
    out = {try_fold(c.args[0]) for c in calls_in(f.node) if call_name(c) == "array.array" and c.args}
    for c in calls_in(f.node):
        nm = call_name(c)
        h = mod.funcs.get(nm) if nm else None
        if h is None or h.node is f.node:
            continue
        params = [a.arg for a in h.node.args.args]
        for ac in calls_in(h.node):
            if call_name(ac) == "array.array" and ac.args and isinstance(ac.args[0], ast.Name) and ac.args[0].id in params:
                k = params.index(ac.args[0].id)
                if k < len(c.args):
                    out.add(try_fold(c.args[k]))
                for kw in c.keywords:
                    if kw.arg == ac.args[0].id:
                        out.add(try_fold(kw.value))
    out.discard(None)
    return out


def f5_deltas(ctx, repo):
    ctx.rule("F5-deltas", "packed deltas: per size class the header flag, chunk size (count mask + 1), array typecode and value guard agree between encodeDeltaRunAs* and decompileDeltas_", floor=16)
    mod = repo.mod("ttLib/tables/TupleVariation.py")
    cenv = module_env(repo, mod)
    r = mod.func("TupleVariation.decompileDeltas_")
    C = {k: try_fold(ast.Name(k, ast.Load()), cenv) for k in ("DELTAS_ARE_ZERO", "DELTAS_ARE_WORDS", "DELTAS_ARE_LONGS", "DELTAS_SIZE_MASK", "DELTA_RUN_COUNT_MASK")}
    ok = all(isinstance(v, int) for v in C.values()) and C["DELTAS_SIZE_MASK"] & C["DELTA_RUN_COUNT_MASK"] == 0 and C["DELTAS_SIZE_MASK"] | C["DELTA_RUN_COUNT_MASK"] == 0xFF and all(C[k] & ~C["DELTAS_SIZE_MASK"] == 0 for k in ("DELTAS_ARE_ZERO", "DELTAS_ARE_WORDS", "DELTAS_ARE_LONGS")) and len({C["DELTAS_ARE_ZERO"], C["DELTAS_ARE_WORDS"], C["DELTAS_ARE_LONGS"], 0}) == 4
    ctx.ob("F5-deltas", mod.rel + ":<module>", f"flag constants {C}: size flags inside size mask, distinct, disjoint from count mask", ok)
    if not ok:
        return
    MASK = C["DELTA_RUN_COUNT_MASK"]
    # reader: map flag -> (typecode, size multiplier)
    rmap = {}

    def walk_if(n):
        t = norm(n.test)
        for name in ("DELTAS_ARE_ZERO", "DELTAS_ARE_LONGS", "DELTAS_ARE_WORDS"):
            if t == f"runHeader & DELTAS_SIZE_MASK == {name}":
                tc = [try_fold(c.args[0]) for st in n.body for c in calls_in(st) if call_name(c) == "array.array"]
                sz = [norm(st.value) for st in n.body if isinstance(st, ast.Assign) and norm(st.targets[0]) == "deltasSize"]
                rmap[name] = (tc[0] if tc else None, sz[0] if sz else None)
                if n.orelse and not (len(n.orelse) == 1 and isinstance(n.orelse[0], ast.If)):
                    tc = [try_fold(c.args[0]) for st in n.orelse for c in calls_in(st) if call_name(c) == "array.array" and st in n.orelse and not isinstance(st, ast.If)]
                    sz = [norm(st.value) for st in n.orelse if isinstance(st, ast.Assign) and norm(st.targets[0]) == "deltasSize"]
                    if tc and sz:
                        rmap["BYTES"] = (tc[0], sz[0])

    for n in ast.walk(r.node):
        if isinstance(n, ast.If):
            walk_if(n)
    want_r = {"DELTAS_ARE_ZERO": (None, None), "DELTAS_ARE_LONGS": ("i", "numDeltasInRun * 4"), "DELTAS_ARE_WORDS": ("h", "numDeltasInRun * 2"), "BYTES": ("b", "numDeltasInRun")}
    for k, v in want_r.items():
        ctx.ob("F5-deltas", r.where, f"reader class {k}: typecode/size {rmap.get(k)}", rmap.get(k) == v, "" if rmap.get(k) == v else f"expected {v}")
    rc = [norm(n.value) for n in ast.walk(r.node) if isinstance(n, ast.Assign) and norm(n.targets[0]) == "numDeltasInRun"]
    ctx.ob("F5-deltas", r.where, "numDeltasInRun = " + ";".join(rc), rc == ["(runHeader & DELTA_RUN_COUNT_MASK) + 1"])
    # writers
    spec = {
        "encodeDeltaRunAsZeroes_": ("DELTAS_ARE_ZERO", None),
        "encodeDeltaRunAsBytes_": (None, "b"),
        "encodeDeltaRunAsWords_": ("DELTAS_ARE_WORDS", "h"),
        "encodeDeltaRunAsLongs_": ("DELTAS_ARE_LONGS", "i"),
    }
    for fname, (flag, tc) in spec.items():
        f = mod.func("TupleVariation." + fname)
        # chunk loop: while runLength >= N: append(FLAG | (N-1)) ... runLength -= N
        thr = [try_fold(n.test.comparators[0], cenv) for n in ast.walk(f.node) if isinstance(n, ast.While) and norm(n.test.left if isinstance(n.test, ast.Compare) else n.test) == "runLength"]
        dec = [try_fold(n.value, cenv) for n in ast.walk(f.node) if isinstance(n, ast.AugAssign) and norm(n.target) == "runLength"]
        okc = thr == [MASK + 1] and dec == [MASK + 1]
        ctx.ob("F5-deltas", f.where, f"chunk threshold {thr} / decrement {dec} == count mask + 1 = {MASK + 1}", okc, "" if okc else "chunk size disagrees with the 6-bit run count")
        heads = sorted(norm(c.args[0]) for c in calls_in(f.node) if norm(c.func) == "bytearr.append")
        want_full = f"{flag} | {MASK}" if flag else f"{MASK}"
        want_part = f"{flag} | runLength - 1" if flag else "runLength - 1"
        okh = heads == sorted([want_full, want_part])
        ctx.ob("F5-deltas", f.where, "headers: " + " ; ".join(heads), okh, "" if okh else f"expected [{want_full}] and [{want_part}]")
        tcs = sorted(_array_typecodes(repo, mod, f))
        okt = tcs == ([tc] if tc else [])
        ctx.ob("F5-deltas", f.where, f"array typecode {tcs}", okt, "" if okt else f"expected {tc} (reader uses {want_r.get(flag or 'BYTES')})")
        offs = [try_fold(n.value, cenv) for n in ast.walk(f.node) if isinstance(n, ast.AugAssign) and norm(n.target) == "offset"]
        sl = sorted({norm(n.slice) for n in ast.walk(f.node) if isinstance(n, ast.Subscript) and norm(n.value) == "deltas" and isinstance(n.slice, ast.Slice)})
        if tc:
            oks = offs == [MASK + 1] and sl == sorted([f"offset:offset + {MASK + 1}", "offset:pos"])
            ctx.ob("F5-deltas", f.where, f"chunk slices {sl} advance {offs}", oks, "" if oks else "chunk slices do not partition the run")
    # value guards: a value class is chosen only if every value it admits fits the typecode
    cd = mod.func("TupleVariation.compileDeltaValues_")
    for fname, tc in (("encodeDeltaRunAsBytes_", "b"), ("encodeDeltaRunAsWords_", "h")):
        rng = code_range(tc)
        f = mod.func("TupleVariation." + fname)
        # inside the run function: `if not (lo <= value <= hi): break`
        g = [(try_fold(n.test.operand.left, cenv), try_fold(n.test.operand.comparators[1], cenv)) for n in ast.walk(f.node) if isinstance(n, ast.If) and isinstance(n.test, ast.UnaryOp) and isinstance(n.test.operand, ast.Compare) and len(n.test.operand.ops) == 2 and any(isinstance(x, ast.Break) for x in n.body)]
        okg = g == [rng]
        ctx.ob("F5-deltas", f.where, f"run stops unless value in {g} == range('{tc}')", okg, "" if okg else "a value outside the typecode's range can enter the run")
        # dispatcher guards
        calls = [c for c in calls_in(cd.node) if last_attr(c) == fname]
        for c in calls:
            from ..cfg import guard_conditions, CFG, implied_conditions, implied_atoms, upper_bound, flag_state

            gs = [t for t, pol in guard_conditions(c) if pol and isinstance(t, ast.Compare) and len(t.ops) >= 2]
            gv = [(try_fold(t.left, cenv), try_fold(t.comparators[-1], cenv)) for t in gs]
            okd = gv == [rng]
            ctx.ob("F5-deltas", cd.where, f"dispatch to {fname} under {[norm(t) for t in gs]}", okd, "" if okd else f"dispatch guard {gv} is not the range of '{tc}' {rng}")


def f5_subr_bias(ctx, repo):
    ctx.rule("F5-bias", "calcSubrBias thresholds and biases are the Type 2 constants (107/<1240, 1131/<33900, 32768)", floor=1)
    mod = repo.mod("misc/psCharStrings.py")
    f = mod.func("calcSubrBias")
    cenv = module_env(repo, mod)
    pairs = []
    cur = None
    for st in f.node.body:
        if isinstance(st, ast.If):
            cur = st
    node = cur
    while node is not None:
        thr = try_fold(node.test.comparators[0], cenv) if isinstance(node.test, ast.Compare) and isinstance(node.test.ops[0], ast.Lt) else None
        b = [try_fold(s.value, cenv) for s in node.body if isinstance(s, ast.Assign)]
        pairs.append((thr, b[0] if b else None))
        if len(node.orelse) == 1 and isinstance(node.orelse[0], ast.If):
            node = node.orelse[0]
        else:
            b = [try_fold(s.value, cenv) for s in node.orelse if isinstance(s, ast.Assign)]
            pairs.append((None, b[0] if b else None))
            node = None
    want = [(1240, 107), (33900, 1131), (None, 32768)]
    ctx.ob("F5-bias", f.where, f"(threshold,bias) = {pairs}", pairs == want, "" if pairs == want else f"expected {want} (Adobe TN5177 §4.7; biases are the one/two/three-byte operand class limits 107, 1131, 32768)")



def f5_offsize(ctx, repo):
    ctx.rule("F5-offsize", "calcOffSize picks the smallest offset width that can hold the largest offset: n bytes exactly when largestOffset < 256**n (strict), 4 otherwise", floor=1)
    mod = repo.mod("cffLib/__init__.py")
    f = mod.func("calcOffSize")
    cenv = module_env(repo, mod)
    arg = f.node.args.args[0].arg
    arms = []
    node = next((st for st in f.node.body if isinstance(st, ast.If)), None)
    while node is not None:
        t = node.test
        lim = None
        if isinstance(t, ast.Compare) and len(t.ops) == 1 and norm(t.left) == arg:
            k = try_fold(t.comparators[0], cenv)
            if isinstance(k, int):
                lim = k - 1 if isinstance(t.ops[0], ast.Lt) else k if isinstance(t.ops[0], ast.LtE) else None
        v = [try_fold(s.value, cenv) for s in node.body if isinstance(s, (ast.Assign, ast.Return)) and s.value is not None]
        arms.append((lim, v[0] if v else None))
        if len(node.orelse) == 1 and isinstance(node.orelse[0], ast.If):
            node = node.orelse[0]
        else:
            v = [try_fold(s.value, cenv) for s in node.orelse if isinstance(s, (ast.Assign, ast.Return)) and s.value is not None]
            arms.append((None, v[0] if v else None))
            node = None
    want = [(0xFF, 1), (0xFFFF, 2), (0xFFFFFF, 3), (None, 4)]
    ctx.ob("F5-offsize", f.where, f"(largest offset admitted, offSize) = {arms}", arms == want, "" if arms == want else f"expected {want}: an offset equal to 256**n does not fit n bytes")


def f5_rebias(ctx, repo):
    ctx.rule("F5-rebias", "subroutine renumbering decodes call operands with the bias of the old INDEX and re-encodes them with the bias of the pruned one: _old_bias = calcSubrBias(subrs), _new_bias = calcSubrBias(subrs._used), operand := R._used.index(operand + R._old_bias) - R._new_bias with one receiver per operator", floor=4)
    mod = repo.mod("cffLib/transforms.py")
    f = mod.func("remove_unused_subroutines")
    got = {}
    for st in ast.walk(f.node):
        if isinstance(st, ast.Assign) and isinstance(st.targets[0], ast.Attribute) and st.targets[0].attr in ("_old_bias", "_new_bias"):
            got[st.targets[0].attr] = (norm(st.targets[0].value), norm(st.value))
    o, n = got.get("_old_bias"), got.get("_new_bias")
    ok = o is not None and o[1] == f"calcSubrBias({o[0]})"
    ctx.ob("F5-rebias", f.where, f"_old_bias = {o and o[1]}", ok, "" if ok else "the old bias must come from the INDEX as it was when the charstrings were encoded")
    ok = n is not None and o is not None and n[0] == o[0] and n[1] == f"calcSubrBias({n[0]}._used)"
    ctx.ob("F5-rebias", f.where, f"_new_bias = {n and n[1]}", ok, "" if ok else "the new bias must come from the list of subroutines that survive (its length decides the bias bracket)")
    g = mod.func("_cs_subset_subroutines")
    rew = {}
    for st in ast.walk(g.node):
        if isinstance(st, ast.Assign) and isinstance(st.targets[0], ast.Subscript) and isinstance(st.value, ast.BinOp):
            ops = [norm(t) for t, pol in guard_conditions(st) if pol]
            rew[ops[-1] if ops else "?"] = st
    for opname, recv in (("callsubr", g.node.args.args[1].arg), ("callgsubr", g.node.args.args[2].arg)):
        st = next((v for k, v in rew.items() if f"'{opname}'" in k), None)
        want = None
        if st is not None:
            tgt = norm(st.targets[0])
            want = f"{recv}._used.index({tgt} + {recv}._old_bias) - {recv}._new_bias"
        ok = False
        if st is not None:
            adds = [norm(b.right.value) for b in ast.walk(st.value) if isinstance(b, ast.BinOp) and isinstance(b.op, ast.Add) and isinstance(b.right, ast.Attribute) and b.right.attr.endswith("_bias")] + [norm(b.left.value) for b in ast.walk(st.value) if isinstance(b, ast.BinOp) and isinstance(b.op, ast.Add) and isinstance(b.left, ast.Attribute) and b.left.attr.endswith("_bias")]
            addattrs = [b.right.attr for b in ast.walk(st.value) if isinstance(b, ast.BinOp) and isinstance(b.op, ast.Add) and isinstance(b.right, ast.Attribute) and b.right.attr.endswith("_bias")] + [b.left.attr for b in ast.walk(st.value) if isinstance(b, ast.BinOp) and isinstance(b.op, ast.Add) and isinstance(b.left, ast.Attribute) and b.left.attr.endswith("_bias")]
            subs = [(norm(b.right.value), b.right.attr) for b in ast.walk(st.value) if isinstance(b, ast.BinOp) and isinstance(b.op, ast.Sub) and isinstance(b.right, ast.Attribute) and b.right.attr.endswith("_bias")]
            idx = [norm(c.func.value) for c in calls_in(st.value) if isinstance(c.func, ast.Attribute) and c.func.attr == "index"]
            ok = adds == [recv] and addattrs == ["_old_bias"] and subs == [(recv, "_new_bias")] and idx == [recv + "._used"]
        ctx.ob("F5-rebias", g.where, f"{opname}: {norm(st.value) if st is not None else None}", ok, "" if ok else f"expected {want}")



def f5_triplets(ctx, repo):
    """WOFF2 glyf triplet encoding: each writer branch emits a flag inside exactly the reader arm that
    consumes the same number of bytes.  The (absX, absY) plane is cut at every constant the writer's
    guards compare against, so every guard is decided on every cell."""
    ctx.rule("F5-triplet", "WOFF2 triplets: for every cell of the (|dx|,|dy|) plane the flag the writer emits falls in one reader class (flag < 10/20/84/120/124/128), the writer appends as many bytes as that class consumes, and the reader's classes are the spec's", floor=6)
    mod = repo.mod("ttLib/woff2.py")
    w = mod.func("WOFF2GlyfTable._encodeTriplets")
    r = mod.func("WOFF2GlyfTable._decodeTriplets")
    cenv = module_env(repo, mod)
    # reader: byte-count classes and decode classes
    def chain(fn, var):
        out = []
        for st in ast.walk(fn.node):
            if isinstance(st, ast.If) and isinstance(st.test, ast.Compare) and norm(st.test.left) == var and isinstance(st.test.ops[0], ast.Lt) and not (isinstance(getattr(st, "_parent", None), ast.If) and st in getattr(st._parent, "orelse", [])):
                arms = []
                node = st
                while True:
                    k = try_fold(node.test.comparators[0], cenv)
                    arms.append((k, node.body))
                    if len(node.orelse) == 1 and isinstance(node.orelse[0], ast.If) and isinstance(node.orelse[0].test, ast.Compare) and norm(node.orelse[0].test.left) == var:
                        node = node.orelse[0]
                    else:
                        arms.append((None, node.orelse))
                        break
                out.append(arms)
        return out
    chains = chain(r, "flag")
    nb = next((c for c in chains if any(isinstance(s, ast.Assign) and norm(s.targets[0]) == "nBytes" for k, b in c for s in b)), None)
    dec = next((c for c in chains if c is not nb), None)
    if nb is None or dec is None:
        raise AnalysisError("_decodeTriplets: flag class chains not found")
    nbytes = [(k, try_fold(next(s.value for s in b if isinstance(s, ast.Assign)), cenv)) for k, b in nb]
    ok = nbytes == [(84, 1), (120, 2), (124, 3), (None, 4)]
    ctx.ob("F5-triplet", r.where, f"reader byte-count classes {nbytes}", ok, "" if ok else "WOFF2 spec: flags 0-83 one byte, 84-119 two, 120-123 three, 124-127 four")
    dks = [k for k, b in dec]
    ok = dks == [10, 20, 84, 120, 124, None]
    ctx.ob("F5-triplet", r.where, f"reader decode classes {dks}", ok)
    bounds = [0] + [k for k in dks if k is not None] + [128]

    def nbytes_of(flag_iv):
        lo = 0
        for k, n in nbytes:
            hi = 127 if k is None else k - 1
            if flag_iv.lo >= lo and flag_iv.hi <= hi:
                return n
            lo = hi + 1
        return None

    # writer branches
    loop = next((n for n in walk_no_nested(w.node) if isinstance(n, ast.For)), None)
    top = next((n for n in loop.body if isinstance(n, ast.If)), None) if loop else None
    if top is None:
        raise AnalysisError("_encodeTriplets: branch chain not found")
    branches = []
    node = top
    while True:
        branches.append((node.test, node.body))
        if len(node.orelse) == 1 and isinstance(node.orelse[0], ast.If):
            node = node.orelse[0]
        else:
            branches.append((None, node.orelse))
            break
    cuts = {0, 1, 65536}
    for t, b in branches:
        if t is None:
            continue
        for c in ast.walk(t):
            if isinstance(c, ast.Compare) and len(c.ops) == 1:
                k = try_fold(c.comparators[0], cenv)
                if isinstance(k, int) and norm(c.left) in ("absX", "absY"):
                    cuts.add(k + 1 if isinstance(c.ops[0], (ast.LtE, ast.Gt)) else k)
    cuts = sorted(c for c in cuts if 0 <= c <= 65536)
    cells = [(cuts[i], cuts[i + 1] - 1) for i in range(len(cuts) - 1)]
    bad = []
    seen_arms = {}
    hulls = {}
    for cx in cells:
        for cy in cells:
            env = {"absX": Iv(*cx), "absY": Iv(*cy), "x": Iv(0) if cx == (0, 0) else Iv(1, 65535), "y": Iv(0) if cy == (0, 0) else Iv(1, 65535), "onCurveBit": Iv(0), "xSignBit": Iv(0, 1), "ySignBit": Iv(0, 1), "xySignBits": Iv(0, 3)}
            ev = Evaluator(env, cenv)
            chosen = None
            for bi, (t, b) in enumerate(branches):
                try:
                    tv = True if t is None else ev.truth(t)
                except Top:
                    tv = None
                if tv is None:
                    bad.append(f"guard `{norm(t)}` undecided on cell |dx|={cx} |dy|={cy}")
                    chosen = -1
                    break
                if tv:
                    chosen = bi
                    break
            if chosen is None or chosen < 0:
                continue
            body = branches[chosen][1]
            fl = [c for st in body for c in calls_in(st) if norm(c.func) == "flags.append"]
            tr = [c for st in body for c in calls_in(st) if norm(c.func) == "triplets.append"]
            if len(fl) != 1:
                bad.append(f"branch {chosen}: {len(fl)} flag appends")
                continue
            try:
                fiv = ev.ev(fl[0].args[0])
            except Top as ex:
                bad.append(f"branch {chosen}: flag expression not evaluable ({ex})")
                continue
            arm = next((i for i in range(len(bounds) - 1) if fiv.lo >= bounds[i] and fiv.hi <= bounds[i + 1] - 1), None)
            if arm is None:
                bad.append(f"|dx| in {cx}, |dy| in {cy}: writer branch {chosen + 1} emits flag in [{fiv.lo},{fiv.hi}], which is not inside one reader class {bounds}")
                continue
            n = nbytes_of(fiv)
            if n != len(tr):
                bad.append(f"|dx| in {cx}, |dy| in {cy}: writer appends {len(tr)} bytes, reader consumes {n} for flags [{fiv.lo},{fiv.hi}]")
            seen_arms.setdefault(chosen, set()).add(arm)
            hx, hy = hulls.setdefault(chosen, [cx, cy])
            hulls[chosen] = [(min(hx[0], cx[0]), max(hx[1], cx[1])), (min(hy[0], cy[0]), max(hy[1], cy[1]))]
    # (iii) the reader's decoded magnitude range of each class contains the |dx| / |dy| range of the writer branch feeding it
    class _Sub(ast.NodeTransformer):
        def visit_Subscript(self, n):
            if norm(n.value) == "triplets":
                return ast.copy_location(ast.Name(id="_byte", ctx=ast.Load()), n)
            return self.generic_visit(n)

    for ai, (k, body) in enumerate(dec):
        lo_f = bounds[ai]
        hi_f = bounds[ai + 1] - 1
        renv = {"flag": Iv(lo_f, hi_f), "_byte": Iv(0, 255)}
        rev = Evaluator(renv, cenv)
        img = {}
        try:
            for st in body:
                if not isinstance(st, ast.Assign) or not isinstance(st.targets[0], ast.Name):
                    continue
                tgt = st.targets[0].id
                val = _Sub().visit(ast.parse(norm(st.value), mode="eval").body)
                if isinstance(val, ast.Call) and norm(val.func) == "withSign" and len(val.args) == 2:
                    img[tgt] = rev.ev(val.args[1])
                else:
                    v = rev.ev(val)
                    rev.env[tgt] = v
                    if tgt in ("dx", "dy"):
                        img[tgt] = v
        except Top as ex:
            ctx.ob("F5-triplet", r.where, f"reader class {ai + 1}: decode expressions evaluable", False, f"not evaluable: {ex}")
            continue
        if ai not in hulls:
            continue
        for var, hull in (("dx", hulls[ai][0]), ("dy", hulls[ai][1])):
            iv = img.get(var)
            ok = iv is not None and iv.lo <= hull[0] and iv.hi >= hull[1]
            ctx.ob("F5-triplet", w.where, f"writer branch {ai + 1} sends |{var}| in [{hull[0]},{hull[1]}]; reader class {ai + 1} can decode [{iv.lo if iv else '?'},{iv.hi if iv else '?'}]", ok, "" if ok else f"a |{var}| the writer puts in this class is outside what the reader can reconstruct from the bits stored: the point comes back at another position")
    for bi, arms in sorted(seen_arms.items()):
        ok = arms == {bi}
        ctx.ob("F5-triplet", w.where, f"writer branch {bi + 1} -> reader class {sorted(a + 1 for a in arms)}", ok, "" if ok else "a writer branch feeds a different reader class than its position in the chain")
    ctx.ob("F5-triplet", w.where, f"{len(cells) ** 2} cells of the (|dx|,|dy|) plane, cuts at {cuts}", not bad, "; ".join(bad[:2]))



def f5_device(ctx, repo):
    ctx.rule("F5-device", "Device tables: buildDevice picks DeltaFormat f only when every delta fits the signed field of 2**f bits that DeltaValue.write masks to (f=1: [-2,1], f=2: [-8,7], f=3: [-128,127]); reader and writer derive nBits/mask/sign the same way", floor=5)
    bm = repo.mod("otlLib/builder.py")
    f = bm.func("buildDevice")
    cenv = module_env(repo, bm)

    def bounds(test):
        lo = hi = None
        for c in ast.walk(test):
            if isinstance(c, ast.Compare) and len(c.ops) == 1:
                k = try_fold(c.comparators[0], cenv)
                l = norm(c.left)
                if not isinstance(k, int):
                    continue
                op = c.ops[0]
                if l == "minDelta":
                    lo = k + 1 if isinstance(op, ast.Gt) else k if isinstance(op, ast.GtE) else lo
                elif l == "maxDelta":
                    hi = k - 1 if isinstance(op, ast.Lt) else k if isinstance(op, ast.LtE) else hi
        return lo, hi

    outer = next((bounds(st.test) for st in walk_no_nested(f.node) if isinstance(st, ast.Assert) and "minDelta" in norm(st.test)), (None, None))
    node = next((st for st in walk_no_nested(f.node) if isinstance(st, ast.If) and "minDelta" in norm(st.test)), None)
    arms = []
    while node is not None:
        fmtv = [try_fold(s.value, cenv) for s in node.body if isinstance(s, ast.Assign) and norm(s.targets[0]).endswith("DeltaFormat")]
        arms.append((bounds(node.test), fmtv[0] if fmtv else None))
        if len(node.orelse) == 1 and isinstance(node.orelse[0], ast.If):
            node = node.orelse[0]
        else:
            fmtv = [try_fold(s.value, cenv) for s in node.orelse if isinstance(s, ast.Assign) and norm(s.targets[0]).endswith("DeltaFormat")]
            arms.append((outer, fmtv[0] if fmtv else None))
            node = None
    if len(arms) < 3:
        raise AnalysisError("buildDevice: DeltaFormat chain not found")
    for (lo, hi), fmtv in arms:
        ok = False
        if isinstance(fmtv, int) and lo is not None and hi is not None:
            nbits = 1 << fmtv
            ok = -(1 << (nbits - 1)) <= lo and hi <= (1 << (nbits - 1)) - 1
        ctx.ob("F5-device", f.where, f"DeltaFormat {fmtv} chosen for deltas in [{lo},{hi}]", ok, "" if ok else f"a {1 << fmtv if isinstance(fmtv, int) else '?'}-bit signed field holds [{-(1 << ((1 << fmtv) - 1)) if isinstance(fmtv, int) else '?'},{(1 << ((1 << fmtv) - 1)) - 1 if isinstance(fmtv, int) else '?'}]; the writer masks silently")
    cm = repo.mod("ttLib/tables/otConverters.py")
    rd, wr = cm.func("DeltaValue.read"), cm.func("DeltaValue.write")

    def defs(fn):
        return {norm(st.targets[0]): norm(st.value) for st in walk_no_nested(fn.node) if isinstance(st, ast.Assign) and isinstance(st.targets[0], ast.Name) and norm(st.targets[0]) in ("nBits", "mask", "signMask", "minusOffset")}

    dr, dw = defs(rd), defs(wr)
    ok = dr.get("nBits") == dw.get("nBits") == "1 << DeltaFormat" and dr.get("mask") == dw.get("mask") == "(1 << nBits) - 1"
    ctx.ob("F5-device", cm.rel + ":DeltaValue", f"read {dr} / write {dw}", ok, "" if ok else "reader and writer disagree on field width or mask")
    ok = dr.get("signMask") == "1 << nBits - 1" and dr.get("minusOffset") == "1 << nBits"
    ctx.ob("F5-device", rd.where, f"sign extension: signMask = {dr.get('signMask')}, minusOffset = {dr.get('minusOffset')}", ok)



def f5_halved_offsets(ctx, repo):
    """loca / gvar short offset format: stored value = offset / 2 in a uint16"""
    ctx.rule("F5-half", "short offset arrays (loca, gvar) are chosen only when every offset divided by the writer's divisor fits 16 bits, the reader multiplies by the same factor, the array typecodes agree per format, and loca additionally requires every offset to be even (the division would floor silently)", floor=6)
    for rel, wq, rq in (("ttLib/tables/_l_o_c_a.py", "table__l_o_c_a.compile", "table__l_o_c_a.decompile"), ("ttLib/tables/_g_v_a_r.py", "table__g_v_a_r.compileOffsets_", "table__g_v_a_r.decompileOffsets_")):
        mod = repo.mod(rel)
        w, r = mod.func(wq), mod.func(rq)
        cenv = module_env(repo, mod)
        # the statement that builds the short (uint16) array and the one that builds the long one, whichever arm they are in
        gw = CFG(w.node)
        arr = {}
        for st in walk_no_nested(w.node):
            if isinstance(st, ast.Assign):
                for c in calls_in(st):
                    if call_name(c) == "array.array" and c.args:
                        arr.setdefault(try_fold(c.args[0], cenv), []).append(st)
        if not arr.get("H") and not arr.get("I"):
            raise AnalysisError(f"{rel}:{wq}: short/long arrays not found")
        codes_w = sorted(k for k in arr if isinstance(k, str))
        S = arr.get("H", [None])[0]
        L = arr.get("I", [None])[0]
        atoms = implied_atoms(gw, S) if S is not None else []
        short_facts = implied_conditions(gw, S) if S is not None else set()
        long_facts = implied_conditions(gw, L) if L is not None else set()
        # upper bound admitted where the short array is built
        lim = None
        for t, pol in atoms:
            if isinstance(t, ast.Compare) and len(t.ops) == 1:
                for side, other in ((t.left, t.comparators[0]), (t.comparators[0], t.left)):
                    k = try_fold(other, cenv)
                    if isinstance(k, int) and k > 255:
                        ub = upper_bound(atoms, norm(side), lambda e: try_fold(e, cenv))
                        if ub is not None:
                            lim = ub
        # divisor used for the short array
        div = None
        for n in ast.walk(w.node):
            if isinstance(n, ast.BinOp) and isinstance(n.op, ast.FloorDiv) and isinstance(try_fold(n.right, cenv), int):
                div = try_fold(n.right, cenv)
            elif isinstance(n, ast.BinOp) and isinstance(n.op, ast.RShift) and isinstance(try_fold(n.right, cenv), int):
                div = 1 << try_fold(n.right, cenv)
        ok = lim is not None and div is not None and lim // div <= 0xFFFF and codes_w == ["H", "I"] and bool(short_facts) and short_facts != long_facts
        ctx.ob("F5-half", w.where, f"short array built under {sorted(short_facts)}: offsets <= {lim}, stores offset/{div}; array typecodes {codes_w}", ok, "" if ok else f"offset {lim} / {div} does not fit a uint16 (or typecodes changed)")
        # reader factor
        mul = None
        for n in ast.walk(r.node):
            if isinstance(n, ast.BinOp) and isinstance(n.op, ast.Mult):
                for a, b in ((n.left, n.right), (n.right, n.left)):
                    if isinstance(try_fold(a, cenv), int) and not isinstance(try_fold(a, cenv), bool) and isinstance(b, ast.Name) and not isinstance(try_fold(b, cenv), int):
                        mul = try_fold(a, cenv)
        ok = mul is not None and mul == div
        ctx.ob("F5-half", r.where, f"reader multiplies short offsets by {mul}", ok, "" if ok else f"writer divides by {div}")
        if rel.endswith("_l_o_c_a.py"):
            ok = False
            for t, pol in atoms:
                # all(l % 2 == 0 ...) holds, or any(l % 2 != 0 ...) / any(l % 2 ...) does not
                if isinstance(t, ast.Call) and call_name(t) in ("all", "any") and t.args and isinstance(t.args[0], (ast.GeneratorExp, ast.ListComp)):
                    g = t.args[0]
                    it = norm(g.generators[0].iter)
                    elt = norm(g.elt)
                    even = "% 2" in elt and "== 0" in elt
                    odd = "% 2" in elt and ("!= 0" in elt or "== 1" in elt or elt.strip("()").endswith("% 2"))
                    if it == "self.locations" and (call_name(t) == "all" and pol and even or call_name(t) == "any" and not pol and odd):
                        ok = True
            ctx.ob("F5-half", w.where, "short loca only when all(l % 2 == 0 for l in self.locations)", ok, "" if ok else "an odd intermediate offset is floored: loca no longer points at the glyph")
            fm = [st for st in walk_no_nested(w.node) if isinstance(st, ast.Assign) and "indexToLocFormat" in norm(st.targets[0])]
            short = [norm(st) for st in fm if implied_conditions(gw, st) == short_facts]
            long_ = [norm(st) for st in fm if implied_conditions(gw, st) == long_facts]
            ok = len(short) == 1 and try_fold(fm[[norm(x) for x in fm].index(short[0])].value, cenv) == 0 and len(long_) == 1 and try_fold(fm[[norm(x) for x in fm].index(long_[0])].value, cenv) == 1
            ctx.ob("F5-half", w.where, f"head.indexToLocFormat: with the short array {short}, with the long array {long_}", ok)
    tv = repo.mod("ttLib/tables/TupleVariation.py")
    f = tv.func("compileSharedTuples")
    cenv = module_env(repo, tv)
    dflt = None
    args = f.node.args
    for a, d in zip(args.args[len(args.args) - len(args.defaults):], args.defaults):
        if a.arg == "MAX_NUM_SHARED_COORDS":
            dflt = try_fold(d, cenv)
    mask = try_fold(tv.const("TUPLE_INDEX_MASK"), cenv)
    mc = [c for c in calls_in(f.node) if last_attr(c) == "most_common"]
    cap = None
    if mc and mc[0].args:
        a = mc[0].args[0]
        cap = dflt if norm(a) == "MAX_NUM_SHARED_COORDS" else try_fold(a, cenv.child({"MAX_NUM_SHARED_COORDS": dflt})) if dflt is not None else None
    ok = isinstance(cap, int) and isinstance(mask, int) and cap <= mask + 1
    ctx.ob("F5-half", f.where, f"at most {cap} shared tuples; index field mask {mask:#x}" if isinstance(mask, int) else "shared tuple cap", ok, "" if ok else "a shared tuple index beyond the mask sets reserved flag bits and decodes as another tuple")



def _intervals_of(test, var):
    """(a <= var <= b) or (...)  ->  list of closed integer intervals, or None"""
    if isinstance(test, ast.BoolOp) and isinstance(test.op, ast.Or):
        out = []
        for v in test.values:
            r = _intervals_of(v, var)
            if r is None:
                return None
            out += r
        return out
    conj = test.values if isinstance(test, ast.BoolOp) and isinstance(test.op, ast.And) else [test]
    lo, hi = None, None
    for c in conj:
        if not (isinstance(c, ast.Compare)):
            return None
        parts = [c.left] + c.comparators
        for (a, op, b) in zip(parts, c.ops, parts[1:]):
            ka, kb = try_fold(a), try_fold(b)
            if norm(a) == var and isinstance(kb, int):
                if isinstance(op, ast.GtE):
                    lo = kb
                elif isinstance(op, ast.Gt):
                    lo = kb + 1
                elif isinstance(op, ast.LtE):
                    hi = kb
                elif isinstance(op, ast.Lt):
                    hi = kb - 1
                else:
                    return None
            elif norm(b) == var and isinstance(ka, int):
                if isinstance(op, ast.LtE):
                    lo = ka
                elif isinstance(op, ast.Lt):
                    lo = ka + 1
                elif isinstance(op, ast.GtE):
                    hi = ka
                elif isinstance(op, ast.Gt):
                    hi = ka - 1
                else:
                    return None
            else:
                return None
    if lo is None or hi is None:
        return None
    return [(lo, hi)]


def agl_surrogates(ctx, repo):
    ctx.rule("AGL-sur", "agl: the code points `uniXXXX` components refuse are exactly the UTF-16 surrogates D800-DFFF, and they are the same hole the `uXXXXXX` form leaves in its accepted range (0000-D7FF, E000-10FFFF)", floor=2)
    mod = repo.mod("agl.py")
    f = mod.func("_uniToUnicode")
    rej = None
    for n in ast.walk(f.node):
        if isinstance(n, ast.Call) and call_name(n) == "any" and n.args and isinstance(n.args[0], (ast.GeneratorExp, ast.ListComp)):
            g = n.args[0]
            rej = _intervals_of(g.elt, norm(g.generators[0].target))
    ok = rej == [(0xD800, 0xDFFF)]
    ctx.ob("AGL-sur", f.where, f"refused code points {[(hex(a), hex(b)) for a, b in rej] if rej else rej}", ok, "" if ok else "surrogates are D800..DFFF; E000 is a valid private-use code point that TTFont names uniE000")
    g = mod.func("_uToUnicode")
    acc = None
    for n in walk_no_nested(g.node):
        if isinstance(n, ast.If) and any(isinstance(b, ast.Return) for b in n.body):
            r = _intervals_of(n.test, "value")
            if r:
                acc = sorted(r)
    ok = acc == [(0, 0xD7FF), (0xE000, 0x10FFFF)]
    ctx.ob("AGL-sur", g.where, f"accepted code points {[(hex(a), hex(b)) for a, b in acc] if acc else acc}", ok)
    if rej and acc and len(acc) == 2:
        hole = (acc[0][1] + 1, acc[1][0] - 1)
        ctx.ob("AGL-sur", mod.rel + ":<module>", f"hole of the u-form {tuple(hex(x) for x in hole)} == refused range of the uni-form", [hole] == rej)



def _consts(node, kinds):
    """collect integer constants by role: shifts (>>, <<), masks (&), mod (%), steps (range third arg)"""
    out = {"rshift": [], "lshift": [], "and": [], "mod": [], "or": []}
    for n in ast.walk(node):
        if isinstance(n, ast.BinOp):
            k = {ast.RShift: "rshift", ast.LShift: "lshift", ast.BitAnd: "and", ast.Mod: "mod", ast.BitOr: "or"}.get(type(n.op))
            if not k:
                continue
            # a literal, or a named module constant that folds to one
            v = n.right.value if isinstance(n.right, ast.Constant) else (try_fold(n.right) if isinstance(n.right, (ast.Name, ast.Attribute)) else None)
            if isinstance(v, int) and not isinstance(v, bool):
                out[k].append(v)
    return {k: out[k] for k in kinds}


def text_helpers(ctx, repo):
    ctx.rule("TXT-pair", "textTools: hexStr prints the high nibble then the low nibble of each byte and deHexStr reads two digits per byte in base 16; num2binary emits the low bit first, prepends, and groups by 8, binary2num shifts left by one per digit; pad rounds up to the next multiple", floor=5)
    mod = repo.mod("misc/textTools.py")
    h = mod.func("hexStr")
    # the accumulating concatenation `acc = acc + <digit> + <digit>`, whatever the accumulator is called
    cat = next((st.value for st in ast.walk(h.node) if isinstance(st, ast.Assign) and isinstance(st.value, ast.BinOp) and isinstance(st.targets[0], ast.Name) and any(isinstance(x, ast.Name) and x.id == st.targets[0].id for x in ast.walk(st.value)) and any(isinstance(x, ast.BinOp) and isinstance(x.op, ast.RShift) for x in ast.walk(st.value))), None)
    parts = []
    n = cat
    while isinstance(n, ast.BinOp) and isinstance(n.op, ast.Add):
        parts.insert(0, n.right)
        n = n.left
    parts = [p_ for p_ in parts if not isinstance(p_, ast.Name)]
    roles = []
    for p_ in parts:
        c = _consts(p_, ("rshift", "and"))
        roles.append(("high" if c["rshift"] == [4] else "low" if not c["rshift"] else "?", c["and"]))
    ok = roles == [("high", [15]), ("low", [15])]
    ctx.ob("TXT-pair", h.where, f"hexStr appends {roles}", ok, "" if ok else "digits are not (byte >> 4) & 0xF followed by byte & 0xF")
    d = mod.func("deHexStr")
    rng = [c for c in calls_in(d.node) if call_name(c) == "range" and len(c.args) == 3]
    ints = [c for c in calls_in(d.node) if call_name(c) == "int" and len(c.args) == 2]
    width = None
    if ints and isinstance(ints[0].args[0], ast.Subscript) and isinstance(ints[0].args[0].slice, ast.Slice):
        lin = _linear_diff(ints[0].args[0].slice)
        width = lin
    env_ = module_env(repo, mod)
    ok = bool(rng) and try_fold(rng[0].args[2], env_) == 2 and bool(ints) and try_fold(ints[0].args[1], env_) == 16 and (width == 2 or isinstance(width, str) and try_fold(ast.parse(width, mode="eval").body, env_) == 2)
    ctx.ob("TXT-pair", d.where, f"deHexStr: step {try_fold(rng[0].args[2]) if rng else None}, digits per byte {width}, base {try_fold(ints[0].args[1]) if ints else None}", ok)
    padfix = [st for st in ast.walk(d.node) if isinstance(st, ast.Assign) and isinstance(st.value, ast.BinOp) and isinstance(st.value.op, ast.Add) and isinstance(st.value.right, ast.Constant) and st.value.right.value == "0" and norm(st.value.left) == norm(st.targets[0])]
    ctx.ob("TXT-pair", d.where, "an odd number of digits is completed with a trailing '0'", bool(padfix), "" if padfix else "the half byte is completed at the wrong end (or not at all)")
    nb, bn = mod.func("num2binary"), mod.func("binary2num")
    c1, c2 = _consts(nb.node, ("rshift", "and", "mod")), _consts(bn.node, ("lshift", "or"))
    # `acc = "<bit>" + acc` for both bit values; the group size may be a named constant
    pre = [st for st in ast.walk(nb.node) if isinstance(st, ast.Assign) and isinstance(st.targets[0], ast.Name) and isinstance(st.value, ast.BinOp) and isinstance(st.value.op, ast.Add) and isinstance(st.value.left, ast.Constant) and st.value.left.value in ("0", "1") and norm(st.value.right) == st.targets[0].id]
    mods_ = c1["mod"] or [try_fold(x.right, module_env(repo, mod)) for x in ast.walk(nb.node) if isinstance(x, ast.BinOp) and isinstance(x.op, ast.Mod)]
    ok = c1["rshift"] == [1] and c1["and"] == [1] and mods_ == [8] and len(pre) == 2 and {st.value.left.value for st in pre} == {"0", "1"} and c2["lshift"] == [1] and c2["or"] == [1]
    ctx.ob("TXT-pair", nb.where, f"num2binary {c1}, prepends each bit ({len(pre)} sites); binary2num {c2}", ok)
    pf = mod.func("pad")
    mods = [norm(n) for n in ast.walk(pf.node) if isinstance(n, ast.BinOp) and isinstance(n.op, ast.Mod)]
    subs = [norm(n) for n in ast.walk(pf.node) if isinstance(n, ast.BinOp) and isinstance(n.op, ast.Sub)]
    ok = mods == ["len(data) % size"] and subs == ["size - remainder"]
    ctx.ob("TXT-pair", pf.where, f"pad: remainder = {mods}, added {subs}", ok)


def _linear_diff(sl):
    """upper - lower of a slice when both are `i` / `i + k`"""
    from .otl import _linear

    if sl.lower is None or sl.upper is None:
        return None
    a, b = _linear(sl.lower), _linear(sl.upper)
    if a is None or b is None or a[0] != b[0]:
        # `i : i + NAMED_CONSTANT`
        lo, up = norm(sl.lower), norm(sl.upper)
        if isinstance(sl.upper, ast.BinOp) and isinstance(sl.upper.op, ast.Add) and norm(sl.upper.left) == lo:
            k = try_fold(sl.upper.right)
            return k if isinstance(k, int) else None
        return None
    return b[1] - a[1]


def sparse_bit_set(ctx, repo):
    ctx.rule("SBS", "IFT sparse bit set: header id<->branch factor maps are inverse, the header packs height << 2 | id and unpacks with the same shift and 2/5-bit masks, heights are capped by the spec's table, the bit streams write and read nodes with the same widths, masks and little-endian byte order, and the tree height is the smallest whose capacity exceeds the largest value", floor=7)
    mod = repo.mod("misc/iftSparseBitSet.py")
    cenv = module_env(repo, mod)
    eh, dh = mod.func("_encodeHeader"), mod.func("_decodeHeader")
    em = next((try_fold(st.value, cenv) for st in ast.walk(eh.node) if isinstance(st, ast.Assign) and isinstance(st.value, ast.Dict)), None)
    dm = next((try_fold(st.value, cenv) for st in ast.walk(dh.node) if isinstance(st, ast.Assign) and isinstance(st.value, ast.Dict)), None)
    ok = isinstance(em, dict) and isinstance(dm, dict) and {v: k for k, v in em.items()} == dm and sorted(dm) == [0, 1, 2, 3]
    ctx.ob("SBS", eh.where, f"branch factor -> id {em}; id -> branch factor {dm}", ok, "" if ok else "the two maps are not inverse of each other")
    ce, cd = _consts(eh.node, ("lshift",)), _consts(dh.node, ("rshift", "and"))
    ok = ce["lshift"] == [2] and cd["rshift"] == [2] and sorted(cd["and"]) == [3, 31]
    ctx.ob("SBS", dh.where, f"header: encode shifts {ce['lshift']}, decode shifts {cd['rshift']} and masks {sorted(cd['and'])}", ok)
    mh = try_fold(mod.const("_BF_MAX_HEIGHT"), cenv)
    ok = mh == {2: 31, 4: 16, 8: 11, 32: 7}
    ctx.ob("SBS", mod.rel + ":<module>", f"_BF_MAX_HEIGHT = {mh}", ok, "" if ok else "IFT: heights above 31/16/11/7 are invalid for branch factors 2/4/8/32")
    en = mod.func("encode")
    bfs = [try_fold(n.iter, cenv) for n in ast.walk(en.node) if isinstance(n, ast.For) and norm(n.target) == "branchFactor"]
    ok = bool(bfs) and isinstance(em, dict) and sorted(bfs[0]) == sorted(em)
    ctx.ob("SBS", en.where, f"encode tries branch factors {bfs[0] if bfs else None}", ok)
    caps = [n for n in ast.walk(en.node) if isinstance(n, ast.If) and "_BF_MAX_HEIGHT" in norm(n.test)]
    dcap = [n for n in ast.walk(mod.func("decode").node) if isinstance(n, ast.If) and "maxHeight" in norm(n.test)]
    ok = bool(caps) and isinstance(caps[0].test.ops[0], ast.Gt) and bool(dcap) and isinstance(dcap[0].test.ops[0], ast.Gt)
    ctx.ob("SBS", en.where, "encoder skips and decoder refuses exactly the heights above the cap (strict >)", ok)
    th = mod.func("_treeHeight")
    w = next((n for n in ast.walk(th.node) if isinstance(n, ast.While)), None)
    ok = w is not None and isinstance(w.test, ast.Compare) and norm(w.test.left) == "capacity" and isinstance(w.test.ops[0], ast.LtE) and norm(w.test.comparators[0]) == "maxValue"
    ctx.ob("SBS", th.where, f"height grows while {norm(w.test) if w is not None else None}", ok, "" if ok else "capacity must exceed maxValue: a value equal to bf**h needs one more level")
    rd, wr = mod.func("_InputBitStream.next"), mod.func("_OutputBitStream.write")

    def arms(fn):
        """per branch-factor class: (shift constants, index advances, sub-byte wrap bound), each statement being attributed to
        a class by the conditions on self.branchFactor that hold on every path to it (if/elif chain, early returns and
        guard clauses, local aliases all give the same attribution)"""
        from ..core import inline_locals

        g = CFG(fn.node)
        out = {}

        def il(e):
            return norm(inline_locals(fn.node, e))

        for st in walk_no_nested(fn.node):
            if not isinstance(st, ast.stmt) or isinstance(st, (ast.FunctionDef, ast.ClassDef)):
                continue
            key = None
            for t, pol in implied_atoms(g, st):
                if pol and isinstance(t, ast.Compare) and len(t.ops) == 1 and il(t.left) == "self.branchFactor" and isinstance(t.ops[0], (ast.In, ast.Eq)):
                    key = f"self.branchFactor {'in' if isinstance(t.ops[0], ast.In) else '=='} {norm(t.comparators[0])}"
            if key is None:
                continue
            sh, aug, wrap = out.setdefault(key, ([], [], []))
            part = st.test if isinstance(st, (ast.If, ast.While)) else st
            if isinstance(st, (ast.For, ast.With, ast.Try)):
                continue
            c = _consts(part, ("rshift", "lshift", "and"))
            sh.extend(c["rshift"] + c["lshift"])
            if isinstance(st, ast.AugAssign) and isinstance(st.op, ast.Add) and norm(st.target).endswith(("subIndex", "byteIndex")):
                aug.append(il(st.value))
            elif isinstance(st, ast.Assign) and norm(st.targets[0]).endswith(("subIndex", "byteIndex")) and isinstance(st.value, ast.BinOp) and isinstance(st.value.op, ast.Add) and il(st.value.left) == norm(st.targets[0]):
                aug.append(il(st.value.right))  # x = alias_of_x + n
            for n in ast.walk(part):
                if isinstance(n, ast.Compare) and il(n.left).endswith("subIndex") and isinstance(n.ops[0], ast.GtE):
                    wrap.append(try_fold(n.comparators[0]))
        return {k: (sorted(set(v[0])), sorted(v[1]), sorted(v[2])) for k, v in out.items()}

    ra, wa = arms(rd), arms(wr)
    ok = set(ra) == set(wa) and len(ra) == 3
    ctx.ob("SBS", rd.where, f"stream arms {sorted(ra)}", ok)
    for key in sorted(set(ra) & set(wa)):
        (rs, raug, rwrap), (ws, waug, wwrap) = ra[key], wa[key]
        if "32" in key:
            ok = [x for x in rs if x] == [8, 16, 24] and [x for x in ws if x] == [8, 16, 24] and raug == ["4"]
            ctx.ob("SBS", wr.where, f"{key}: 4 bytes little-endian, read shifts {rs}, write shifts {ws}, advance {raug}", ok)
        elif "8" in key and "2" not in key:
            ctx.ob("SBS", wr.where, f"{key}: one byte per node, advance {raug}", raug == ["1"])
        else:
            ok = raug == ["1", "self.branchFactor"] and waug == ["self.branchFactor"] and rwrap == [8] and wwrap == [8]
            ctx.ob("SBS", wr.where, f"{key}: sub-byte nodes advance by the branch factor and wrap at {rwrap}/{wwrap}", ok)
    # byte order of the 32-bit node: the writer appends value >> 0, 8, 16, 24 in that order; the reader or-s data[i + k] << 8k
    gw_, gr_ = CFG(wr.node), CFG(rd.node)

    def in32(g, fn, st):
        from ..core import inline_locals

        return any(pol and isinstance(t, ast.Compare) and len(t.ops) == 1 and isinstance(t.ops[0], ast.Eq) and norm(inline_locals(fn.node, t.left)) == "self.branchFactor" and try_fold(t.comparators[0]) == 32 for t, pol in implied_atoms(g, st))

    wseq = []
    for st in sorted((x for x in walk_no_nested(wr.node) if isinstance(x, ast.Expr) and isinstance(x.value, ast.Call) and last_attr(x.value) == "append" and x.value.args), key=lambda x: (x.lineno, x.col_offset)):
        if in32(gw_, wr, st):
            c = _consts(st.value.args[0], ("rshift",))["rshift"]
            wseq.append(c[0] if c else 0)
    rpairs = set()
    for st in walk_no_nested(rd.node):
        if isinstance(st, ast.Assign) and isinstance(st.value, ast.BinOp) and isinstance(st.value.op, ast.BitOr) and in32(gr_, rd, st):
            terms = []

            def flat_or(e):
                if isinstance(e, ast.BinOp) and isinstance(e.op, ast.BitOr):
                    flat_or(e.left)
                    flat_or(e.right)
                else:
                    terms.append(e)

            flat_or(st.value)
            for t in terms:
                sh = 0
                if isinstance(t, ast.BinOp) and isinstance(t.op, ast.LShift):
                    sh, t = try_fold(t.right), t.left
                if isinstance(t, ast.Subscript):
                    ix = t.slice
                    off = try_fold(ix.right) if isinstance(ix, ast.BinOp) and isinstance(ix.op, ast.Add) else 0
                    rpairs.add((off, sh))
    ok = wseq == [0, 8, 16, 24] and rpairs == {(0, 0), (1, 8), (2, 16), (3, 24)}
    ctx.ob("SBS", wr.where, f"32-bit node byte order: writer appends shifts {wseq}; reader combines (offset, shift) {sorted(rpairs, key=str)}", ok, "" if ok else "the four bytes of a 32-bit node are not written and read in the same little-endian order")
    from ..core import inline_locals as _il2

    masks = [norm(_il2(fn.node, st.value)) for fn in (rd, wr) for st in ast.walk(fn.node) if isinstance(st, ast.Assign) and norm(st.targets[0]) == "mask"]
    ctx.ob("SBS", rd.where, f"node mask on both sides: {masks}", masks == ["(1 << self.branchFactor) - 1"] * 2)


# ---------------------------------------------------------------------------
# F6 literal tables
# ---------------------------------------------------------------------------


def _dups(seq):
    seen, d = set(), []
    for x in seq:
        if x in seen:
            d.append(x)
        seen.add(x)
    return d


def f6_tables(ctx, repo):
    ctx.rule("F6", "literal code tables that are inverted at import are injective in both directions and well-formed", floor=10)
    ps = repo.mod("misc/psCharStrings.py")
    penv = module_env(repo, ps)
    for tname in ("t2Operators", "t1Operators"):
        try:
            tab = fold(ps.const(tname), penv)
        except Unknown as ex:
            raise AnalysisError(f"cannot fold {tname}: {ex}")
        codes = [t[0] for t in tab]
        names = [t[1] for t in tab]
        wf = all((isinstance(c, int) and 0 <= c <= 255) or (isinstance(c, tuple) and len(c) == 2 and c[0] == 12 and 0 <= c[1] <= 255) for c in codes)
        ctx.ob("F6", ps.rel + ":<module>", f"{tname}: {len(tab)} entries, opcodes unique", not _dups(codes), "" if not _dups(codes) else f"duplicate opcode {_dups(codes)}")
        ctx.ob("F6", ps.rel + ":<module>", f"{tname}: operator names unique", not _dups(names), "" if not _dups(names) else f"duplicate name {_dups(names)}")
        ctx.ob("F6", ps.rel + ":<module>", f"{tname}: opcodes well-formed (byte or (12, byte))", wf)
    # buildOperatorDict writes both maps from one loop item
    bod = ps.func("buildOperatorDict")
    stores = sorted(norm(n.targets[0]) + " = " + norm(n.value) for n in ast.walk(bod.node) if isinstance(n, ast.Assign) and isinstance(n.targets[0], ast.Subscript))
    want = sorted(["oper[item[0]] = item[1]", "oper[item[0]] = item[1:]", "opc[item[1]] = item[0]", "opc[item[1]] = (item[0],)"])
    ctx.ob("F6", bod.where, "forward and inverse built from the same item: " + " | ".join(stores), stores == want, "" if stores == want else "operator / opcode dictionaries are no longer built as inverses of one another")
    # realNibbles
    rn = fold(ps.const("realNibbles"), penv)
    vals = [v for v in rn if v is not None]
    ok = len(rn) == 15 and not _dups(vals) and rn[13] is None
    ctx.ob("F6", ps.rel + ":<module>", f"realNibbles: {len(rn)} entries, unique, nibble 0xD reserved, 0xF is the terminator (not a key)", ok)
    rnd = norm(ps.const("realNibblesDict"))
    ctx.ob("F6", ps.rel + ":<module>", "realNibblesDict = " + rnd, rnd == "{v: i for i, v in enumerate(realNibbles)}", "" if rnd == "{v: i for i, v in enumerate(realNibbles)}" else "inverse nibble table is not derived from realNibbles")
    # cffLib dict operator tables
    cff = repo.mod("cffLib/__init__.py")
    cenv = module_env(repo, cff)
    for tname in ("topDictOperators", "topDictOperators2", "privateDictOperators", "privateDictOperators2", "fontDictOperators2"):
        if tname not in cff.assigns:
            continue
        try:
            tab = fold(cff.const(tname), cenv)
        except Unknown as ex:
            ctx.note(f"{tname} not foldable: {ex}")
            continue
        codes = [t[0] for t in tab]
        names = [t[1] for t in tab]
        ctx.ob("F6", cff.rel + ":<module>", f"{tname}: {len(tab)} entries, opcodes and names unique", not _dups(codes) and not _dups(names), "" if not _dups(codes) and not _dups(names) else f"duplicates {_dups(codes)} {_dups(names)}")
        # every arg type has arg_<type> handler on both compiler and decompiler (F9 part)
        argtypes = set()
        for t in tab:
            at = t[2]
            if isinstance(at, tuple):
                argtypes.update(at)
            else:
                argtypes.add(at)
        dd = ps.cls("DictDecompiler")
        dc = cff.cls("DictCompiler")
        for at in sorted(argtypes):
            okd = repo.lookup_method(dd, "arg_" + at) is not None
            okc = repo.lookup_method(dc, "arg_" + at) is not None or at in ("blendList",)
            ctx.ob("F6", cff.rel + ":<module>", f"{tname}: argument type '{at}' has DictDecompiler.arg_{at} and DictCompiler.arg_{at}", okd and okc, "" if okd and okc else f"missing handler (decompiler={okd}, compiler={okc})")
    # woff2 known tags
    w2 = repo.mod("ttLib/woff2.py")
    kt = fold(w2.const("woff2KnownTags"), module_env(repo, w2))
    unk = try_fold(ast.Name("woff2UnknownTagIndex", ast.Load()), module_env(repo, w2))
    ok = len(kt) == 63 and not _dups(kt) and unk == 63 and all(len(t) == 4 for t in kt)
    ctx.ob("F6", w2.rel + ":<module>", f"woff2KnownTags: {len(kt)} unique 4-char tags; unknown-tag index {unk} == len", ok, "" if ok else "known-tag table is not an injective 63-entry table with 63 reserved")
    # cmap classes
    cm = repo.mod("ttLib/tables/_c_m_a_p.py")
    d = cm.const("cmap_classes")
    if isinstance(d, ast.Dict):
        keys = [try_fold(k) for k in d.keys]
        vals = [norm(v) for v in d.values]
        ok = not _dups(keys) and all(v == f"cmap_format_{k}" for k, v in zip(keys, vals))
        ctx.ob("F6", cm.rel + ":<module>", f"cmap_classes keys {keys} map to cmap_format_<key>", ok)


# ---------------------------------------------------------------------------
# F22 scale / constant agreement
# ---------------------------------------------------------------------------


def _inline_locals(fnode):
    """return the Return expression text with single-assignment locals inlined"""
    local = {}
    for st in fnode.body:
        if isinstance(st, ast.Assign) and isinstance(st.targets[0], ast.Name):
            local[st.targets[0].id] = st.value
    ret = [st for st in fnode.body if isinstance(st, ast.Return)]
    if not ret:
        return None

    class Sub(ast.NodeTransformer):
        def visit_Name(self, n):
            if n.id in local and isinstance(n.ctx, ast.Load):
                return self.visit(local[n.id])
            return n

    import copy

    return norm(Sub().visit(ast.parse(norm(ret[-1].value), mode="eval").body))  # clone without parent links (deepcopy would copy the whole module through them)


def f22_fixed_tools(ctx, repo):
    ctx.rule("F22-fixed", "every fixed<->float/str helper derives its scale from 1 << precisionBits, rounds with otRound when going to fixed, and passes factor=1/scale to the shortest-repr printer", floor=8)
    mod = repo.mod("misc/fixedTools.py")
    want = {
        "fixedToFloat": "value / (1 << precisionBits)",
        "floatToFixed": "otRound(value * (1 << precisionBits))",
        "floatToFixedToFloat": "otRound(value * (1 << precisionBits)) / (1 << precisionBits)",
        "fixedToStr": "nearestMultipleShortestRepr(value / (1 << precisionBits), factor=1.0 / (1 << precisionBits))",
        "strToFixed": "otRound(float(string) * (1 << precisionBits))",
        "strToFixedToFloat": "otRound(float(string) * (1 << precisionBits)) / (1 << precisionBits)",
        "floatToFixedToStr": "nearestMultipleShortestRepr(value, factor=1.0 / (1 << precisionBits))",
    }
    for name, w in want.items():
        f = mod.func(name)
        got = _inline_locals(f.node)
        ctx.ob("F22-fixed", f.where, f"returns {got}", got == w, "" if got == w else f"normal form differs from `{w}` (scale, rounding or direction changed)")
    # otRound itself: floor(x + 0.5)
    rt = repo.mod("misc/roundTools.py").func("otRound")
    got = _inline_locals(rt.node)
    ok = got == "int(math.floor(value + 0.5))"
    ctx.ob("F22-fixed", rt.where, f"otRound returns {got}", ok, "" if ok else "rounding rule is not floor(x + 0.5)")


def f22_eexec(ctx, repo):
    ctx.rule("F22-eexec", "eexec _encryptChar/_decryptChar share the key-update expression and constants and are mirror images in the xor step", floor=3)
    mod = repo.mod("misc/eexec.py")
    d, e = mod.func("_decryptChar"), mod.func("_encryptChar")

    # symbolic summaries over canonical parameter names (b = input byte string, K = key): local names, temporaries,
    # extracted helpers and named constants do not change them
    from ..core import sym_return
    from ..consteval import cnorm, env_of

    def summary(f):
        ps = [a.arg for a in f.node.args.args]
        if len(ps) != 2:
            return None, None
        r = sym_return(repo, f, 2, {ps[0]: ast.Name("b", ast.Load()), ps[1]: ast.Name("K", ast.Load())})
        if not isinstance(r, ast.Tuple) or len(r.elts) != 2:
            return None, None
        return cnorm(r.elts[0], env_of(f.node)), cnorm(r.elts[1], env_of(f.node))

    (dx, dk), (ex, ek) = summary(d), summary(e)
    XOR = "(byteord(b) ^ K >> 8) & 255"
    okx = dx == ex == f"bytechr({XOR})"
    ctx.ob("F22-eexec", mod.rel + ":<module>", f"xor step decrypt[{dx}] encrypt[{ex}]", okx, "" if okx else "xor steps are not mirror images: out = (in ^ (key >> 8)) & 0xFF in both directions")
    okR = dk == "(byteord(b) + K) * 52845 + 22719 & 65535"
    ctx.ob("F22-eexec", mod.rel + ":<module>", f"decrypt key update [{dk}]", okR, "" if okR else "key schedule differs from the Type 1 constants (c1=52845, c2=22719, 16-bit key) or does not feed back the ciphertext byte")
    oke = ek == f"(({XOR}) + K) * 52845 + 22719 & 65535"
    ctx.ob("F22-eexec", mod.rel + ":<module>", f"encrypt key update [{ek}]", oke, "" if oke else "the encrypt key update must use the cipher byte produced in this step (ciphertext feedback) with the same constants")


def f22_time(ctx, repo):
    ctx.rule("F22-time", "timestampToString adds and timestampFromString/timestampNow/timestampSinceEpoch subtract the same epoch_diff (1904 epoch)", floor=4)
    mod = repo.mod("misc/timeTools.py")
    ed = norm(mod.const("epoch_diff"))
    ctx.ob("F22-time", mod.rel + ":<module>", "epoch_diff = " + ed, ed == "calendar.timegm((1904, 1, 1, 0, 0, 0, 0, 0, 0))", "" if ed == "calendar.timegm((1904, 1, 1, 0, 0, 0, 0, 0, 0))" else "epoch is not 1904-01-01T00:00:00Z")
    signs = {}
    for fn in ("timestampToString", "timestampFromString", "timestampNow", "timestampSinceEpoch"):
        f = mod.func(fn)
        s = set()
        for n in ast.walk(f.node):
            if isinstance(n, ast.BinOp) and isinstance(n.right, ast.Name) and n.right.id == "epoch_diff":
                s.add("+" if isinstance(n.op, ast.Add) else "-" if isinstance(n.op, ast.Sub) else "?")
        signs[fn] = s
    want = {"timestampToString": {"+"}, "timestampFromString": {"-"}, "timestampNow": {"-"}, "timestampSinceEpoch": {"-"}}
    for fn in want:
        ctx.ob("F22-time", f"{mod.rel}:{fn}", f"epoch_diff applied with {sorted(signs[fn])}", signs[fn] == want[fn], "" if signs[fn] == want[fn] else f"expected {sorted(want[fn])}")
    # month/day name tables: 12 / 7 unique entries
    days = fold(mod.const("DAYNAMES"))
    months = fold(mod.const("MONTHNAMES"))
    ok = len(days) == 7 and not _dups(days) and len(months) == 13 and months[0] is None and not _dups(months[1:])
    ctx.ob("F22-time", mod.rel + ":<module>", "DAYNAMES 7 unique, MONTHNAMES None + 12 unique", ok)


def f22_sstruct(ctx, repo):
    ctx.rule("F22-sstruct", "sstruct.pack and unpack apply the fixed-point helpers with the same per-field bits and iterate names in the same order", floor=4)
    mod = repo.mod("misc/sstruct.py")
    p, u = mod.func("pack"), mod.func("unpack")
    pc = [norm(c) for c in calls_in(p.node) if call_name(c) == "fl2fi"]
    uc = [norm(c) for c in calls_in(u.node) if call_name(c) == "fi2fl"]
    ctx.ob("F22-sstruct", p.where, f"pack: {pc}", pc == ["fl2fi(value, fixes[name])"])
    ctx.ob("F22-sstruct", u.where, f"unpack: {uc}", uc == ["fi2fl(value, fixes[name])"])
    imp = (mod.imports.get("fi2fl"), mod.imports.get("fl2fi"))
    ok = imp == ("fontTools.misc.fixedTools.fixedToFloat", "fontTools.misc.fixedTools.floatToFixed")
    ctx.ob("F22-sstruct", mod.rel + ":<module>", f"fi2fl/fl2fi bound to {imp}", ok)
    def base(e):
        """what a for-loop iterates, with order-preserving wrappers removed: enumerate(x), list(x), x.keys(), x.items()"""
        while True:
            if isinstance(e, ast.Call) and isinstance(e.func, ast.Name) and e.func.id in ("enumerate", "list", "iter", "tuple") and e.args:
                e = e.args[0]
            elif isinstance(e, ast.Call) and isinstance(e.func, ast.Attribute) and e.func.attr in ("keys", "items") and not e.args:
                e = e.func.value
            else:
                return norm(e)

    it = [base(n.iter) for f in (p, u) for n in ast.walk(f.node) if isinstance(n, ast.For)]
    ok = it == ["names", "names"]
    ctx.ob("F22-sstruct", mod.rel + ":<module>", f"field iteration {it}", ok, "" if ok else "pack and unpack no longer iterate the same ordered name table")
    fm = fold(mod.const("_fixedpointmappings"))
    ok = fm == {8: "b", 16: "h", 32: "l"}
    ctx.ob("F22-sstruct", mod.rel + ":<module>", f"_fixedpointmappings {fm} (signed codes of the same width)", ok)


def tag_ident(ctx, repo):
    ctx.rule("TAGID", "tagToIdentifier / identifierToTag escape classes agree: lower/digit -> '_c', upper -> 'C_', other -> two hex digits; the decoder tests the same three classes", floor=4)
    mod = repo.mod("ttLib/ttFont.py")
    esc = mod.func("_escapechar")
    # each return of _escapechar with the character class that holds on every path to it (if/elif/else, separate ifs with
    # early returns and swapped arms all read the same)
    gesc = CFG(esc.node)
    classes = []
    for st in walk_no_nested(esc.node):
        if isinstance(st, ast.Return) and st.value is not None:
            pos = [t for t, pol in implied_atoms(gesc, st) if pol and isinstance(t, ast.Call) and call_name(t) == "re.match"]
            classes.append((try_fold(pos[0].args[0]) if pos else None, norm(st.value)))
    classes.sort(key=str)
    want = [("[a-z0-9]", "'_' + c"), ("[A-Z]", "c + '_'"), (None, "hex(byteord(c))[2:]")]
    want = sorted(want, key=str)
    ctx.ob("TAGID", esc.where, f"escape classes {classes}", classes == want, "" if classes == want else f"expected {want}")
    itt = mod.func("identifierToTag")
    tests = [norm(n.test) for n in ast.walk(itt.node) if isinstance(n, (ast.If, ast.IfExp))]
    tests_n = [t.replace("!=", "==") for t in tests]  # the complement test distinguishes the same classes
    ok = "ident[i] == '_'" in tests_n and "ident[i + 1] == '_'" in tests_n
    ctx.ob("TAGID", itt.where, f"decoder class tests {tests}", ok, "" if ok else "decoder no longer distinguishes '_c' / 'C_' / hex pairs")
    steps = [norm(c) for c in calls_in(itt.node) if call_name(c) == "range"]
    ctx.ob("TAGID", itt.where, f"decoder consumes two characters per tag character: {steps}", steps == ["range(0, len(ident), 2)"])
    hexd = [norm(c) for c in calls_in(itt.node) if call_name(c) == "int"]
    ctx.ob("TAGID", itt.where, f"hex pair decoding {hexd}", hexd == ["int(ident[i:i + 2], 16)"])
    # xml name mangling
    t2x, x2t = mod.func("tagToXML"), mod.func("xmlToTag")
    a = sorted(str(try_fold(n.comparators[0])) for n in ast.walk(t2x.node) if isinstance(n, ast.Compare) and isinstance(n.ops[0], ast.Eq) and isinstance(n.comparators[0], ast.Constant))
    b = sorted(str(try_fold(n.comparators[0])) for n in ast.walk(x2t.node) if isinstance(n, ast.Compare) and isinstance(n.ops[0], ast.Eq) and isinstance(n.comparators[0], ast.Constant))
    ra = sorted(norm(n.value) for n in ast.walk(t2x.node) if isinstance(n, ast.Return))
    rb = sorted(norm(n.value) for n in ast.walk(x2t.node) if isinstance(n, ast.Return))
    ctx.note(f"tagToXML special cases {a} returns {ra}; xmlToTag special cases {b} returns {rb}")
    ok = "OS/2" in a and "OS_2" in b and "'OS_2'" in ra and ("Tag('OS/2')" in rb or "'OS/2'" in rb)
    ctx.ob("TAGID", mod.rel + ":<module>", f"tagToXML {a}->{ra} ; xmlToTag {b}->{rb}", ok, "" if ok else "OS/2 <-> OS_2 special case is not mirrored")




def ttprogram_push(ctx, repo):
    ctx.rule("F5-ttpush", "TrueType push operands: the assembler accepts words in the int16 range and bytes in the uint8 range and emits big-endian halves; the disassembler rebuilds the word and sign-extends exactly from 0x8000 with a wrap of 0x10000", floor=6)
    m = repo.mod("ttLib/tables/ttProgram.py")
    env = module_env(repo, m)
    a = m.func("Program._assemble")
    d = m.func("Program._disassemble")
    wr = []
    by = []
    for n in ast.walk(a.node):
        if isinstance(n, ast.Assert) and isinstance(n.test, ast.Compare) and len(n.test.ops) == 2 and norm(n.test.comparators[0]) == "value":
            lo, hi = try_fold(n.test.left, env), try_fold(n.test.comparators[1], env)
            if isinstance(n.test.ops[1], ast.Lt):
                hi -= 1
            (wr if lo < 0 else by).append((lo, hi))
    ok = bool(wr) and all(r == code_range("h") for r in wr)
    ctx.ob("F5-ttpush", a.where, f"word operands asserted in {sorted(set(wr))} == int16", ok, "" if ok else "assembler accepts words the bytecode cannot hold (or rejects valid ones)")
    ok = bool(by) and all(r == code_range("B") for r in by)
    ctx.ob("F5-ttpush", a.where, f"byte operands asserted in {sorted(set(by))} == uint8", ok)
    halves = sorted({norm(c.args[0]) for c in calls_in(a.node) if call_name(c) == "push" and "value" in norm(c.args[0]) and norm(c.args[0]) != "value"})
    ok = halves == ["value & 255", "value >> 8 & 255"]
    ctx.ob("F5-ttpush", a.where, f"words emitted as {halves}", ok, "" if ok else "word is not emitted as big-endian high/low byte")
    reb = [norm(n.value) for n in ast.walk(d.node) if isinstance(n, ast.Assign) and norm(n.targets[0]) == "value" and "<<" in norm(n.value)]
    ok = reb == ["bytecode[i] << 8 | bytecode[i + 1]"]
    ctx.ob("F5-ttpush", d.where, f"word rebuilt as {reb}", ok)
    sx = [(norm(n.test), [norm(s) for s in n.body]) for n in ast.walk(d.node) if isinstance(n, ast.If) and norm(n.test).startswith("value >")]
    ok = len(sx) == 1 and try_fold(ast.parse(sx[0][0].split(" ", 2)[2], mode="eval").body) == 0x8000 and sx[0][0].split(" ")[1] == ">=" and sx[0][1] == ["value = value - 65536"]
    ctx.ob("F5-ttpush", d.where, f"sign extension: {sx}", ok, "" if ok else "sign extension boundary/wrap differs from int16 (a pushed -32768 or 32767 is dumped wrongly)")
    steps = [norm(n.value) for n in ast.walk(d.node) if isinstance(n, ast.Assign) and norm(n.targets[0]) == "i" and norm(n.value) in ("i + 2", "i + 1")]
    ctx.ob("F5-ttpush", d.where, f"cursor advances {sorted(set(steps))}", "i + 2" in steps and "i + 1" in steps)
    # optimiser: byte/word split of PUSH[ ] args
    tests = sorted({norm(n) for n in ast.walk(a.node) if isinstance(n, ast.Compare) and len(n.ops) == 2 and "args[" in norm(n.comparators[0])})
    ok = bool(tests) and all(t.startswith("0 <= args[") and t.endswith("<= 255") for t in tests)
    ctx.ob("F5-ttpush", a.where, f"PUSH[ ] optimiser classifies bytes with {tests}", ok)


ALL = [ttprogram_push, f5_ps_operands, f5_uint32var, f5_255ushort, f5_base128, f5_points, f5_deltas, f5_subr_bias, f6_tables, f22_fixed_tools, f22_eexec, f22_time, f22_sstruct, tag_ident, f5_triplets, f5_offsize, f5_rebias, f5_device, f5_halved_offsets, agl_surrogates, text_helpers, sparse_bit_set]

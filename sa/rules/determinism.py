"""C16: F12 SET-ORDER, F13 AMBIENT, F11 COMPILE-PURITY, lazy-mode independence,
interning order."""

from __future__ import annotations

import ast
import re

from ..core import AnalysisError, norm, walk_no_nested, calls_in, call_name, last_attr, parent, dotted_name
from ..consteval import try_fold
from ..cfg import CFG, guard_conditions
from . import setorder

# Modules whose output the property's pipelines produce.  Sites elsewhere are
# reported in evidence but not armed (plots, benchmarks, interactive tools).
ARMED_PREFIXES = ("ttLib/", "feaLib/", "otlLib/", "subset/", "varLib/", "merge/", "cffLib/", "colorLib/", "designspaceLib/", "misc/", "fontBuilder.py", "ttx.py", "mtiLib/", "voltLib/")
UNARMED = ("varLib/interpolatable", "varLib/plot.py", "misc/symfont.py", "varLib/avarPlanner.py")

# Audited order-insensitive consumptions of unordered containers.
# key: (module, function, construct) ; value: reason (one line)
SET_AUDIT = {
    ("cffLib/transforms.py", "remove_hints", "for charstring in css"): "per-element in-place mutation of distinct charstrings; no shared accumulator",
    ("designspaceLib/statNames.py", "getStatNames", "for language in set(familyNames).union(styleNames.keys())"): "fills a dict keyed by language; designspace writer and name builders sort language codes before emitting",
    ("designspaceLib/statNames.py", "getStatNames", "for language in languages"): "fills a dict keyed by language; consumers sort",
    ("feaLib/builder.py", "Builder.getMarkAttachClass_", "for glyph in glyphs"): "fills a dict keyed by glyph consumed through lookups; class definitions are sorted by glyph id at compile; only the text of a duplicate error could differ",
    ("feaLib/parser.py", "Parser.parse_featureNames_", "for symtab in self.symbol_tables_"): "enter/exit scope on each of a fixed set of distinct symbol tables; commutative",
    ("feaLib/parser.py", "Parser.parse_cvParameters_", "for symtab in self.symbol_tables_"): "same",
    ("feaLib/parser.py", "Parser.parse_cvNameIDs_", "for symtab in self.symbol_tables_"): "same",
    ("feaLib/parser.py", "Parser.parse_block_", "for symtab in self.symbol_tables_"): "same",
    ("merge/__init__.py", "Merger.mergeObjects", "for key in allKeys"): "setattr of independently merged values per key; struct-backed tables compile in format order",
    ("merge/base.py", "mergeObjects", "for key in allKeys"): "same as Merger.mergeObjects",
    ("misc/classifyTools.py", "Classifier.add", "iter(intersection)"): "all members of `intersection` map to the same class object (invariant of the classifier), any representative gives the same old_class",
    ("misc/classifyTools.py", "Classifier.add", "for thing in difference"): "assigns the same value to every key; Classifier.getClasses sorts before returning",
    ("misc/iftSparseBitSet.py", "_encodeWithBf", "for v in valueSet"): "commutative |= accumulation into a dict read back by key in BFS order",
    ("otlLib/builder.py", "buildLigCaretList", "dictcomp over glyphs: {g: buildLigGlyph(coords.get(g), points.get(g)) for g in glyphs}"): "dict read back through buildCoverage(), which sorts by glyph id",
    ("otlLib/builder.py", "_buildMathGlyphInfo", "for side in {'TopRight', 'TopLeft', 'BottomRight', 'BottomLeft'}"): "setattr of four independent fields",
    ("subset/__init__.py", "_remap_select_name_ids", "for nameId in needRemapping"): "set of ints: iteration order does not depend on the hash seed; ids are only required to be unused",
    ("subset/__init__.py", "Subsetter._closure_glyphs", "dictcomp over self.glyphs_emptied: {g: order[g] for g in self.glyphs_emptied}"): "lookup map; its single iteration (_remap_index_map) overwrites existing keys only",
    ("subset/__init__.py", "Subsetter._closure_glyphs", "dictcomp over self.glyphs_retained: {g: order[g] for g in self.glyphs_retained}"): "lookup map; consumers take max()/set of values or index by key",
    ("subset/__init__.py", "Subsetter._closure_glyphs", "listcomp over self.unicodes_missing: ['U+%04X' % u for u in self.unicodes_missing]"): "diagnostic message only",
    ("subset/svg.py", "subset_glyphs", "genexp over gids: (glyph_index_map[i] for i in gids)"): "consumed by ranges(), which sorts",
    ("ttLib/reorderGlyphs.py", "reorderGlyphs", "for tag in coverage_containers"): "independent in-place rewrite per table",
    ("ttLib/scaleUpem.py", "visit", "for private in privates"): "per-element in-place scaling of distinct Private dicts",
    ("ttLib/tables/_n_a_m_e.py", "table__n_a_m_e.removeUnusedNames", "for nameID in toDelete"): "independent deletions",
    ("ttLib/ttGlyphSet.py", "LerpGlyphSet.__iter__", "iter(set1.intersection(set2))"): "mapping key iteration of an interpolation helper; not a numbering site",
    ("varLib/featureVars.py", "overlayBox", "for axisTag in set(top) & set(bot)"): "fills a box dict that is wrapped in hashdict (order-free equality) and whose items are sorted when condition tables are built",
    ("varLib/instancer/__init__.py", "instantiateAvar", "for axis in pinnedAxes"): "overwrites existing keys only (guarded by `if axis in segments`)",
    ("varLib/instancer/names.py", "checkAxisValuesExist", "genexp over missingAxes: (f\"'{i}': {axisCoords[i]}\" for i in missingAxes)"): "error message only",
    ("varLib/instancer/names.py", "_updateNameRecords", "for platform in platforms"): "tuples of ints (seed independent); name records are sorted on compile",
    ("varLib/merger.py", "merge", "for k in allKeys"): "fills ClassDef.classDefs; ClassDef.preWrite sorts by glyph id",
    ("varLib/models.py", "VariationModel.__init__", "dictcomp over allAxes: {axis: (-1, 1) for axis in allAxes}"): "axis range lookup table, read by key",
    ("varLib/models.py", "VariationModel.computeAxisRanges", "for axis in allAxes"): "axis range lookup table, read by key",
}

SET_AUDIT.update({
    ("subset/__init__.py", "subset_glyphs", 'dictcomp over s.glyphs: {g: strike.glyphs[g] for g in s.glyphs if g in strike.glyphs}'): "glyph-name-keyed table dict: compile and toXML of these tables walk the font's glyph order / sort by glyph id (hmtx, vmtx, hdmx, glyf, sbix, COLR v0, AAT lookups spot-checked), so insertion order never reaches output",
    ("subset/__init__.py", "subset_glyphs", 'for g in s.glyphs_emptied'): "glyph-name-keyed table dict: compile and toXML of these tables walk the font's glyph order / sort by glyph id (hmtx, vmtx, hdmx, glyf, sbix, COLR v0, AAT lookups spot-checked), so insertion order never reaches output; or per-glyph in-place emptying",
    ("subset/__init__.py", "subset_glyphs", 'dictcomp over s.glyphs: {g: prop.Properties.get(g, prop.DefaultProperties) for g in s.glyphs}'): "glyph-name-keyed table dict: compile and toXML of these tables walk the font's glyph order / sort by glyph id (hmtx, vmtx, hdmx, glyf, sbix, COLR v0, AAT lookups spot-checked), so insertion order never reaches output",
    ("subset/__init__.py", "subset_glyphs", 'dictcomp over s.glyphs: {g: self.ColorLayers[g] for g in s.glyphs if g in self.ColorLayers}'): "glyph-name-keyed table dict: compile and toXML of these tables walk the font's glyph order / sort by glyph id (hmtx, vmtx, hdmx, glyf, sbix, COLR v0, AAT lookups spot-checked), so insertion order never reaches output",
    ("subset/cff.py", "subset_glyphs", "for g in s.glyphs_emptied"): "per-glyph in-place emptying of distinct charstrings",
    ("subset/cff.py", "closure_glyphs", "for g in decompose"): "accumulates into a set (components); commutative",
})
# dictcomps over s.glyphs in the AAT subsetters: texts are long, matched by prefix
SET_AUDIT_PREFIX = {
    ("subset/__init__.py", "subset_glyphs", "dictcomp over s.glyphs: {glyph: table."): "AAT lookup dicts keyed by glyph name; AATLookup.write sorts by glyph id",
}

SET_AUDIT[("voltLib/voltToFea.py", "VoltToFea._gposLookup", "for glyphname in marks")] = "fills self._markclasses, emitted through sorted(self._markclasses.items())"

RECEIVERS = {
    # module prefix -> {receiver name: (module, class)}
    "subset/": {"s": ("subset/__init__.py", "Subsetter"), "subsetter": ("subset/__init__.py", "Subsetter")},
}


_TARGET_RE = re.compile(r"\bfor (\(?[A-Za-z_][\w, ()]*?\)?) in ")


def _canon_site(text):
    """site text with its loop / comprehension variables alpha-renamed (textual, works on truncated texts)"""
    names = []
    for m in _TARGET_RE.finditer(text):
        for nm in re.findall(r"[A-Za-z_]\w*", m.group(1)):
            if nm not in names:
                names.append(nm)
    out = text
    for i, nm in enumerate(names):
        out = re.sub(r"(?<![\w.])%s\b" % re.escape(nm), "_v%d" % i, out)
    return out


def _armed(rel):
    return rel.startswith(ARMED_PREFIXES) and not rel.startswith(UNARMED)


def f12_set_order(ctx, repo, scope=None, rule="F12"):
    ctx.rule(rule, "no iteration over an unordered container (set / frozenset / set algebra / dict-view algebra) feeds an order-sensitive consumer, except audited sites whose reason is recorded", floor=30 if scope is None else 1)
    n_total = n_sens = 0
    unarmed = []
    rels = sorted(repo.rels())
    for rel in rels:
        if scope is not None and not rel.startswith(scope):
            continue
        mod = repo.mod(rel)
        sites = setorder.find_sites(repo, mod)
        for f, kind, e, text, sens in sites:
            n_total += 1
            if not sens:
                ctx.ob(rule, f.where, text, True, "insensitive consumer", nontrivial=True)
                continue
            n_sens += 1
            if not _armed(rel):
                unarmed.append(f"{f.where} :: {text}")
                continue
            key = (rel, f.qual.split("#")[0], text)
            reason = SET_AUDIT.get(key)
            if reason is None:
                for (r2, f2, pre), why in SET_AUDIT_PREFIX.items():
                    if r2 == key[0] and f2 == key[1] and text.startswith(pre):
                        reason = why
            if reason is None:
                # the same construct after a behaviour-preserving edit: loop / comprehension variables renamed, or the
                # statement moved into another function of the module (extract method)
                ct = _canon_site(text)
                for (r2, f2, t2), why in SET_AUDIT.items():
                    if r2 == rel and _canon_site(t2) == ct:
                        reason = why
                        break
                if reason is None:
                    for (r2, f2, pre), why in SET_AUDIT_PREFIX.items():
                        if r2 == rel and ct.startswith(_canon_site(pre)):
                            reason = why
            ctx.ob(rule, f.where, text, reason is not None, ("audited: " + reason) if reason else "unordered iteration reaches an order-sensitive consumer (list/str building, numbering, dict population, first-element pick)")
    ctx.info.setdefault("set_sites", {})[rule] = {"total": n_total, "sensitive": n_sens, "unarmed_reported": unarmed[:50]}


AMBIENT_CALLS = {
    "time.time", "time.localtime", "time.gmtime", "time.strftime", "time.ctime", "time.monotonic", "time.perf_counter",
    "datetime.now", "datetime.today", "datetime.utcnow", "datetime.datetime.now", "datetime.datetime.today", "date.today",
    "os.getenv", "os.getcwd", "os.getpid", "os.getlogin", "os.uname", "os.path.getmtime", "os.path.getctime", "os.stat", "os.urandom",
    "uuid.uuid1", "uuid.uuid4", "platform.system", "platform.node", "platform.platform", "socket.gethostname", "getpass.getuser",
    "environ.get", "os.environ.get",
}
AMBIENT_AUDIT = {
    ("misc/timeTools.py", "asctime", "time.localtime"): "only when called without a time tuple; TTX/compile paths always pass gmtime(value)",
    ("misc/timeTools.py", "asctime", "time.strftime"): "formats the tuple it is given",
    ("misc/timeTools.py", "timestampToString", "time.gmtime"): "gmtime(value): pure function of its argument",
    ("misc/timeTools.py", "timestampNow", "os.environ.get"): "SOURCE_DATE_EPOCH pins the clock",
    ("misc/timeTools.py", "timestampNow", "time.time"): "the one clock read of the library; callers are checked separately",
    ("ttx.py", "ttCompile", "os.path.getmtime"): "CLI default for head.modified when recalcTimestamp is unset: documented ttx behaviour",
    ("otlLib/optimize/gpos.py", "_compression_level_from_env", "os.environ"): "documented GPOS compaction switch",
    ("feaLib/builder.py", "Builder.build", "os.environ.get"): "LOOKUP_DEBUG debugging switch (adds a Debg table only when set)",
    ("mtiLib/__init__.py", "parseGSUBGPOS", "os.environ.get"): "LOOKUP_DEBUG debugging switch",
    ("ttLib/__init__.py", "debugmsg", "time.strftime"): "legacy debug print helper, not called by the library",
    ("ttLib/__init__.py", "debugmsg", "time.localtime"): "legacy debug print helper",
    ("ttLib/__init__.py", "debugmsg", "time.time"): "legacy debug print helper",
    ("misc/xmlReader.py", "XMLReader._startElementHandler", "os.getcwd"): "fallback directory for src= includes when reading from an unnamed stream",
    ("feaLib/lexer.py", "IncludingLexer.__next__", "os.getcwd"): "fallback directory for include() when the including file has no path",
    ("afmLib.py", "AFM.write", "time.localtime"): "AFM comment header (not an sfnt pipeline)",
    ("afmLib.py", "AFM.write", "time.time"): "AFM comment header",
    ("afmLib.py", "AFM.write", "time.strftime"): "AFM comment header",
    ("diff/__init__.py", "_get_pager", "os.getenv"): "CLI pager",
    ("diff/utils.py", "get_file_modtime", "os.stat"): "diff header",
    ("misc/loggingTools.py", "*", "*"): "logging / timing utilities, not font output",
}
AMBIENT_MODULE_OK = ("qu2cu/benchmark.py", "cu2qu/benchmark.py", "misc/loggingTools.py", "varLib/interpolatable", "diff/", "misc/filesystem/", "help.py", "ufoLib/")


def _ambient_reads(mod):
    out = []
    for n in ast.walk(mod.tree):
        what = None
        if isinstance(n, ast.Call):
            nm = call_name(n)
            if nm in AMBIENT_CALLS:
                # gmtime(x)/strftime(fmt, t)/localtime(x) with an explicit time argument are pure
                if nm in ("time.gmtime", "time.localtime", "time.ctime") and n.args:
                    what = nm  # still inventoried (audited as pure)
                else:
                    what = nm
            elif nm and nm.split(".")[0] == "random" and nm != "random.seed":
                what = "random.*"
        elif isinstance(n, ast.Attribute) and dotted_name(n) == "os.environ" and not (isinstance(parent(n), ast.Attribute) and parent(n).attr == "get"):
            what = "os.environ"
        if what:
            out.append((n, what))
    return out


def f13_ambient(ctx, repo):
    from .safety import _func_qual_of

    ctx.rule("F13a", "every read of clock / environment / cwd / randomness / file mtime in the package is an audited site", floor=10)
    ctx.rule("F13b", "the only clock read reachable from a table compile is timestampNow(), called only under `if ttFont.recalcTimestamp`; TTCollection pins one shared timestamp under the same flag", floor=3)
    for rel in sorted(repo.rels()):
        if rel.startswith(AMBIENT_MODULE_OK):
            continue
        mod = repo.mod(rel)
        for node, what in _ambient_reads(mod):
            fq = _func_qual_of(mod, node)
            key = (rel, fq, what)
            ok = key in AMBIENT_AUDIT or (rel, "*", "*") in AMBIENT_AUDIT
            if not ok:
                # the audited read moved into another function of the same module (extract function): same module, same source
                alt = [k for k in AMBIENT_AUDIT if k[0] == rel and k[2] == what]
                here = [1 for n2, w2 in _ambient_reads(mod) if w2 == what]
                if alt and len(here) <= len(alt):
                    key = alt[0]
                    ok = True
            ctx.ob("F13a", f"{rel}:{fq}", what, ok, ("audited: " + AMBIENT_AUDIT.get(key, "")) if ok else "new ambient input (time/env/cwd/random) in library code")
    # timestampNow callers
    callers = []
    for rel in sorted(repo.rels()):
        mod = repo.mod(rel)
        if rel == "misc/timeTools.py":
            continue
        for c in calls_in(mod.tree):
            if call_name(c) == "timestampNow":
                callers.append((rel, mod, c))
    allowed = {
        ("ttLib/tables/_h_e_a_d.py", "table__h_e_a_d.compile"): "guard",
        ("ttLib/ttCollection.py", "_sharedModifiedTimestamp"): "shared",
        ("fontBuilder.py", "FontBuilder.__init__"): "build-time default for a new font's created/modified (constructing a font, not saving one)",
        ("merge/util.py", "current_time"): "merge policy for head.created/modified of the merged font",
    }
    for rel, mod, c in callers:
        fq = _func_qual_of(mod, c)
        kind = allowed.get((rel, fq))
        if kind == "guard":
            from ..cfg import implied_conditions as _ic

            fobj = mod.func(fq)
            facts = _ic(CFG(fobj.node), c)
            conds = sorted(t for t, pol in facts if pol)
            ok = any(t.endswith(".recalcTimestamp") for t in conds)
            ctx.ob("F13b", f"{rel}:{fq}", "timestampNow() under " + " and ".join(conds), ok, "" if ok else "head.modified is restamped without the recalcTimestamp guard")
        elif kind == "shared":
            f = mod.func(fq)
            # the value `now` is stored into a font only under `if font.recalcTimestamp and ...`
            stores = [n for n in ast.walk(f.node) if isinstance(n, ast.Assign) and norm(n.value) == "now" and ".modified" in norm(n.targets[0])]
            from ..cfg import implied_conditions as _ic

            gs = CFG(f.node)
            ok = bool(stores) and all(any("recalcTimestamp" in t and pol for t, pol in _ic(gs, s_)) for s_ in stores)
            ctx.ob("F13b", f"{rel}:{fq}", "shared timestamp stored only under font.recalcTimestamp", ok)
        else:
            ctx.ob("F13b", f"{rel}:{fq}", "timestampNow()", kind is not None, ("audited: " + kind) if kind else "new caller of the clock")
    # SOURCE_DATE_EPOCH honoured before the clock is read
    tn = repo.mod("misc/timeTools.py").func("timestampNow")
    g = CFG(tn.node)
    clock = [c for c in calls_in(tn.node) if call_name(c) == "time.time"]
    envr = [c for c in calls_in(tn.node) if call_name(c) == "os.environ.get" and c.args and try_fold(c.args[0]) == "SOURCE_DATE_EPOCH"]  # literal or named constant
    ok = bool(clock) and bool(envr) and all(g.dominates(g.id_of(envr[0]), g.id_of(c)) for c in clock)
    # the early return when the variable is set
    rets = [n for n in ast.walk(tn.node) if isinstance(n, ast.Return) and "source_date_epoch" in norm(n.value)]
    from ..cfg import implied_conditions as _ic

    # the variable's value is returned only when it is set, and the clock is read only when it is not
    var = next((norm(n.targets[0]) for n in ast.walk(tn.node) if isinstance(n, ast.Assign) and any(x is envr[0] for x in ast.walk(n.value))), "source_date_epoch") if envr else "source_date_epoch"
    rets = [n for n in ast.walk(tn.node) if isinstance(n, ast.Return) and var in norm(n.value)]
    ok = ok and bool(rets) and all((f"{var} is None", False) in _ic(g, r) for r in rets) and all((f"{var} is None", True) in _ic(g, c) for c in clock)
    ctx.ob("F13b", tn.where, "SOURCE_DATE_EPOCH read dominates time.time(); early return when set", ok)



def tz_independence(ctx, repo):
    """time-zone independence of the head timestamp codecs"""
    ctx.rule("F13z", "timestamp <-> string conversion does not depend on the process time zone: formatting goes through time.gmtime, parsing makes the datetime UTC-aware (tzinfo=timezone.utc) or uses calendar.timegm before taking .timestamp(); localtime/mktime are confined to asctime's no-argument default", floor=3)
    mod = repo.mod("misc/timeTools.py")
    for q, f in sorted(mod.funcs.items()):
        for c in calls_in(f.node):
            nm = call_name(c) or ""
            if nm in ("time.localtime", "time.mktime", "time.ctime", "time.asctime", "datetime.now", "datetime.today", "datetime.fromtimestamp", "datetime.utcfromtimestamp") or nm.endswith(".astimezone"):
                ok = q == "asctime" and nm == "time.localtime" and any(norm(t) == "t is None" for t, pol in guard_conditions(c) if pol)
                ctx.ob("F13z", f.where, f"{nm}() call", ok, "" if ok else "local-time API in a timestamp codec")
            if isinstance(c.func, ast.Attribute) and c.func.attr == "timestamp" and not c.args:
                recv = c.func.value
                aware = False
                if isinstance(recv, ast.Name):
                    stores = [st for st in walk_no_nested(f.node) if isinstance(st, ast.Assign) and any(isinstance(t, ast.Name) and t.id == recv.id for t in st.targets) and st.lineno < c.lineno]
                    if stores:
                        last = stores[-1].value
                        aware = any(isinstance(k, ast.keyword) and k.arg in ("tzinfo", "tz") and norm(k.value) in ("timezone.utc", "datetime.timezone.utc", "UTC") for k in ast.walk(last))
                else:
                    aware = any(isinstance(k, ast.keyword) and k.arg in ("tzinfo", "tz") and norm(k.value) in ("timezone.utc", "datetime.timezone.utc", "UTC") for k in ast.walk(recv))
                ctx.ob("F13z", f.where, f"{norm(c)} on a UTC-aware datetime", aware, "" if aware else "naive datetime.timestamp() interprets the fields in the process-local time zone")
    ts = mod.func("timestampToString")
    nms = [call_name(c) for c in calls_in(ts.node)]
    ok = "time.gmtime" in nms and "time.localtime" not in nms
    ctx.ob("F13z", ts.where, f"formats through {[n for n in nms if n and n.startswith('time.')]}", ok)
    fs = mod.func("timestampFromString")
    has = any((isinstance(c.func, ast.Attribute) and c.func.attr == "timestamp") or call_name(c) == "calendar.timegm" for c in calls_in(fs.node))
    ctx.ob("F13z", fs.where, "parses through an aware .timestamp() or calendar.timegm", has)



def local_state_cow(ctx, repo):
    ctx.rule("COW", "OTTableReader/OTTableWriter.__setitem__ never mutate the localState dict they share with sub-readers/sub-writers created earlier: the dict that receives the item is a fresh copy (.copy() / dict(...)) of it", floor=2)
    mod = repo.mod("ttLib/tables/otBase.py")
    for cls in ("OTTableReader", "OTTableWriter"):
        f = mod.func(cls + ".__setitem__")
        stores = [st for st in walk_no_nested(f.node) if isinstance(st, ast.Assign) and isinstance(st.targets[0], ast.Subscript)]
        ok = bool(stores)
        why = "no item store found"
        for st in stores:
            tgt = st.targets[0].value
            if not isinstance(tgt, ast.Name):
                ok, why = False, f"`{norm(st)}` writes into {norm(tgt)} directly"
                break
            defs = [d for d in walk_no_nested(f.node) if isinstance(d, ast.Assign) and any(isinstance(t, ast.Name) and t.id == tgt.id for t in d.targets)]
            fresh = bool(defs)
            for d in defs:
                arms = [d.value.body, d.value.orelse] if isinstance(d.value, ast.IfExp) else [d.value]
                for a in arms:
                    is_fresh = (isinstance(a, ast.Call) and ((isinstance(a.func, ast.Attribute) and a.func.attr == "copy") or call_name(a) in ("dict", "copy.copy", "copy"))) or isinstance(a, (ast.Dict, ast.DictComp))
                    if not is_fresh:
                        fresh = False
                        why = f"`{tgt.id}` can be `{norm(a)}` itself: sub-readers created earlier see the new value"
            ok = ok and fresh
        ctx.ob("COW", f.where, f"{norm(stores[0]) if stores else None} on a fresh copy of self.localState", ok, "" if ok else why)


# F11 -----------------------------------------------------------------------

PURITY_AUDIT = {
    # (module, function) -> {attr: reason}
    ("cffLib/__init__.py", "CFFFontSet.compile"): {"hdrSize": "derived header size", "offSize": "derived", "otFont": "back-reference to the font, not content", "topDictSize": "derived (CFF2)"},
    ("cffLib/__init__.py", "VarStoreData.compile"): {"data": "cached compiled bytes of the same content"},
    ("cffLib/__init__.py", "TopDict.toXML"): {"skipNames": "printer option"},
    ("ttLib/tables/E_B_L_C_.py", "table_E_B_L_C_.compile"): {"numSizes": "derived count"},
    ("ttLib/tables/E_B_L_C_.py", "_createOffsetArrayIndexSubTableMixin.OffsetArrayIndexSubTableMixin.compile"): {"imageDataOffset": "derived offset"},
    ("ttLib/tables/E_B_L_C_.py", "eblc_index_sub_table_2.compile"): {"imageDataOffset": "derived offset"},
    ("ttLib/tables/E_B_L_C_.py", "eblc_index_sub_table_4.compile"): {"imageDataOffset": "derived offset"},
    ("ttLib/tables/E_B_L_C_.py", "eblc_index_sub_table_5.compile"): {"imageDataOffset": "derived offset"},
    ("ttLib/tables/E_B_S_C_.py", "table_E_B_S_C_.compile"): {"numSizes": "derived count"},
    ("ttLib/tables/F__e_a_t.py", "table_F__e_a_t.compile"): {"version": "normalised version"},
    ("ttLib/tables/G__l_a_t.py", "table_G__l_a_t.compile"): {"compression": "derived from scheme"},
    ("ttLib/tables/O_S_2f_2.py", "table_O_S_2f_2.compile"): {"panose": "temporarily replaced by packed bytes and restored (checked below)"},
    ("ttLib/tables/S__i_l_f.py", "table_S__i_l_f.compile"): {"numSilf": "derived count"},
    ("ttLib/tables/S__i_l_f.py", "Silf.compile"): {"numCritFeatures": "derived", "numJLevels": "derived", "numPasses": "derived", "passOffset": "derived", "pseudosOffset": "derived"},
    ("ttLib/tables/S__i_l_f.py", "Classes.compile"): {"numClass": "derived", "numLinear": "derived"},
    ("ttLib/tables/S__i_l_f.py", "Pass.compile"): {"aCode": "derived offset", "fsmOffset": "derived", "numRules": "derived", "oDebug": "derived", "pcCode": "derived", "rcCode": "derived", "startStates": "default when absent"},
    ("ttLib/tables/T_S_I__1.py", "table_T_S_I__1.compile"): {"extraPrograms": "default when absent", "glyphPrograms": "default when absent"},
    ("ttLib/tables/V_O_R_G_.py", "table_V_O_R_G_.compile"): {"numVertOriginYMetrics": "derived count"},
    ("ttLib/tables/_a_v_a_r.py", "table__a_v_a_r.compile"): {"table": "otTables view built from segments when absent"},
    ("ttLib/tables/_c_m_a_p.py", "cmap_format_14.compile"): {"length": "derived", "numVarSelectorRecords": "derived"},
    ("ttLib/tables/_g_l_y_f.py", "table__g_l_y_f.compile"): {"glyphOrder": "copy of the font's glyph order"},
    ("ttLib/tables/_h_d_m_x.py", "table__h_d_m_x.compile"): {"numRecords": "derived", "recordSize": "derived", "version": "constant 0"},
    ("ttLib/tables/_h_e_a_d.py", "table__h_e_a_d.compile"): {"modified": "only under recalcTimestamp", "xMax": "recalcBBoxes", "xMin": "recalcBBoxes", "yMax": "recalcBBoxes", "yMin": "recalcBBoxes"},
    ("ttLib/tables/_h_h_e_a.py", "table__h_h_e_a.compile"): {"tableVersion": "fixed-point normalisation"},
    ("ttLib/tables/_v_h_e_a.py", "table__v_h_e_a.compile"): {"tableVersion": "fixed-point normalisation"},
    ("ttLib/tables/_k_e_r_n.py", "KernTable_format_0.compile"): {"tupleIndex": "default when absent"},
    ("ttLib/tables/_m_a_x_p.py", "table__m_a_x_p.compile"): {"numGlyphs": "derived from glyph order", "tableVersion": "derived from outline flavour"},
    ("ttLib/tables/_s_b_i_x.py", "table__s_b_i_x.compile"): {"numStrikes": "derived count"},
    ("ttLib/tables/_t_r_a_k.py", "table__t_r_a_k.compile"): {"reserved": "constant 0", "setattr(offsetName)": "derived offset"},
    ("ttLib/tables/otBase.py", "OTTableWriter._doneWriting"): {"items": "writer object, not font content"},
    ("ttLib/tables/otBase.py", "BaseTable.compile"): {"del Format": "deleteFormat: restored on every exit (checked below)"},
    ("ttLib/tables/otTables.py", "Coverage.preWrite"): {"Format": "derived format choice", "glyphs": "normalising sort by glyph id"},
    ("ttLib/tables/otTables.py", "DeltaSetIndexMap.preWrite"): {"Format": "derived", "mapping": "default when absent"},
    ("ttLib/tables/otTables.py", "VarIdxMap.preWrite"): {"mapping": "default when absent"},
    ("ttLib/tables/otTables.py", "VarRegionList.preWrite"): {"RegionAxisCount": "derived count"},
    ("ttLib/tables/otTables.py", "SingleSubst.preWrite"): {"Format": "derived", "mapping": "default when absent"},
    ("ttLib/tables/otTables.py", "MultipleSubst.preWrite"): {"Format": "derived", "mapping": "default when absent"},
    ("ttLib/tables/otTables.py", "ClassDef.preWrite"): {"Format": "derived"},
    ("ttLib/tables/otTables.py", "AlternateSubst.preWrite"): {"Format": "constant 1", "alternates": "default when absent", "sortCoverageLast": "writer flag"},
    ("ttLib/tables/otTables.py", "LigatureSubst.preWrite"): {"Format": "constant 1", "ligatures": "default when absent", "sortCoverageLast": "writer flag"},
    ("ttLib/tables/otTables.py", "COLR.preWrite"): {"LayerRecordCount": "derived count"},
    ("ttLib/tables/otTables.py", "BaseGlyphRecordArray.preWrite"): {"BaseGlyphRecord": "normalising sort by glyph id"},
    ("ttLib/tables/otTables.py", "BaseGlyphList.preWrite"): {"BaseGlyphPaintRecord": "normalising sort by glyph id"},
    ("ttLib/tables/otTables.py", "ClipList.preWrite"): {"clips": "default when absent"},
    ("ttLib/tables/sbixGlyph.py", "Glyph.compile"): {"gid": "derived from glyph name", "rawdata": "cached compiled bytes"},
    ("ttLib/tables/sbixStrike.py", "Strike.compile"): {"bitmapData": "cached compiled bytes", "data": "cached compiled bytes", "glyphDataOffsets": "derived offsets"},
}
# (module, helper method) -> {attr: reason}; "*" covers every attribute the helper stores
HELPER_PURITY_AUDIT = {
    ("ttLib/tables/O_S_2f_2.py", "updateFirstAndLastCharIndex"): {"*": "derived from cmap, recomputed only when recalc is requested"},
    ("ttLib/tables/_g_l_y_f.py", "expand"): {"*": "lazy decode of the glyph's own bytes (same content, other form)"},
    ("ttLib/tables/_g_l_y_f.py", "decompileComponents"): {"*": "lazy decode (part of expand)"},
    ("ttLib/tables/_g_l_y_f.py", "decompileCoordinates"): {"*": "lazy decode (part of expand)"},
    ("ttLib/tables/_g_l_y_f.py", "recalcBounds"): {"*": "derived bounding box, recomputed when recalcBBoxes is on"},
    ("ttLib/tables/_g_l_y_f.py", "tryRecalcBoundsComposite"): {"*": "derived bounding box (composite fast path)"},
    ("ttLib/tables/_h_h_e_a.py", "recalc"): {"*": "derived extents, recomputed when recalcBBoxes is on"},
    ("ttLib/tables/_v_h_e_a.py", "recalc"): {"*": "derived extents, recomputed when recalcBBoxes is on"},
    ("ttLib/tables/_m_a_x_p.py", "recalc"): {"*": "derived maxima, recomputed when recalcBBoxes is on"},
    ("ttLib/tables/_l_o_c_a.py", "set"): {"locations": "derived glyph offsets (set([]) only when the table was never filled)"},
    ("ttLib/tables/otTables.py", "_getClassRanges"): {"classDefs": "an absent mapping becomes the empty mapping (same content)"},
    ("ttLib/tables/ttProgram.py", "_disassemble"): {"assembly": "cached other form of the same program"},
    ("ttLib/tables/ttProgram.py", "_assemble"): {"bytecode": "cached other form of the same program"},
}
PURITY_METHODS = ("compile", "preWrite", "toXML", "toXML2", "write", "xmlWrite", "getData", "getAllData", "_doneWriting", "writeData", "writeArray")


def self_stores(fnode):
    if not fnode.args.args:
        return set()
    selfn = fnode.args.args[0].arg
    st = set()
    for x in walk_no_nested(fnode):
        tg = []
        if isinstance(x, ast.Assign):
            tg = x.targets
        elif isinstance(x, ast.AugAssign):
            tg = [x.target]
        elif isinstance(x, ast.AnnAssign):
            tg = [x.target]
        elif isinstance(x, ast.Delete):
            tg = x.targets
        for t in tg:
            for e in ast.walk(t):
                if isinstance(e, ast.Attribute) and isinstance(e.value, ast.Name) and e.value.id == selfn and isinstance(e.ctx, (ast.Store, ast.Del)):
                    st.add(("del " if isinstance(e.ctx, ast.Del) else "") + e.attr)
        if isinstance(x, ast.Call) and norm(x.func) in ("setattr", "delattr") and x.args and norm(x.args[0]) == selfn:
            st.add(norm(x.func) + "(" + norm(x.args[1]) + ")")
    return st


def f11_compile_purity(ctx, repo):
    ctx.rule("F11", "every attribute a compile/preWrite/toXML/write method stores on its own object is in the audited set (derived counts/offsets, restored fields, writer flags); a new store changes the font by saving it", floor=40)
    ctx.rule("F11r", "fields temporarily modified during compile are restored on all exits (BaseTable Format, OS/2 panose)", floor=2)
    for rel in sorted(repo.rels()):
        if not rel.startswith(("ttLib/", "cffLib/")):
            continue
        if rel.startswith("ttLib/woff2.py"):
            continue
        mod = repo.mod(rel)
        for q, f in mod.funcs.items():
            if f.node.name not in PURITY_METHODS or f.cls is None:
                continue
            st = self_stores(f.node)
            aud = PURITY_AUDIT.get((rel, q.split("#")[0]), {})
            for a in sorted(st):
                ok = a in aud
                ctx.ob("F11", f.where, f"self.{a} stored", ok, ("audited: " + aud[a]) if ok else "compile/dump path writes a new attribute on the table object (saving would change the font)")
    # F11h: the same obligation for the helper methods a compile / dump method calls on its own object (two levels): a
    # store hidden in `self.encode_format_2_0()` changes the font by saving it just as one in compile() itself (K50)
    from ..core import private_callees

    ctx.rule("F11h", "helper methods that compile/preWrite/toXML call on their own object store only audited attributes on it: recomputed derived fields, lazily decoded content, cached forms of the same content", floor=20)
    NOT_HELPERS = ("decompile", "fromXML", "__init__", "ensureDecompiled", "postRead", "read", "xmlRead", "decompileActions")
    seen_h = set()
    for rel in sorted(repo.rels()):
        if not rel.startswith(("ttLib/", "cffLib/")) or rel.startswith("ttLib/woff2.py"):
            continue
        mod = repo.mod(rel)
        for q, f in sorted(mod.funcs.items()):
            if f.node.name not in PURITY_METHODS or f.cls is None:
                continue
            for h in private_callees(repo, f, depth=2):
                if h.cls is None or h.node is f.node or h.node.name in PURITY_METHODS or h.node.name in NOT_HELPERS or id(h.node) in seen_h:
                    continue
                seen_h.add(id(h.node))
                aud = dict(HELPER_PURITY_AUDIT.get((h.mod.rel, h.node.name), {}))
                # a block extracted from the compile method itself carries that method's audited stores with it
                for a_, why_ in PURITY_AUDIT.get((rel, q.split("#")[0]), {}).items():
                    aud.setdefault(a_, why_ + " (audited for the calling method)")
                for a in sorted(self_stores(h.node)):
                    ok = a in aud or "*" in aud
                    ctx.ob("F11h", h.where, f"self.{a} stored (reached from {q.split('#')[0]})", ok, ("audited: " + (aud.get(a) or aud.get("*"))) if ok else "a helper on the compile/dump path writes an attribute on the table object (saving would change the font)")
    # BaseTable.compile: a Format attribute that preWrite added is removed again before the normal return,
    # and the converters write into a copy of __dict__ (or preWrite's dict), never into self
    ob = repo.mod("ttLib/tables/otBase.py")
    f = ob.func("BaseTable.compile")
    g = CFG(f.node)
    ifs = [n for n in walk_no_nested(f.node) if isinstance(n, ast.If) and norm(n.test) == "deleteFormat" and any(isinstance(s, ast.Delete) and norm(s.targets[0]) == "self.Format" for s in n.body)]
    ok = len(ifs) == 1 and g.post_dominates_exit(g.id_of(ifs[0]))
    flag = [norm(n.value) for n in walk_no_nested(f.node) if isinstance(n, ast.Assign) and norm(n.targets[0]) == "deleteFormat"]
    ok = ok and sorted(flag) == sorted(["not hasattr(self, 'Format')", "deleteFormat and hasattr(self, 'Format')", "False"])  # arm order is free
    ctx.ob("F11r", f.where, "Format added by preWrite is deleted on every normal exit (if deleteFormat: del self.Format)", ok, "" if ok else "a Format attribute set during compile can survive the save")
    tabs = [norm(n.value) for n in walk_no_nested(f.node) if isinstance(n, ast.Assign) and norm(n.targets[0]) == "table"]
    ok = sorted(tabs) == sorted(["self.preWrite(font)", "self.__dict__.copy()"])
    ctx.ob("F11r", f.where, f"compile works on {tabs}", ok, "" if ok else "compile no longer works on a copy of the object's dict")
    o2 = repo.mod("ttLib/tables/O_S_2f_2.py").func("table_O_S_2f_2.compile")
    assigns = [n for n in walk_no_nested(o2.node) if isinstance(n, ast.Assign) and norm(n.targets[0]) == "self.panose"]
    saved = [n for n in walk_no_nested(o2.node) if isinstance(n, ast.Assign) and norm(n.value) == "self.panose" and isinstance(n.targets[0], ast.Name)]
    ok = False
    if saved and assigns:
        sv = saved[0].targets[0].id
        g = CFG(o2.node)
        rest = [a for a in assigns if norm(a.value) == sv]
        mods = [a for a in assigns if norm(a.value) != sv]
        ok = bool(rest) and bool(mods) and all(g.post_dominates_exit(g.id_of(rest[-1])) for _ in [0]) and all(g.dominates(g.id_of(saved[0]), g.id_of(m)) for m in mods)
    ctx.ob("F11r", o2.where, "panose saved, replaced by packed bytes, restored before every return", ok, "" if ok else "panose is left modified after compile on some path")


def lazy_independence(ctx, repo):
    ctx.rule("LAZY", "compile/toXML closures branch on font.lazy / isLoaded only at audited sites; getTableData compiles only loaded tables and otherwise returns the reader's bytes unchanged; ensureDecompiled clears lazy only after visiting every table", floor=6)
    AUD = {
        ("ttLib/tables/_m_a_x_p.py", "table__m_a_x_p.compile"): "recalc needs decoded glyf; untouched glyf => pass-through data already consistent",
        ("ttLib/tables/_h_h_e_a.py", "table__h_h_e_a.compile"): "same: recalc only when an outline table was decoded",
        ("ttLib/tables/_v_h_e_a.py", "table__v_h_e_a.compile"): "same",
    }
    for rel in sorted(repo.rels()):
        if not rel.startswith(("ttLib/tables/", "cffLib/")):
            continue
        mod = repo.mod(rel)
        for q, f in mod.funcs.items():
            if f.node.name not in ("compile", "toXML", "preWrite", "write", "xmlWrite"):
                continue
            for n in walk_no_nested(f.node):
                hit = None
                if isinstance(n, ast.Attribute) and n.attr == "lazy" and isinstance(n.ctx, ast.Load):
                    hit = norm(n)
                elif isinstance(n, ast.Call) and last_attr(n) == "isLoaded":
                    hit = norm(n)
                if hit:
                    ok = (rel, q) in AUD
                    ctx.ob("LAZY", f.where, hit, ok, ("audited: " + AUD[(rel, q)]) if ok else "compile/dump result depends on lazy-loading state")
    tf = repo.mod("ttLib/ttFont.py")
    g = tf.func("TTFont.getTableData")
    rets = [n for n in walk_no_nested(g.node) if isinstance(n, ast.Return)]
    gc = CFG(g.node)
    from ..cfg import implied_conditions
    from ..core import inline_locals

    shape = []
    ok = bool(rets)
    for r in rets:
        val = norm(inline_locals(g.node, r.value)) if r.value is not None else "None"
        conds = implied_conditions(gc, r)
        shape.append((val, sorted(c for c in conds if "isLoaded" in c[0])))
        if val == "self.tables[tag].compile(self)":
            ok = ok and ("self.isLoaded(tag)", True) in conds
        elif val == "self.reader[tag]":
            ok = ok and ("self.isLoaded(tag)", False) in conds
        else:
            ok = False
    ok = ok and {v for v, _ in shape} == {"self.tables[tag].compile(self)", "self.reader[tag]"}
    ctx.ob("LAZY", g.where, f"returns {sorted(shape)}", ok, "" if ok else "pass-through no longer returns reader bytes unchanged / compiles unloaded tables")
    ed = tf.func("TTFont.ensureDecompiled")
    gcfg = CFG(ed.node)
    sets = [n for n in walk_no_nested(ed.node) if isinstance(n, ast.Assign) and norm(n.targets[0]) == "self.lazy"]
    loops = [n for n in walk_no_nested(ed.node) if isinstance(n, ast.For)]
    ok = len(sets) == 1 and norm(sets[0].value) == "False" and bool(loops) and all(gcfg.dominates(gcfg.id_of(l), gcfg.id_of(sets[0])) for l in loops)
    ctx.ob("LAZY", ed.where, "self.lazy = False after the loop over all tables", ok)
    # _save force-loads only head and only under recalcTimestamp
    sv = tf.func("TTFont._save")
    loads = [n for n in walk_no_nested(sv.node) if isinstance(n, ast.Subscript) and norm(n.value) == "self" and isinstance(n.ctx, ast.Load)]
    ok = all(norm(n) == "self['head']" and any("recalcTimestamp" in norm(t) for t, pol in guard_conditions(n) if pol) for n in loads)
    ctx.ob("LAZY", sv.where, f"tables force-loaded by _save: {[norm(n) for n in loads]}", ok, "" if ok else "_save decodes tables it was not asked to touch")


def interning_order(ctx, repo):
    ctx.rule("INTERN", "subtable de-duplication and gathering iterate ordered sequences: _doneWriting enumerates self.items and interns with dict.setdefault; _gatherTables walks items by index; no set is involved", floor=3)
    ob = repo.mod("ttLib/tables/otBase.py")
    f = ob.func("OTTableWriter._doneWriting")
    fors = [n for n in walk_no_nested(f.node) if isinstance(n, ast.For)]
    ok = [norm(n.iter) for n in fors] == ["enumerate(items)"] and any(isinstance(n, ast.Assign) and norm(n.targets[0]) == "items" and norm(n.value) == "self.items" for n in walk_no_nested(f.node))
    ctx.ob("INTERN", f.where, "for i, item in enumerate(self.items)", ok)
    sd = [c for c in calls_in(f.node) if last_attr(c) == "setdefault" and norm(c.func.value) == "internedTables"]
    ok = len(sd) == 1 and norm(sd[0].args[0]) == norm(sd[0].args[1]) == "item.subWriter"
    ctx.ob("INTERN", f.where, "internedTables.setdefault(item.subWriter, item.subWriter)", ok, "" if ok else "interning does not keep the first equal writer")
    fresh = [n for n in walk_no_nested(f.node) if isinstance(n, ast.Assign) and norm(n.targets[0]) == "internedTables"]
    ok = len(fresh) == 1 and norm(fresh[0].value) == "{}" and [norm(t) for t, pol in guard_conditions(fresh[0]) if pol] == ["isExtension and (not shareExtension)"]
    ctx.ob("INTERN", f.where, "fresh intern dict for Extension subtrees unless shareExtension", ok)
    gt = ob.func("OTTableWriter._gatherTables")
    st = setorder.SetTypes(repo, ob)
    loc = st.local_sets(gt.node, "OTTableWriter")
    iters = [n.iter for n in walk_no_nested(gt.node) if isinstance(n, ast.For)]
    ok = bool(iters) and not any(st.is_set(i, loc, "OTTableWriter") for i in iters)
    ctx.ob("INTERN", gt.where, "loops over: " + " ; ".join(norm(i) for i in iters), ok)
    # __eq__/__hash__ over the same attribute
    eq = ob.func("OTTableWriter.__eq__")
    hs = ob.func("OTTableWriter.__hash__")
    ok = "self.items == other.items" in norm(eq.node) and "hash(self.items)" in norm(hs.node)
    ctx.ob("INTERN", ob.rel + ":OTTableWriter", "__eq__ and __hash__ both over self.items", ok)


def audit_discharge(ctx, repo):
    """Discharge obligations attached to audited exemptions: the reason an entry gives is re-checked."""
    ctx.rule("F12d", "reasons recorded for audited set-order exemptions still hold (consumer sorts / restores)", floor=5)
    # COLR v0: ColorLayers insertion order is irrelevant only because compile sorts base glyphs by glyph id
    cm = repo.mod("ttLib/tables/C_O_L_R_.py")
    f = cm.func("table_C_O_L_R_._toOTTable")
    calls = [c for c in calls_in(f.node) if call_name(c) == "populateCOLRv0"]
    ok = len(calls) == 1 and any(k.arg == "glyphMap" and "getReverseGlyphMap" in norm(k.value) for k in calls[0].keywords)
    ctx.ob("F12d", f.where, "populateCOLRv0(..., glyphMap=ttFont.getReverseGlyphMap(...))", ok, "" if ok else "COLR v0 records are emitted in ColorLayers dict order, which the subsetter fills from a set")
    # ... and every other caller of populateCOLRv0 must ask for the sort too (it only sorts when given a glyphMap)
    for rel in sorted(repo.rels()):
        if rel.startswith(("subset/", "ttLib/", "colorLib/", "varLib/", "merge/", "fontBuilder")):
            md = repo.mod(rel)
            for q, fx in sorted(md.funcs.items()):
                if fx.node.name == "populateCOLRv0":
                    continue
                for c in calls_in(fx.node, nested=False):
                    if call_name(c) and call_name(c).endswith("populateCOLRv0"):
                        has = any(k.arg == "glyphMap" for k in c.keywords) or len(c.args) >= 3
                        ctx.ob("F12d", fx.where, f"{norm(c)[:60]}... passes glyphMap", has, "" if has else "populateCOLRv0 keeps the dict's order when no glyphMap is given; the caller's dict is built in set order")
    # a dict built in set order must not feed an insertion-order-sensitive reducer (Counter.most_common breaks ties by first insertion)
    sm = repo.mod("subset/__init__.py")
    for q, fx in sorted(sm.funcs.items()):
        mc = [c for c in calls_in(fx.node, nested=False) if last_attr(c) == "most_common"]
        if not mc:
            continue
        unsorted = [n for n in ast.walk(fx.node) if isinstance(n, ast.comprehension) and norm(n.iter) in ("s.glyphs", "s.glyphs_retained", "s.glyphs_requested")]
        ctx.ob("F12d", fx.where, "most_common() over a per-glyph dict: the dict is built in sorted glyph order", not unsorted, "" if not unsorted else f"dict built by iterating the set {norm(unsorted[0].iter)}: a tie is broken by hash order")
    # a per-glyph dict (or a list of them) that the subsetter rebuilds by iterating the set s.glyphs is harmless only while
    # no table code walks that dict: every loop over `<x>.<attr>` / `.items()` / `.keys()` / `.values()` of the rebuilt
    # attribute in ttLib/tables must be sorted (K47: EBDT.toXML walked strikeData's dicts)
    rebuilt = {}
    for q, fx in sorted(sm.funcs.items()):
        if fx.node.name != "subset_glyphs":
            continue
        for st in walk_no_nested(fx.node):
            if not isinstance(st, ast.Assign):
                continue
            comps = [c for c in ast.walk(st.value) if isinstance(c, ast.DictComp) and any(norm(g.iter) in ("s.glyphs", "s.glyphs_retained", "s.glyphs_requested") for g in c.generators)]
            if not comps:
                continue
            t = st.targets[0]
            attr = t.attr if isinstance(t, ast.Attribute) else None
            if attr is None and isinstance(t, ast.Name):
                # a local later stored on the table: self.strikeData = [... for strike in strikeData ...]
                for st2 in walk_no_nested(fx.node):
                    if isinstance(st2, ast.Assign) and isinstance(st2.targets[0], ast.Attribute) and any(isinstance(x, ast.Name) and x.id == t.id for x in ast.walk(st2.value)):
                        attr = st2.targets[0].attr
            if attr:
                rebuilt.setdefault(attr, fx)
    from .. import inject as _inject

    tagcls = _inject.all_table_tags(repo)
    for attr, fx in sorted(rebuilt.items()):
        walkers = []
        # the modules that implement the table the handler is attached to: its table module and the ttLib/tables
        # modules that one imports (sbixStrike, BitmapGlyphMetrics, ...); a subclass module (CBDT for EBDT) inherits them
        tags = [try_fold(d.args[0].args[0]) for d in fx.node.decorator_list if isinstance(d, ast.Call) and d.args and isinstance(d.args[0], ast.Call) and d.args[0].args]
        mods = set()
        for tg in tags:
            c_ = tagcls.get(tg) or tagcls.get((tg or "").ljust(4))
            if c_ is not None:
                mods.add(c_.mod.rel)
                for dotted in c_.mod.imports.values():
                    r_ = repo.resolve_dotted(dotted) if dotted.startswith("fontTools.ttLib.tables") else None
                    if r_ and r_[0] in ("module",):
                        mods.add(r_[1].rel)
                    elif r_ and r_[0] in ("class", "func"):
                        mods.add(r_[1].mod.rel)
        for rel in sorted(mods or [r for r in repo.rels() if r.startswith("ttLib/tables/")]):
            md = repo.mod(rel)
            for n in ast.walk(md.tree):
                if not isinstance(n, (ast.For, ast.comprehension)):
                    continue
                it = n.iter
                while isinstance(it, ast.Call) and isinstance(it.func, ast.Name) and it.func.id in ("enumerate", "list", "zip", "iter") and it.args:
                    it = it.args[-1] if it.func.id == "zip" else it.args[0]
                base = it.func.value if isinstance(it, ast.Call) and isinstance(it.func, ast.Attribute) and it.func.attr in ("items", "keys", "values") else it
                if not (isinstance(base, ast.Attribute) and base.attr == attr):
                    continue
                # a list of per-glyph dicts: the loop over the list is fine, a nested loop over an element's items is the walker
                tgt = n.target
                elem = {x.id for x in ast.walk(tgt) if isinstance(x, ast.Name)}
                inner = [m2 for m2 in ast.walk(n if isinstance(n, ast.For) else parent(n)) if isinstance(m2, (ast.For, ast.comprehension)) and m2 is not n and isinstance(m2.iter, ast.Call) and isinstance(m2.iter.func, ast.Attribute) and m2.iter.func.attr in ("items", "keys", "values") and isinstance(m2.iter.func.value, ast.Name) and m2.iter.func.value.id in elem]
                is_mapping_walk = isinstance(it, ast.Call) and isinstance(it.func, ast.Attribute) and it.func.attr in ("items", "keys", "values")
                # handed to populateCOLRv0 together with a glyphMap: sorted there (discharged above)
                pc = parent(n) if isinstance(n, ast.comprehension) else None
                while pc is not None and not isinstance(pc, (ast.Call, ast.stmt)):
                    pc = parent(pc)
                if isinstance(pc, ast.Call) and call_name(pc) and call_name(pc).endswith("populateCOLRv0") and any(k.arg == "glyphMap" for k in pc.keywords):
                    continue
                if is_mapping_walk or inner:
                    walkers.append(f"{rel}:{getattr(n, 'lineno', None) or n.iter.lineno}")
        ctx.ob("F12d", fx.where, f"`.{attr}` is rebuilt from the set s.glyphs: no table code walks it unsorted", not walkers, "" if not walkers else f"walked in dict order at {walkers[:3]}: output order depends on the hash seed")
    pb = repo.mod("colorLib/builder.py").func("populateCOLRv0")
    srt = [n for n in ast.walk(pb.node) if isinstance(n, ast.Call) and call_name(n) == "sorted" and "colorGlyphsV0.items()" in norm(n) and "glyphMap" in norm(n)]
    ok = bool(srt) and any(norm(t) == "glyphMap is not None" for t, pol in guard_conditions(srt[0]) if pol)
    ctx.ob("F12d", pb.where, "sorted(colorGlyphsV0.items(), key=glyph id) when glyphMap is given", ok)
    # hmtx/vmtx compile walks glyph order
    hm = repo.mod("ttLib/tables/_h_m_t_x.py").func("table__h_m_t_x.compile")
    ok = any(isinstance(n, ast.For) and "getGlyphOrder()" in norm(n.iter) for n in ast.walk(hm.node))
    ctx.ob("F12d", hm.where, "hmtx/vmtx compile iterates ttFont.getGlyphOrder()", ok)
    # ClassDef.preWrite sorts
    cd = repo.mod("ttLib/tables/otTables.py").func("ClassDef._getClassRanges")
    ok = any(isinstance(n, ast.Call) and norm(n.func) == "items.sort" for n in ast.walk(cd.node))
    ctx.ob("F12d", cd.where, "ClassDef._getClassRanges sorts (glyph id, name, class) items", ok)
    # buildCoverage sorts
    bc = repo.mod("otlLib/builder.py").func("buildCoverage")
    ok = any(isinstance(n, ast.Call) and call_name(n) == "sorted" and "glyphMap" in norm(n) for n in ast.walk(bc.node))
    ctx.ob("F12d", bc.where, "buildCoverage sorts glyphs by glyph id", ok)
    # subset/svg ranges sorts
    rg = repo.mod("subset/svg.py").func("ranges")
    ok = any(isinstance(n, ast.Call) and call_name(n) == "sorted" for n in ast.walk(rg.node))
    ctx.ob("F12d", rg.where, "ranges() sorts its input", ok)
    # featureVars: condition sets are sorted when built
    fv = repo.mod("varLib/featureVars.py")
    ok = any(isinstance(n, ast.For) and norm(n.iter) == "sorted(conditionSet.items())" for n in ast.walk(fv.tree))
    ctx.ob("F12d", fv.rel + ":<module>", "for ... in sorted(conditionSet.items())", ok)
    # TTCollection shared timestamp: the original flag is recorded before it is cleared, and restored in finally
    tc = repo.mod("ttLib/ttCollection.py").func("_sharedModifiedTimestamp")
    g = CFG(tc.node)
    rec = [n for n in ast.walk(tc.node) if isinstance(n, ast.Call) and norm(n.func) == "restore.append" and "font.recalcTimestamp" in norm(n)]
    clr = [n for n in ast.walk(tc.node) if isinstance(n, ast.Assign) and norm(n.targets[0]) == "font.recalcTimestamp" and norm(n.value) == "False"]
    ok = len(rec) == 1 and len(clr) == 1 and g.dominates(g.id_of(rec[0]), g.id_of(clr[0])) and g.id_of(rec[0]) != g.id_of(clr[0])
    ctx.ob("F12d", tc.where, "restore.append((font, font.recalcTimestamp)) dominates font.recalcTimestamp = False", ok, "" if ok else "the saved flag is read after it was cleared: recalcTimestamp stays off after a collection save")
    fin = [t for t in ast.walk(tc.node) if isinstance(t, ast.Try) and any(isinstance(x, ast.Assign) and norm(x.targets[0]) == "font.recalcTimestamp" for st in t.finalbody for x in ast.walk(st))]
    ctx.ob("F12d", tc.where, "finally: font.recalcTimestamp = <saved>", bool(fin))


ALL = [f12_set_order, audit_discharge, f13_ambient, tz_independence, local_state_cow, f11_compile_purity, lazy_independence, interning_order]


# ---------------------------------------------------------------------------
# F12k: sorting a set with a key that can tie leaves the tied elements in set order
# ---------------------------------------------------------------------------
F12K_AUDIT = {
    ("varLib/avar/unbuild.py", "mappings_from_avar"): "a real tie (locations on the same axes with different values): the order of <mapping> elements in the designspace document this tool emits can vary with the hash seed; a font-to-designspace converter outside C16's saved-font clause (cross-reference, DESIGN §5)",
}


def sorted_key_ties(ctx, repo, scope=("ttLib/", "cffLib/", "subset/", "varLib/", "otlLib/", "feaLib/", "merge/", "colorLib/")):
    from .setorder import _settypes_cache

    ctx.rule("F12k", "sorted(<set>, key=K) is a deterministic order only when K cannot tie: K must be (or end in) the element itself; `key=len` or a projection alone leaves equal-key elements in the set's iteration order, which depends on the hash seed", floor=1)
    n = 0
    for rel in sorted(repo.rels()):
        if not rel.startswith(tuple(scope)):
            continue
        mod = repo.mod(rel)
        st = _settypes_cache(repo, mod)
        for q, f in sorted(mod.funcs.items()):
            clsq = f.cls.qual if f.cls is not None else None
            loc = None
            for c in walk_no_nested(f.node):
                if not (isinstance(c, ast.Call) and isinstance(c.func, ast.Name) and c.func.id == "sorted" and c.args):
                    continue
                key = next((k.value for k in c.keywords if k.arg == "key"), None)
                if key is None:
                    continue
                loc = loc or st.local_sets(f.node, clsq)
                try:
                    is_set = st.is_set(c.args[0], loc, clsq)
                except Exception:
                    is_set = False
                if not is_set:
                    continue
                n += 1
                ctx.consult(rel)
                total = False
                if isinstance(key, ast.Name):
                    from ..core import inline_locals

                    key = inline_locals(f.node, key)  # sortKey = font.getReverseGlyphMap().__getitem__
                if (rel, q.split("#")[0]) in F12K_AUDIT:
                    ctx.ob("F12k", f.where, f"{norm(c)[:70]} (audited: {F12K_AUDIT[(rel, q.split('#')[0])]})", True)
                    continue
                if isinstance(key, ast.Lambda) and len(key.args.args) == 1:
                    p = key.args.args[0].arg
                    b = key.body
                    total = isinstance(b, ast.Name) and b.id == p or isinstance(b, ast.Tuple) and any(isinstance(e, ast.Name) and e.id == p for e in b.elts)
                    # a projection to a unique identifier (glyph id through a map) is total as well
                    total = total or (isinstance(b, ast.Subscript) and isinstance(b.slice, ast.Name) and b.slice.id == p) or (isinstance(b, ast.Call) and norm(b.func).endswith(("getGlyphID", ".index")))
                elif isinstance(key, ast.Attribute) and key.attr in ("getGlyphID", "__getitem__", "index"):
                    total = True
                ctx.ob("F12k", f.where, f"{norm(c)[:90]}", total, "" if total else "elements with equal keys keep the set's (hash-seed dependent) order")
    if n < 1:
        raise AnalysisError("F12k: no sorted(<set>, key=...) site found (InsertionMorphAction.compileActions confirmed by hand)")


ALL.append(sorted_key_ties)

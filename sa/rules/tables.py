"""Hand-written table codecs: F1 FMT-PAIR (struct/sstruct layout agreement per class),
pair exhaustiveness, F29/F30, WOFF raw/compressed discriminator, flag pairs (C01, C02, C04)."""

from __future__ import annotations

import ast
import re

from ..core import AnalysisError, norm, calls_in, call_name, last_attr, walk_no_nested, parent
from ..consteval import try_fold, module_env, fold_module_sequence, Unknown
from ..fmt import struct_norm, sstruct_parse
from ..cfg import CFG, guard_conditions

WR = ("compile", "tostring", "pack", "encode", "transform", "tobytes")
RD = ("decompile", "fromstring", "unpack", "decode", "reconstruct", "frombytes")


def side(name):
    n = name.lower()
    if any(x in n for x in RD):
        return "R"
    if any(x in n for x in WR):
        return "W"
    return None


def _fmt_of(repo, mod, call, env):
    a = call.args[0] if call.args else None
    if a is None:
        return None
    v = try_fold(a, env)
    if v is None and isinstance(a, ast.Name):
        try:
            v = fold_module_sequence(repo, mod, a.id)
        except Unknown:
            v = None
    if isinstance(v, str):
        try:
            return struct_norm(v)
        except ValueError:
            return None
    if isinstance(a, ast.BinOp) and isinstance(a.op, ast.Mod):
        base = try_fold(a.left, env)
        if isinstance(base, str):
            try:
                return struct_norm(re.sub(r"%d|%s|%i", "*", base))
            except ValueError:
                return None
    if isinstance(a, ast.JoinedStr):
        s = "".join(str(x.value) if isinstance(x, ast.Constant) else "*" for x in a.values)
        try:
            return struct_norm(s)
        except ValueError:
            return None
    return None


def class_signatures(repo, mod):
    """owner class -> {'W': set(sig), 'R': set(sig)}; sig = canonical layout text"""
    env = module_env(repo, mod)
    per = {}
    for q, f in mod.funcs.items():
        sd = side(f.node.name)
        if not sd:
            continue
        owner = f.cls.qual if f.cls else "<module>"
        for c in calls_in(f.node, nested=False):
            nm = call_name(c) or ""
            sig = None
            if nm in ("sstruct.pack", "sstruct.unpack", "sstruct.unpack2"):
                a = c.args[0]
                v = None
                if isinstance(a, ast.Name):
                    try:
                        v = fold_module_sequence(repo, mod, a.id)
                    except Unknown:
                        v = try_fold(a, env)
                else:
                    v = try_fold(a, env)
                if isinstance(v, str):
                    try:
                        sf = sstruct_parse(v)
                        sig = "ss:" + ",".join(f"{n}:{sf.codes[n]}" + (f".{sf.fixes[n]}" if n in sf.fixes else "") for n in sf.names)
                    except ValueError:
                        sig = None
                if sig is None:
                    sig = "ss?:" + norm(a)
            elif nm in ("struct.pack", "struct.unpack", "struct.unpack_from", "struct.pack_into"):
                fm = _fmt_of(repo, mod, c, env)
                sig = ("st:" + fm) if fm else ("st?:" + norm(c.args[0])[:40] if c.args else None)
            elif nm == "array.array" and c.args:
                tc = try_fold(c.args[0], env)
                sig = f"arr:{tc}" if isinstance(tc, str) else "arr?:" + norm(c.args[0])[:30]
            if sig:
                per.setdefault(owner, {"W": set(), "R": set()})[sd].add(sig)
    return per


def sstruct_names(sigs):
    out = set()
    for s in sigs:
        if s.startswith("ss:"):
            out.update(s[3:].split(","))
    return out


# ---------------------------------------------------------------------------
# F1 frozen-equal layout pairs
# ---------------------------------------------------------------------------

# Classes whose write-side and read-side layout signatures are equal on the audited tree
# (confirmed by reading); these are the armed instances.  Classes whose two sides use
# different idioms (array vs struct, header read by the parent, ...) are listed in evidence only.
F1_EQUAL = {
    "cffLib/__init__.py": ["CFFFontSet"],
    "ttLib/sfnt.py": ["DirectoryEntry"],
    "ttLib/tables/C_B_D_T_.py": ["cbdt_bitmap_format_17", "cbdt_bitmap_format_18", "cbdt_bitmap_format_19"],
    "ttLib/tables/D_S_I_G_.py": ["table_D_S_I_G_"],
    "ttLib/tables/E_B_D_T_.py": ["table_E_B_D_T_", "ebdt_bitmap_format_1", "ebdt_bitmap_format_2", "ebdt_bitmap_format_6", "ebdt_bitmap_format_7", "ebdt_bitmap_format_8", "ebdt_bitmap_format_9"],
    "ttLib/tables/E_B_L_C_.py": ["table_E_B_L_C_", "_createOffsetArrayIndexSubTableMixin.OffsetArrayIndexSubTableMixin", "eblc_index_sub_table_2", "eblc_index_sub_table_4", "eblc_index_sub_table_5"],
    "ttLib/tables/E_B_S_C_.py": ["table_E_B_S_C_", "BitmapScaleTable"],
    "ttLib/tables/F_F_T_M_.py": ["table_F_F_T_M_"],
    "ttLib/tables/G__l_a_t.py": ["table_G__l_a_t"],
    "ttLib/tables/L_T_S_H_.py": ["table_L_T_S_H_"],
    "ttLib/tables/O_S_2f_2.py": ["table_O_S_2f_2"],
    "ttLib/tables/T_S_I__0.py": ["table_T_S_I__0"],
    "ttLib/tables/T_S_I__5.py": ["table_T_S_I__5"],
    "ttLib/tables/V_D_M_X_.py": ["table_V_D_M_X_"],
    "ttLib/tables/V_O_R_G_.py": ["table_V_O_R_G_"],
    "ttLib/tables/_c_v_a_r.py": ["table__c_v_a_r"],
    "ttLib/tables/_f_v_a_r.py": ["table__f_v_a_r", "Axis", "NamedInstance"],
    "ttLib/tables/_g_a_s_p.py": ["table__g_a_s_p"],
    "ttLib/tables/_g_l_y_f.py": ["GlyphComponent"],
    "ttLib/tables/_g_v_a_r.py": ["table__g_v_a_r"],
    "ttLib/tables/_h_e_a_d.py": ["table__h_e_a_d"],
    "ttLib/tables/_h_h_e_a.py": ["table__h_h_e_a"],
    "ttLib/tables/_h_m_t_x.py": ["table__h_m_t_x"],
    "ttLib/tables/_l_t_a_g.py": ["table__l_t_a_g"],
    "ttLib/tables/_m_a_x_p.py": ["table__m_a_x_p"],
    "ttLib/tables/_m_e_t_a.py": ["table__m_e_t_a"],
    "ttLib/tables/_n_a_m_e.py": ["table__n_a_m_e"],
    "ttLib/tables/_p_o_s_t.py": ["table__p_o_s_t"],
    "ttLib/tables/_s_b_i_x.py": ["table__s_b_i_x"],
    "ttLib/tables/_t_r_a_k.py": ["table__t_r_a_k", "TrackData"],
    "ttLib/tables/_v_h_e_a.py": ["table__v_h_e_a"],
    "ttLib/tables/sbixGlyph.py": ["Glyph"],
    "ttLib/woff2.py": ["WOFF2HmtxTable"],
}


def f1_fmt_pair(ctx, repo, modules=None):
    ctx.rule("F1", "per class, the struct/sstruct/array layouts used on the encode side equal those on the decode side (instances confirmed equal on the audited tree are armed; a width or signedness change on one side only is the report)", floor=40)
    unarmed = []
    for rel, owners in sorted(F1_EQUAL.items()):
        if modules is not None and rel not in modules:
            continue
        mod = repo.mod(rel)
        sigs = class_signatures(repo, mod)
        for owner in owners:
            d = sigs.get(owner)
            if d is None or not d["W"] or not d["R"]:
                raise AnalysisError(f"F1 instance {rel}:{owner} no longer has both an encode and a decode side with layouts")
            wn, rn = sstruct_names(d["W"]), sstruct_names(d["R"])
            wo = {s for s in d["W"] if not s.startswith("ss:")}
            ro = {s for s in d["R"] if not s.startswith("ss:")}
            ok = wn == rn and wo == ro
            detail = "" if ok else f"encode-only {sorted(wo - ro) + sorted(wn - rn)}; decode-only {sorted(ro - wo) + sorted(rn - wn)}"
            ctx.ob("F1", f"{rel}:{owner}", f"{len(d['W'])} encode layouts == {len(d['R'])} decode layouts", ok, detail)
    if modules is None:
        for rel in sorted(repo.rels()):
            if not rel.startswith(("ttLib/", "cffLib/")) or rel.endswith(("otBase.py", "otConverters.py", "otTables.py", "otData.py")):
                continue
            for owner, d in class_signatures(repo, repo.mod(rel)).items():
                if d["W"] and d["R"] and owner not in F1_EQUAL.get(rel, []):
                    unarmed.append(f"{rel}:{owner}")
        ctx.info["F1_unarmed_idiom_differs"] = unarmed


# ---------------------------------------------------------------------------
# pair exhaustiveness
# ---------------------------------------------------------------------------


XML_COMMENT_ONLY = {
    "table__l_o_c_a": "loca is recomputed from glyf by the compiler",
    "table_T_S_I__0": "TSI0 index is recomputed from TSI1",
    "table_T_S_I__2": "TSI2 index is recomputed from TSI3",
}


def pair_exhaustive(ctx, repo):
    ctx.rule("PAIR", "every table class resolves both compile and decompile to definitions in the same class of its MRO (a class overriding exactly one of the two no longer round-trips with its base)", floor=80)
    for ident, c in sorted(repo.table_modules().items()):
        cf = repo.lookup_method(c, "compile")
        df = repo.lookup_method(c, "decompile")
        ok = cf is not None and df is not None and cf.cls is df.cls
        ctx.ob("PAIR", c.where, f"compile from {cf.cls.name if cf else None}, decompile from {df.cls.name if df else None}", ok, "" if ok else "encoder and decoder come from different classes")
        tf = repo.lookup_method(c, "toXML")
        ff = repo.lookup_method(c, "fromXML")
        ok = tf is not None and ff is not None and tf.cls is ff.cls
        if not ok and c.name in XML_COMMENT_ONLY:
            # derived tables: toXML only writes a comment, nothing to read back
            tags = [last_attr(x) for x in calls_in(tf.node) if last_attr(x) in ("simpletag", "begintag", "dumphex", "write")]
            ctx.ob("PAIR", c.where, f"{c.name}.toXML writes no data elements ({XML_COMMENT_ONLY[c.name]})", not tags, "" if not tags else "toXML now emits data but the class has no fromXML to read it")
            continue
        ctx.ob("PAIR", c.where, f"toXML from {tf.cls.name if tf else None}, fromXML from {ff.cls.name if ff else None}", ok, "" if ok else "XML writer and reader come from different classes")


# ---------------------------------------------------------------------------
# F29 / F30 decode-side value types
# ---------------------------------------------------------------------------


def _coarse_type(e, local):
    if isinstance(e, (ast.List, ast.ListComp)):
        return "list"
    if isinstance(e, ast.Tuple):
        return "tuple"
    if isinstance(e, (ast.Dict, ast.DictComp)):
        return "dict"
    if isinstance(e, (ast.Set, ast.SetComp)):
        return "set"
    if isinstance(e, ast.GeneratorExp):
        return "generator"
    if isinstance(e, ast.Constant):
        return {str: "str", bytes: "bytes", int: "int", float: "float", bool: "bool"}.get(type(e.value))
    if isinstance(e, ast.JoinedStr):
        return "str"
    if isinstance(e, ast.Call):
        nm = call_name(e) or ""
        short = nm.rsplit(".", 1)[-1]
        if nm in ("struct.unpack", "struct.unpack_from", "unpack"):
            return "tuple"
        if short in ("list", "sorted"):
            return "list"
        if short == "tuple":
            return "tuple"
        if short == "dict" or short == "OrderedDict":
            return "dict"
        if short in ("map", "filter", "zip", "reversed", "enumerate", "iter"):
            return "generator"
        if short in ("set", "frozenset"):
            return "set"
        if short in ("bytes", "bytesjoin", "tobytes", "deHexStr", "readHex"):
            return "bytes"
        if short in ("str", "tostr", "strjoin"):
            return "str"
        if short in ("int", "len"):
            return "int"
        if short == "join" and isinstance(e.func, ast.Attribute) and isinstance(e.func.value, ast.Constant):
            return "bytes" if isinstance(e.func.value.value, bytes) else "str"
        return None
    if isinstance(e, ast.Subscript) and isinstance(e.slice, ast.Slice):
        return _coarse_type(e.value, local)
    if isinstance(e, ast.Name):
        return local.get(e.id)
    if isinstance(e, ast.IfExp):
        a, b = _coarse_type(e.body, local), _coarse_type(e.orelse, local)
        if a and b and a != b:
            return f"{a}|{b}"
        return a or b
    if isinstance(e, ast.BinOp) and isinstance(e.op, ast.Add):
        return _coarse_type(e.left, local) or _coarse_type(e.right, local)
    return None


def _attr_types(fnode):
    """attribute name -> set of coarse types stored (self.X = v ; self.X.append(v) records element types as 'elem:<t>')"""
    selfn = fnode.args.args[0].arg if fnode.args.args else "self"
    local = {}
    out = {}
    for n in walk_no_nested(fnode):
        if isinstance(n, ast.Assign) and isinstance(n.targets[0], ast.Name):
            t = _coarse_type(n.value, local)
            if t:
                local[n.targets[0].id] = t
        if isinstance(n, ast.Assign):
            for tg in n.targets:
                if isinstance(tg, ast.Attribute) and isinstance(tg.value, ast.Name) and tg.value.id == selfn:
                    t = _coarse_type(n.value, local)
                    if t:
                        out.setdefault(tg.attr, set()).add(t)
                    if isinstance(n.value, (ast.ListComp,)):
                        et = _coarse_type(n.value.elt, local)
                        if et:
                            out.setdefault(tg.attr, set()).add("elem:" + et)
        if isinstance(n, ast.Call) and isinstance(n.func, ast.Attribute) and n.func.attr == "append" and isinstance(n.func.value, ast.Attribute) and isinstance(n.func.value.value, ast.Name) and n.func.value.value.id == selfn and n.args:
            t = _coarse_type(n.args[0], local)
            if t:
                out.setdefault(n.func.value.attr, set()).add("elem:" + t)
    return out


def f30_decode_types(ctx, repo):
    ctx.rule("F30", "decoders never store one-shot iterators (generator/map/zip/filter) or mix str with bytes in stored values; an attribute filled by both decompile and fromXML gets the same container type from both", floor=150)
    for rel in sorted(repo.rels()):
        if not rel.startswith(("ttLib/tables/", "cffLib/")) or rel.endswith(("otData.py",)):
            continue
        mod = repo.mod(rel)
        for cq, c in mod.classes.items():
            d = c.methods.get("decompile")
            x = c.methods.get("fromXML")
            dt = _attr_types(d.node) if d else {}
            xt = _attr_types(x.node) if x else {}
            for side_, f, tt in (("decompile", d, dt), ("fromXML", x, xt)):
                for attr, types in sorted(tt.items()):
                    bad = [t for t in types if "generator" in t or ("|" in t and set(t.replace("elem:", "").split("|")) == {"str", "bytes"})]
                    ctx.ob("F30", f.where, f"self.{attr}: {sorted(types)}", not bad, "" if not bad else ("one-shot iterator stored in the object model (second use sees it empty; len() fails)" if any("generator" in b for b in bad) else "str mixed with bytes in one stored value"))
            for attr in sorted(set(dt) & set(xt)):
                a = {t for t in dt[attr] if not t.startswith("elem:")}
                b = {t for t in xt[attr] if not t.startswith("elem:")}
                ea = {t for t in dt[attr] if t.startswith("elem:")}
                eb = {t for t in xt[attr] if t.startswith("elem:")}
                seq = {"list", "tuple"}
                okc = not a or not b or a == b or (a | b) <= {"int", "float", "bool"} or (a | b) <= seq
                oke = not ea or not eb or ea == eb or (ea | eb) <= {"elem:int", "elem:float"} or (ea | eb) <= {"elem:list", "elem:tuple"}
                if (a and b and a != b and (a | b) <= seq) or (ea and eb and ea != eb and (ea | eb) <= {"elem:list", "elem:tuple"}):
                    ctx.note(f"{d.where} self.{attr}: decompile builds {sorted(dt[attr])}, fromXML builds {sorted(xt[attr])} (list/tuple difference: not armed, both are sequences)")
                ctx.ob("F30", d.where, f"self.{attr}: decompile {sorted(dt[attr])} vs fromXML {sorted(xt[attr])}", okc and oke, "" if okc and oke else "binary and XML routes build different container types for the same attribute (code written for one breaks on the other)")


# ---------------------------------------------------------------------------
# WOFF stored/compressed discriminator
# ---------------------------------------------------------------------------


def woff_discriminator(ctx, repo):
    ctx.rule("WOFF-RAW", "WOFFDirectoryEntry: the writer stores a table compressed only when the compressed size is strictly smaller, because the reader treats length == origLength as stored raw", floor=3)
    m = repo.mod("ttLib/sfnt.py")
    enc = m.func("WOFFDirectoryEntry.encodeData")
    dec = m.func("WOFFDirectoryEntry.decodeData")
    # stated on the conditions that hold where each kind of data leaves the function (arm order, early returns, local
    # aliases and complemented comparisons do not matter)
    from ..cfg import CFG, implied_atoms
    from ..core import inline_locals

    def il(fn, e):
        return norm(inline_locals(fn.node, e))

    gd = CFG(dec.node)
    raw_out = [st for st in walk_no_nested(dec.node) if (isinstance(st, ast.Return) and st.value is not None and il(dec, st.value) == "rawData") or (isinstance(st, ast.Assign) and norm(st.targets[0]) == "data" and norm(st.value) == "rawData")]
    ok = bool(raw_out) and all(any(pol and isinstance(t, ast.Compare) and isinstance(t.ops[0], ast.Eq) and {il(dec, t.left), il(dec, t.comparators[0])} == {"self.length", "self.origLength"} for t, pol in implied_atoms(gd, st)) for st in raw_out)
    ctx.ob("WOFF-RAW", dec.where, "reader: the stored bytes are returned as they are exactly when length == origLength", ok)
    ge = CFG(enc.node)
    comp_out = [st for st in walk_no_nested(enc.node) if (isinstance(st, ast.Return) and st.value is not None and "compress" in il(enc, st.value).lower() and il(enc, st.value) != "data") or (isinstance(st, ast.Assign) and norm(st.targets[0]) == "rawData" and norm(st.value) == "compressedData")]

    def strictly_smaller(st):
        for t, pol in implied_atoms(ge, st):
            if isinstance(t, ast.Compare) and len(t.ops) == 1 and "len(compressedData)" == norm(t.left) and il(enc, t.comparators[0]) in ("len(data)", "self.origLength"):
                if pol and isinstance(t.ops[0], ast.Lt) or (not pol) and isinstance(t.ops[0], ast.GtE):
                    return True
        return False

    ok = bool(comp_out) and all(strictly_smaller(st) for st in comp_out)
    ctx.ob("WOFF-RAW", enc.where, "writer: compressed data is stored only when len(compressedData) < origLength (equal size stays raw)", ok, "" if ok else "a table whose compressed size equals its size is written compressed but read back as raw bytes")
    ln = sorted({il(enc, s_.value) for s_ in walk_no_nested(enc.node) if isinstance(s_, ast.Assign) and norm(s_.targets[0]) == "self.length"})
    ok = len(ln) == 2 and any(x in ("self.origLength", "len(data)") for x in ln) and any(x in ("len(rawData)", "len(compressedData)", "len(compress(data, self.zlibCompressionLevel))") for x in ln)
    ctx.ob("WOFF-RAW", enc.where, f"length fields: raw -> origLength, compressed -> length of the compressed data: {ln}", ok)


# ---------------------------------------------------------------------------
# glyf component: flag-conditioned layouts and sibling guards
# ---------------------------------------------------------------------------


def glyf_component(ctx, repo):
    ctx.rule("F4-comp", "GlyphComponent: each struct layout is written together with the flags under which the decoder reads that layout; narrow layouts are chosen only within the range of their struct code; compile and toXML choose the transform form with the same tests, and the 2x2 form is chosen whenever any off-diagonal term is non-zero", floor=12)
    from ..fmt import code_range

    m = repo.mod("ttLib/tables/_g_l_y_f.py")
    env = module_env(repo, m)
    comp = m.func("GlyphComponent.compile")
    dec = m.func("GlyphComponent.decompile")
    tox = m.func("GlyphComponent.toXML")
    LAYOUT = {"ARG_1_AND_2_ARE_WORDS", "ARGS_ARE_XY_VALUES", "WE_HAVE_A_SCALE", "WE_HAVE_AN_X_AND_Y_SCALE", "WE_HAVE_A_TWO_BY_TWO"}

    def chain(node, stop):
        out = []
        cur = node
        p = parent(cur)
        while p is not None and p is not stop:
            if isinstance(p, ast.If):
                side_ = "body" if any(cur is x for x in p.body) else "orelse" if any(cur is x for x in p.orelse) else None
                if side_:
                    out.append((id(p), side_))
            cur = p
            p = parent(cur)
        return list(reversed(out))

    def stmt_of(n):
        while not isinstance(n, ast.stmt):
            n = parent(n)
        return n

    flag_sets = []
    for n in walk_no_nested(comp.node):
        if isinstance(n, ast.Assign) and norm(n.targets[0]) == "flags" and isinstance(n.value, ast.BinOp) and isinstance(n.value.op, ast.BitOr) and isinstance(n.value.right, ast.Name):
            flag_sets.append((n.value.right.id, chain(n, comp.node)))
    W = []
    for c in calls_in(comp.node, nested=False):
        if call_name(c) == "struct.pack":
            fm = try_fold(c.args[0], env)
            ch = chain(stmt_of(c), comp.node)
            fl = {f for f, fch in flag_sets if fch == ch[: len(fch)]} & LAYOUT
            W.append((fm, frozenset(fl), c))
    R = []
    for c in calls_in(dec.node, nested=False):
        if call_name(c) == "struct.unpack":
            fm = try_fold(c.args[0], env)
            pos, neg = set(), set()
            for t, pol in guard_conditions(c):
                for x in ast.walk(t):
                    if isinstance(x, ast.Name) and x.id in LAYOUT:
                        (pos if pol else neg).add(x.id)
            R.append((fm, frozenset(pos), frozenset(neg)))
    for fm, fl, c in W:
        if fm == ">HH" and not fl and "flags" in norm(c):
            continue  # the header (flags, glyphID)
        match = [r for r in R if r[0] == fm and r[1] == fl and not (r[2] & fl) and (r[1] or r[2])]
        ctx.ob("F4-comp", comp.where, f"pack {fm} with flags {sorted(fl)}", bool(match), "" if match else f"decoder reads {fm} under {[(sorted(r[1]), sorted(r[2])) for r in R if r[0] == fm]}")
    # narrow-range guards
    for n in walk_no_nested(comp.node):
        if isinstance(n, ast.If) and isinstance(n.test, ast.BoolOp) and all(isinstance(v, ast.Compare) and len(v.ops) == 2 for v in n.test.values):
            packs = [try_fold(c.args[0], env) for s in n.body for c in calls_in(s) if call_name(c) == "struct.pack"]
            if not packs:
                continue
            code = packs[0].lstrip(">")[0]
            rngs = {(try_fold(v.left, env), try_fold(v.comparators[1], env)) for v in n.test.values}
            ok = rngs == {code_range(code)}
            ctx.ob("F4-comp", comp.where, f"narrow layout {packs[0]} chosen under {norm(n.test)}", ok, "" if ok else f"guard differs from the range of '{code}' {code_range(code)}")
    # transform form tests
    def tests(f):
        out = []
        for n in walk_no_nested(f.node):
            if isinstance(n, ast.If) and "transform[" in norm(n.test):
                out.append(norm(n.test))
        return out

    tc, tx = tests(comp), tests(tox)
    ok = tc == tx and len(tc) == 2
    ctx.ob("F4-comp", comp.where, f"transform form tests compile {tc} == toXML {tx}", ok, "" if ok else "binary and XML writers choose the transform form differently: one of them drops terms the other keeps")
    ok = tc[:1] == ["transform[0][1] or transform[1][0]"]
    ctx.ob("F4-comp", comp.where, "2x2 form whenever either off-diagonal term is non-zero", ok, "" if ok else "a shear with one zero off-diagonal term is written in a scale-only form")
    ok = tc[1:2] == ["transform[0][0] != transform[1][1]"]
    ctx.ob("F4-comp", comp.where, "x/y-scale form whenever the diagonal terms differ", ok)
    # mask applied to user flags is the same on both sides
    def mask(f):
        # the mask may be spelt as an or-expression of flag names or as a named module constant: compare its value
        from ..consteval import env_of

        for n in walk_no_nested(f.node):
            if isinstance(n, ast.Assign) and norm(n.targets[0]).endswith("flags") and isinstance(n.value, ast.BinOp) and isinstance(n.value.op, ast.BitAnd) and norm(n.value.left) == "self.flags":
                v = try_fold(n.value.right, env_of(f.node))
                if isinstance(v, int):
                    return v
        return None

    ok = mask(comp) is not None and mask(comp) == mask(dec)
    ctx.ob("F4-comp", comp.where, f"user-flag mask identical in compile and decompile: {mask(comp)}", ok)
    fx = m.func("GlyphComponent.fromXML")
    b1 = sorted({try_fold(c.args[1]) for c in calls_in(tox.node) if call_name(c) == "fl2str"})
    b2 = sorted({try_fold(c.args[1]) for c in calls_in(fx.node) if call_name(c) == "str2fl"})
    b3 = sorted({try_fold(c.args[1]) for c in calls_in(comp.node) if call_name(c) == "fl2fi"} | {try_fold(c.args[1]) for c in calls_in(dec.node) if call_name(c) == "fi2fl"})
    ok = b1 == b2 == b3 == [14]
    ctx.ob("F4-comp", comp.where, f"fixed-point precision toXML {b1} fromXML {b2} binary {b3}", ok)


# ---------------------------------------------------------------------------
# sorts in preWrite
# ---------------------------------------------------------------------------

PREWRITE_SORTS = {
    ("Coverage.postRead", "sorted(ranges, key=lambda a: a.StartCoverageIndex)"): "restores coverage-index order of range records",
    ("Coverage.preWrite", "sorted(glyphIDs)"): "by glyph id (only used to test sortedness / build ranges)",
    ("Coverage.preWrite", "ranges.sort(key=lambda a: a.StartID)"): "by glyph id",
    ("SingleSubst.preWrite", "sorted(zip(gidItems, items))"): "by glyph id",
    ("MultipleSubst.preWrite", "sorted(list(mapping.keys()), key=font.getGlyphID)"): "by glyph id",
    ("ClassDef._getClassRanges", "items.sort()"): "items are (glyph id, name, class)",
    ("AlternateSubst.preWrite", "items.sort()"): "items are (glyph id, name, set)",
    ("LigatureSubst.preWrite", "items.sort()"): "items are (glyph id, name, set)",
    ("LigatureSubst.preWrite", "sorted(ligatures.keys(), key=self._getLigatureSortKey)"): "only for the tuple-keyed builder API (guarded by isinstance(next(iter(ligatures)), tuple)); sets read from binary/XML are never re-sorted",
    ("BaseGlyphRecordArray.preWrite", "sorted(self.BaseGlyphRecord, key=lambda rec: font.getGlyphID(rec.BaseGlyph))"): "by glyph id",
    ("BaseGlyphList.preWrite", "sorted(self.BaseGlyphPaintRecord, key=lambda rec: font.getGlyphID(rec.BaseGlyph))"): "by glyph id",
    ("ClipList.preWrite", "sorted(clipBoxRanges.items())"): "by glyph id range",
    ("ClipList.preWrite", "sorted((glyphMap[glyphName] for glyphName in glyphs if glyphName in glyphMap))"): "by glyph id",
}


def prewrite_sorts(ctx, repo):
    ctx.rule("PRE-SORT", "preWrite/postRead only apply audited, glyph-id keyed normalising sorts; any other re-ordering of decoded content changes what the table means (first match wins in ligature sets, lookups, rules)", floor=10)
    m = repo.mod("ttLib/tables/otTables.py")
    for q, f in sorted(m.funcs.items()):
        if f.node.name not in ("preWrite", "postRead", "_getClassRanges"):
            continue
        for c in calls_in(f.node):
            if call_name(c) == "sorted" or last_attr(c) == "sort":
                key = (q, norm(c))
                ok = key in PREWRITE_SORTS
                ctx.ob("PRE-SORT", f.where, norm(c)[:110], ok, ("audited: " + PREWRITE_SORTS[key]) if ok else "unaudited sort in a compile-time hook: decoded order is content for first-match structures")
    # the builder-API sort stays confined to the tuple-key branch
    f = m.func("LigatureSubst.preWrite")
    for c in calls_in(f.node):
        if "_getLigatureSortKey" in norm(c):
            conds = [norm(t) for t, pol in guard_conditions(c) if pol]
            ok = any("isinstance(next(iter(ligatures)), tuple)" in t for t in conds)
            ctx.ob("PRE-SORT", f.where, "builder-API ligature sort guarded by the tuple-key test", ok)


C01_EXTRA = [pair_exhaustive, f30_decode_types, woff_discriminator, prewrite_sorts]
C02_EXTRA = [glyf_component]


# classes whose two sides use different groupings/idioms but the same set of element codes (width+signedness)
F1_LETTERS_EQUAL = {
    "ttLib/tables/F__e_a_t.py": ["table_F__e_a_t"],
    "ttLib/tables/S_V_G_.py": ["table_S_V_G_"],
    "ttLib/tables/S__i_l_f.py": ["table_S__i_l_f", "Pass"],
    "ttLib/tables/S__i_l_l.py": ["table_S__i_l_l"],
    "ttLib/tables/_c_m_a_p.py": ["table__c_m_a_p", "cmap_format_2", "cmap_format_4", "cmap_format_6"],
    "ttLib/tables/sbixStrike.py": ["Strike"],
    "ttLib/woff2.py": ["WOFF2GlyfTable"],
}


def _letters(sigs):
    out = set()
    for s in sigs:
        if s.startswith("ss:"):
            for f in s[3:].split(","):
                out.add(f.split(":")[1].split(".")[0][-1])
        elif s.startswith("st:"):
            out |= {c for c in s[3:] if c.isalpha()}
        elif s.startswith("arr:"):
            out.add(s[4:])
    m = {"i": "l", "I": "L"}
    return {m.get(c, c) for c in out if c not in "sxpc"}


def f1_letters(ctx, repo):
    ctx.rule("F1w", "for classes whose encoder and decoder group fields differently, the set of element codes (width and signedness) used on the two sides is equal (weaker than F1: a sign/width change is seen only if that code is not used elsewhere on the same side)", floor=10)
    for rel, owners in sorted(F1_LETTERS_EQUAL.items()):
        sigs = class_signatures(repo, repo.mod(rel))
        for owner in owners:
            d = sigs.get(owner)
            if d is None or not d["W"] or not d["R"]:
                raise AnalysisError(f"F1w instance {rel}:{owner} lost one of its sides")
            lw, lr = _letters(d["W"]), _letters(d["R"])
            unk = [s for s in d["W"] | d["R"] if "?" in s]
            ok = lw == lr and not unk
            ctx.ob("F1w", f"{rel}:{owner}", f"encode codes {sorted(lw)} == decode codes {sorted(lr)}", ok, "" if ok else f"codes differ (or a layout became dynamic: {unk[:1]})")


# ---------------------------------------------------------------------------
# frozen OpenType layouts of the fixed-size headers (independent oracle for shared format strings)
# ---------------------------------------------------------------------------
# each entry: module, format name, [(size in bytes, sign: 's' signed, 'u' unsigned, '*' either/bytes)] in field order.
# Provenance: OpenType specification 1.9 (head, hhea, vhea, maxp, post, OS/2, name, fvar, gvar, glyf header, table directory),
# WOFF 1.0 (header, table directory entry).
def _f(spec):
    out = []
    for tok in spec.split():
        n, s = int(tok[:-1]), tok[-1]
        out.append((n, s))
    return out


SPEC_LAYOUTS = [
    ("ttLib/sfnt.py", "sfntDirectoryFormat", _f("4* 2u 2u 2u 2u")),
    ("ttLib/sfnt.py", "sfntDirectoryEntryFormat", _f("4* 4u 4u 4u")),
    ("ttLib/sfnt.py", "woffDirectoryFormat", _f("4* 4* 4u 2u 2u 4u 2u 2u 4u 4u 4u 4u 4u")),
    ("ttLib/sfnt.py", "woffDirectoryEntryFormat", _f("4* 4u 4u 4u 4u")),
    ("ttLib/sfnt.py", "ttcHeaderFormat", _f("4* 4u 4u")),
    ("ttLib/tables/_h_e_a_d.py", "headFormat", _f("4* 4* 4u 4u 2u 2u 8* 8* 2s 2s 2s 2s 2u 2u 2s 2s 2s")),
    ("ttLib/tables/_h_h_e_a.py", "hheaFormat", _f("4* 2s 2s 2s 2u 2s 2s 2s 2s 2s 2s 2s 2s 2s 2s 2s 2u")),
    ("ttLib/tables/_v_h_e_a.py", "vheaFormat", _f("4* 2s 2s 2s 2u 2s 2s 2s 2s 2s 2s 2s 2s 2s 2s 2s 2u")),
    ("ttLib/tables/_m_a_x_p.py", "maxpFormat_0_5", _f("4* 2u")),
    ("ttLib/tables/_m_a_x_p.py", "maxpFormat_1_0_add", _f("2u " * 13)),
    ("ttLib/tables/_p_o_s_t.py", "postFormat", _f("4* 4s 2s 2s 4u 4u 4u 4u 4u")),
    ("ttLib/tables/O_S_2f_2.py", "OS2_format_0", _f("2u 2s 2u 2u 2u " + "2s " * 11 + "10* 4u 4u 4u 4u 4* 2u 2u 2u 2s 2s 2s 2u 2u")),
    ("ttLib/tables/O_S_2f_2.py", "OS2_format_1", _f("2u 2s 2u 2u 2u " + "2s " * 11 + "10* 4u 4u 4u 4u 4* 2u 2u 2u 2s 2s 2s 2u 2u 4u 4u")),
    ("ttLib/tables/O_S_2f_2.py", "OS2_format_2", _f("2u 2s 2u 2u 2u " + "2s " * 11 + "10* 4u 4u 4u 4u 4* 2u 2u 2u 2s 2s 2s 2u 2u 4u 4u 2s 2s 2u 2u 2u")),
    ("ttLib/tables/O_S_2f_2.py", "OS2_format_5", _f("2u 2s 2u 2u 2u " + "2s " * 11 + "10* 4u 4u 4u 4u 4* 2u 2u 2u 2s 2s 2s 2u 2u 4u 4u 2s 2s 2u 2u 2u 2u 2u")),
    ("ttLib/tables/_n_a_m_e.py", "nameRecordFormat", _f("2u 2u 2u 2u 2u 2u")),
    ("ttLib/tables/_f_v_a_r.py", "FVAR_HEADER_FORMAT", _f("4* 2u 2u 2u 2u 2u 2u")),
    ("ttLib/tables/_f_v_a_r.py", "FVAR_AXIS_FORMAT", _f("4* 4s 4s 4s 2u 2u")),
    ("ttLib/tables/_f_v_a_r.py", "FVAR_INSTANCE_FORMAT", _f("2u 2u")),
    ("ttLib/tables/_g_v_a_r.py", "GVAR_HEADER_FORMAT_HEAD", _f("2u 2u 2u 2u 4u")),
    ("ttLib/tables/_g_l_y_f.py", "glyphHeaderFormat", _f("2s 2s 2s 2s 2s")),
]
SPEC_FIXED = {  # fields the spec defines as 16.16 / 2.14 fixed point
    ("ttLib/tables/_h_e_a_d.py", "headFormat"): {"tableVersion": 16, "fontRevision": 16},
    ("ttLib/tables/_p_o_s_t.py", "postFormat"): {"formatType": 16, "italicAngle": 16},
    ("ttLib/tables/_f_v_a_r.py", "FVAR_AXIS_FORMAT"): {"minValue": 16, "defaultValue": 16, "maxValue": 16},
}


def spec_layouts(ctx, repo):
    from ..fmt import code_range, code_size

    ctx.rule("SPEC-LAY", "the shared sstruct formats of the fixed-size OpenType/WOFF headers have the field widths and signedness the specifications give (an independent reader would otherwise disagree even though pack/unpack agree with each other)", floor=20)
    for rel, name, spec in SPEC_LAYOUTS:
        mod = repo.mod(rel)
        try:
            sf = sstruct_parse(fold_module_sequence(repo, mod, name))
        except (Unknown, ValueError) as ex:
            raise AnalysisError(f"cannot fold {rel}:{name}: {ex}")
        got = []
        fs = sf.formatstring.lstrip("<>=!@")
        import re as _re

        for cnt, ch in _re.findall(r"(\d*)([a-zA-Z?])", fs):
            if ch in "sp":
                got.append((int(cnt or 1), "*"))
            elif ch == "x":
                got.append((int(cnt or 1), "*"))
            else:
                rng = code_range(ch)
                got.append((code_size(ch), "s" if rng and rng[0] < 0 else "u"))
        ok = len(got) == len(spec) and all(g[0] == s[0] and (s[1] == "*" or g[1] == s[1]) for g, s in zip(got, spec)) and sf.formatstring.startswith(">")
        bad = [f"field {i} ({sf.names[i] if i < len(sf.names) else '?'}): {g} vs spec {s}" for i, (g, s) in enumerate(zip(got, spec)) if not (g[0] == s[0] and (s[1] == "*" or g[1] == s[1]))]
        ctx.ob("SPEC-LAY", f"{rel}:<module>", f"{name}: {sf.formatstring} ({sf.size} bytes)", ok, "" if ok else ("; ".join(bad[:2]) or f"{len(got)} fields, spec has {len(spec)} (or not big-endian)"))
        fx = SPEC_FIXED.get((rel, name))
        if fx is not None:
            ctx.ob("SPEC-LAY", f"{rel}:<module>", f"{name}: fixed-point fields {sf.fixes}", sf.fixes == fx, "" if sf.fixes == fx else f"spec: {fx}")
    hm = repo.mod("ttLib/tables/_h_m_t_x.py")
    c = hm.cls("table__h_m_t_x")
    lm = try_fold(c.attrs.get("longMetricFormat")) if "longMetricFormat" in c.attrs else None
    ctx.ob("SPEC-LAY", c.where, f"longMetricFormat = {lm!r} (uint16 advance, int16 side bearing)", lm == "Hh")


def fvar_optional_psname(ctx, repo):
    ctx.rule("OPT-FIELD", "fvar: the optional per-instance postScriptNameID column is written when ANY instance has one (existential test); a universal test drops the names of fonts where only some instances carry one", floor=1)
    mod = repo.mod("ttLib/tables/_f_v_a_r.py")
    f = mod.func("table__f_v_a_r.compile")
    st = next((s for s in walk_no_nested(f.node) if isinstance(s, ast.Assign) and norm(s.targets[0]) == "includePostScriptNames"), None)
    if st is None:
        raise AnalysisError("fvar.compile no longer computes includePostScriptNames")
    v = st.value
    neg = False
    if isinstance(v, ast.UnaryOp) and isinstance(v.op, ast.Not):
        neg, v = True, v.operand
    ok = False
    if isinstance(v, ast.Call) and call_name(v) in ("any", "all") and v.args and isinstance(v.args[0], (ast.GeneratorExp, ast.ListComp)):
        elt = v.args[0].elt
        if isinstance(elt, ast.Compare) and len(elt.ops) == 1 and try_fold(elt.comparators[0]) == 0xFFFF and "postscriptNameID" in norm(elt.left):
            existential_has = call_name(v) == "any" and isinstance(elt.ops[0], ast.NotEq) and not neg
            not_all_missing = call_name(v) == "all" and isinstance(elt.ops[0], ast.Eq) and neg
            ok = existential_has or not_all_missing
    ctx.ob("OPT-FIELD", f.where, norm(st)[:110], ok, "" if ok else "instances with a PostScript name lose it unless every instance has one")


C02_EXTRA.append(fvar_optional_psname)


# ---------------------------------------------------------------------------
# COMP-skip: every composite-glyph walker skips the same number of bytes per flag
# ---------------------------------------------------------------------------
def _skip_map(fn, cenv):
    out = {}
    more = None
    for st in ast.walk(fn):
        if isinstance(st, ast.If) and isinstance(st.test, ast.BinOp) and isinstance(st.test.op, ast.BitAnd):
            m = try_fold(st.test.right, cenv)
            if not isinstance(m, int):
                continue

            def adv(stmts):
                n = None
                for s in stmts:
                    if isinstance(s, ast.AugAssign) and isinstance(s.op, ast.Add) and isinstance(s.target, ast.Name) and isinstance(s.value, ast.Constant):
                        n = (n or 0) + s.value.value
                    elif isinstance(s, ast.Assign) and isinstance(s.value, ast.Subscript) and isinstance(s.value.slice, ast.Slice) and s.value.slice.upper is None and isinstance(s.value.slice.lower, ast.Constant) and norm(s.targets[0]) == norm(s.value.value):
                        n = (n or 0) + s.value.slice.lower.value
                return n

            a = adv(st.body)
            if a is None:
                continue
            e = None
            if st.orelse and not (len(st.orelse) == 1 and isinstance(st.orelse[0], ast.If)):
                e = adv(st.orelse)
            out[m] = (a, e)
        elif isinstance(st, ast.Assign) and norm(st.targets[0]) == "more" and isinstance(st.value, ast.BinOp) and isinstance(st.value.op, ast.BitAnd):
            more = try_fold(st.value.right, cenv)
    return out, more


def composite_walkers(ctx, repo):
    ctx.rule("COMP-skip", "every routine that walks composite-glyph records without decoding them (Glyph.getComponentNames, Glyph.trim, subset.remapComponentsFast) advances by the same byte count per flag as GlyphComponent.decompile consumes, and stops on the same MORE_COMPONENTS bit", floor=3)
    gm = repo.mod("ttLib/tables/_g_l_y_f.py")
    genv = module_env(repo, gm)
    canon, cmore = _skip_map(gm.func("GlyphComponent.decompile").node, genv)
    want = {0x0001: (4, 2), 0x0008: (2, None), 0x0040: (4, None), 0x0080: (8, None)}
    ok = canon == want and cmore == 0x0020
    ctx.ob("COMP-skip", "ttLib/tables/_g_l_y_f.py:GlyphComponent.decompile", f"flag -> bytes consumed {canon}, more = {cmore}", ok, "" if ok else f"TrueType composite record layout is {want}, MORE_COMPONENTS 0x0020")
    sm = repo.mod("subset/__init__.py")
    sites = [(gm, "Glyph.getComponentNames"), (gm, "Glyph.trim"), (sm, "remapComponentsFast")]
    for mod, q in sites:
        f = mod.func(q)
        got, more = _skip_map(f.node, module_env(repo, mod))
        got = {k: v for k, v in got.items() if k in canon}
        ok = got == canon and more == cmore
        ctx.ob("COMP-skip", f.where, f"flag -> bytes skipped {got}, more = {more}", ok, "" if ok else f"decompile consumes {canon}, more = {cmore}: the walker loses its place after such a component")


C02_EXTRA.append(composite_walkers)


def hmtx_trimming(ctx, repo):
    ctx.rule("HMTX", "hmtx/vmtx: the long-metric run and the side-bearing-only tail are complementary slices at one index; the header count is the length of the kept run; reader and writer repeat the same record format numberOfMetrics times and use a signed 16-bit array for the tail; trailing glyphs take the advance of the last long metric; the trimming loop keeps at least one record", floor=6)
    mod = repo.mod("ttLib/tables/_h_m_t_x.py")
    c, d = mod.func("table__h_m_t_x.compile"), mod.func("table__h_m_t_x.decompile")
    sl = {}
    for st in ast.walk(c.node):
        if isinstance(st, ast.Assign) and isinstance(st.value, ast.Subscript) and isinstance(st.value.slice, ast.Slice) and norm(st.value.value) == "metrics":
            s_ = st.value.slice
            sl[norm(st.targets[0])] = (norm(s_.lower) if s_.lower else None, norm(s_.upper) if s_.upper else None)
    ok = sl.get("additionalMetrics", (None,))[0] is not None and sl.get("additionalMetrics") == (sl.get("metrics", (None, None))[1], None) and sl.get("metrics", (1,))[0] is None
    ctx.ob("HMTX", c.where, f"tail = metrics[{sl.get('additionalMetrics')}], kept = metrics[{sl.get('metrics')}]", ok, "" if ok else "the two slices overlap or leave a gap: a glyph's metrics are written twice or not at all")
    sa_ = [call for call in calls_in(c.node) if call_name(call) == "setattr" and len(call.args) == 3 and "numberOfMetricsName" in norm(call.args[1])]
    cnt = [st for st in ast.walk(c.node) if isinstance(st, ast.Assign) and norm(st.targets[0]) == "numberOfMetrics" and norm(st.value) == "len(metrics)"]
    ok = bool(sa_) and norm(sa_[0].args[2]) == "numberOfMetrics" and bool(cnt) and any(s2.lineno < cnt[0].lineno for s2 in ast.walk(c.node) if isinstance(s2, ast.Assign) and norm(s2.targets[0]) == "metrics" and isinstance(s2.value, ast.Subscript))
    ctx.ob("HMTX", c.where, "header count = len(metrics) taken after the trim", ok, "" if ok else "numberOfHMetrics no longer equals the number of long records written")
    fm = [norm(st.value) for f in (c, d) for st in ast.walk(f.node) if isinstance(st, ast.Assign) and norm(st.targets[0]) == "metricsFmt"]
    ok = len(fm) == 2 and fm[0] == fm[1] and "numberOfMetrics" in fm[0]
    ctx.ob("HMTX", mod.rel + ":table__h_m_t_x", f"record format on both sides: {fm}", ok)
    arr = [try_fold(call.args[0]) for f in (c, d) for call in calls_in(f.node) if call_name(call) == "array.array" and call.args]
    ctx.ob("HMTX", mod.rel + ":table__h_m_t_x", f"tail array typecodes {arr}", arr == ["h", "h"])
    la = [norm(st.value) for st in ast.walk(d.node) if isinstance(st, ast.Assign) and norm(st.targets[0]) == "lastAdvance"]
    ctx.ob("HMTX", d.where, f"lastAdvance = {la}", la == ["metrics[-2]"], "" if la == ["metrics[-2]"] else "trailing glyphs must repeat the advance of the last (advance, bearing) pair")
    from ..core import private_callees

    w = next((n for fx in [c] + private_callees(repo, c) for n in ast.walk(fx.node) if isinstance(n, ast.While)), None)
    ok = False
    if w is not None:
        import re as _re

        t = norm(w.test)
        # name-insensitive: while M[I - 2][0] == A, where A = M[-1][0] in the same function, and an `I <= 1` floor that breaks
        mm = _re.fullmatch(r"(\w+)\[(\w+) - 2\]\[0\] == (\w+)", t)
        if mm:
            M_, I_, A_ = mm.groups()
            owner = next(fx for fx in [c] + private_callees(repo, c) if any(n is w for n in ast.walk(fx.node)))
            a_def = [norm(st.value) for st in ast.walk(owner.node) if isinstance(st, ast.Assign) and norm(st.targets[0]) == A_]
            floor_ = [n for n in ast.walk(w) if isinstance(n, ast.If) and norm(n.test) in (f"{I_} <= 1", f"{I_} < 2", f"{I_} == 1")]
            ok = a_def == [f"{M_}[-1][0]"] and bool(floor_) and any(isinstance(b, ast.Break) for b in floor_[0].body)
    ctx.ob("HMTX", c.where, f"trim loop: while {norm(w.test) if w is not None else None}, stops at one record", ok, "" if ok else "the run of equal trailing advances is compared at the wrong index or can consume every record")
    sz = [norm(st.value) for st in ast.walk(d.node) if isinstance(st, ast.Assign) and norm(st.targets[0]) == "tableSize"]
    ctx.ob("HMTX", d.where, f"tableSize = {sz}", sz == ["4 * numberOfMetrics + 2 * numberOfSideBearings"])


C02_EXTRA.append(hmtx_trimming)


def glyf_delta_codec(ctx, repo):
    ctx.rule("GLYF-delta", "glyf simple-glyph coordinates: flag bits are the TrueType ones; the one-byte form is chosen exactly for |delta| <= 255 and stores the magnitude with the sign in the 'same' bit, otherwise a signed 16-bit word; the reader adds 'B' for the short flag, 'h' when neither short nor same; a flag repeats at most 255 times and the reader adds one to the stored count; greedy and for-speed writers encode a coordinate the same way", floor=8)
    mod = repo.mod("ttLib/tables/_g_l_y_f.py")
    cenv = module_env(repo, mod)
    want = {"flagOnCurve": 1, "flagXShort": 2, "flagYShort": 4, "flagRepeat": 8, "flagXsame": 16, "flagYsame": 32, "flagOverlapSimple": 64, "flagCubic": 128}
    got = {k: try_fold(mod.const(k), cenv) for k in want}
    ctx.ob("GLYF-delta", mod.rel + ":<module>", f"flag bits {got}", got == want)
    for fn in ("Glyph.compileDeltasGreedy", "Glyph.compileDeltasForSpeed"):
        f = mod.func(fn)
        bounds = []
        for n in ast.walk(f.node):
            if isinstance(n, ast.Compare) and len(n.ops) >= 2 and all(isinstance(o, ast.LtE) for o in n.ops):
                lo, hi = try_fold(n.left, cenv), try_fold(n.comparators[-1], cenv)
                bounds.append((lo, hi))
        ok = len(bounds) == 2 and all(b == (-255, 255) for b in bounds)
        ctx.ob("GLYF-delta", f.where, f"one-byte form for deltas in {bounds}", ok, "" if ok else "the magnitude must fit a uint8: [-255, 255], inclusive on both sides")
        rep = [norm(n) for n in ast.walk(f.node) if isinstance(n, ast.Compare) and norm(n.left) == "repeat" and isinstance(n.ops[0], ast.NotEq)]
        ctx.ob("GLYF-delta", f.where, f"repeat count capped: {rep}", rep == ["repeat != 255"], "" if rep == ["repeat != 255"] else "the repeat count is one byte")
        packs = sorted({try_fold(c.args[0], cenv) for c in calls_in(f.node) if call_name(c) == "struct.pack"})
        ctx.ob("GLYF-delta", f.where, f"long form packed as {packs}", packs == [">h"])
    # sibling agreement of the short arm (x) between greedy and for-speed
    def short_arm(fn):
        f = mod.func(fn)
        for n in ast.walk(f.node):
            if isinstance(n, ast.If) and len(n.orelse) == 1 and isinstance(n.orelse[0], ast.If):
                inner = n.orelse[0]
                if any("flagXShort" in norm(s) for s in inner.body):
                    return [norm(s) for s in inner.body]
        return None

    a, b = short_arm("Glyph.compileDeltasGreedy"), short_arm("Glyph.compileDeltasForSpeed")
    ctx.ob("GLYF-delta", mod.rel + ":Glyph", "greedy and for-speed writers build the short x form identically", a is not None and a == b, "" if a == b else f"{a} vs {b}")
    ok = a is not None and any("x = -x" in s for s in a) and any("x > 0" in s and "flagXsame" in s for s in a)
    ctx.ob("GLYF-delta", mod.rel + ":Glyph.compileDeltasGreedy", "short form: positive sets the 'same' bit, otherwise the magnitude is stored", ok)
    r = mod.func("Glyph.decompileCoordinatesRaw")
    adds = []
    for n in ast.walk(r.node):
        if isinstance(n, ast.If) and "flagXShort" in norm(n.test):
            t1 = [try_fold(s.value.right, cenv) for s in n.body if isinstance(s, ast.Assign) and isinstance(s.value, ast.BinOp)]
            el = n.orelse[0] if len(n.orelse) == 1 and isinstance(n.orelse[0], ast.If) else None
            t2 = [try_fold(s.value.right, cenv) for s in el.body if isinstance(s, ast.Assign) and isinstance(s.value, ast.BinOp)] if el is not None else []
            adds = [t1, norm(el.test) if el is not None else None, t2]
    ok = adds == [["B"], "not flag & flagXsame", ["h"]]
    ctx.ob("GLYF-delta", r.where, f"reader x format: short -> {adds[0] if adds else None}, {adds[1] if adds else None} -> {adds[2] if adds else None}", ok)
    rp = [norm(st.value) for st in ast.walk(r.node) if isinstance(st, ast.Assign) and norm(st.targets[0]) == "repeat" and not isinstance(st.value, ast.Constant)]
    ctx.ob("GLYF-delta", r.where, f"repeat = {rp}", rp == ["data[pos] + 1"], "" if rp == ["data[pos] + 1"] else "the stored count is the number of additional repetitions")


C02_EXTRA.append(glyf_delta_codec)


def cmap_group_codec(ctx, repo):
    ctx.rule("CMAP-grp", "cmap formats 12/13: each class's run test and glyph-id expansion describe the same run (12: glyph ids ascend with the characters, expansion is a range; 13: one glyph id, expansion repeats it); _format_step is the per-character glyph-id increment; a group is (first char, last char, first glyph) on both sides and its length is last - first + 1", floor=6)
    from .otl import _linear

    mod = repo.mod("ttLib/tables/_c_m_a_p.py")
    for cls, step in (("cmap_format_12", 1), ("cmap_format_13", 0)):
        c = mod.cls(cls)
        fs = try_fold(c.attrs.get("_format_step")) if "_format_step" in c.attrs else None
        run = mod.func(cls + "._IsInSameRun")
        gid = mod.func(cls + "._computeGIDs")
        rv = next((n.value for n in ast.walk(run.node) if isinstance(n, ast.Return)), None)
        conj = rv.values if isinstance(rv, ast.BoolOp) and isinstance(rv.op, ast.And) else []
        incs = {}
        for t in conj:
            if isinstance(t, ast.Compare) and isinstance(t.ops[0], ast.Eq):
                l, r = _linear(t.left), _linear(t.comparators[0])
                if l and r and len(l[0]) == 1 and len(r[0]) == 1:
                    incs[list(l[0])[0]] = r[1] - l[1]
        ok = fs == step and incs == {"glyphID": step, "charCode": 1}
        ctx.ob("CMAP-grp", run.where, f"_format_step = {fs}; same run when glyphID == last + {incs.get('glyphID')} and charCode == last + {incs.get('charCode')}", ok, "" if ok else f"format {cls[-2:]} runs advance the glyph id by {step} per character")
        gv = next((n.value for n in ast.walk(gid.node) if isinstance(n, ast.Return)), None)
        if step == 1:
            ok = isinstance(gv, ast.Call) and call_name(gv) == "range" and len(gv.args) == 2 and norm(gv.args[0]) == "startingGlyph" and _linear(gv.args[1]) == ({"startingGlyph": 1, "numberOfGlyphs": 1}, 0)
        else:
            ok = norm(gv) == "[startingGlyph] * numberOfGlyphs"
        ctx.ob("CMAP-grp", gid.where, f"expansion: {norm(gv)}", ok, "" if ok else "the reader expands a group differently from how the writer formed it")
    d = mod.func("cmap_format_12_or_13.decompile")
    ln = [st.value for st in ast.walk(d.node) if isinstance(st, ast.Assign) and norm(st.targets[0]) == "lenGroup"]
    ok = bool(ln) and _linear(ln[0]) == ({"endCharCode": 1, "startCharCode": -1}, 1)
    ctx.ob("CMAP-grp", d.where, f"lenGroup = {norm(ln[0]) if ln else None}", ok, "" if ok else "a group first..last holds last - first + 1 characters")
    rg = [c for c in calls_in(d.node) if call_name(c) == "range" and len(c.args) == 2 and norm(c.args[0]) == "startCharCode"]
    ok = bool(rg) and _linear(rg[0].args[1]) == ({"endCharCode": 1}, 1)
    ctx.ob("CMAP-grp", d.where, f"characters: {norm(rg[0]) if rg else None}", ok)
    idx = sorted(norm(st.value.slice) for st in ast.walk(d.node) if isinstance(st, ast.Assign) and isinstance(st.value, ast.Subscript) and norm(st.value.value) == "groups")
    ctx.ob("CMAP-grp", d.where, f"group fields read at {idx}", idx == ["i * 3", "i * 3 + 1", "i * 3 + 2"])
    c = mod.func("cmap_format_12_or_13.compile")
    packs = [[norm(a) for a in call.args[1:]] for call in calls_in(c.node) if call_name(call) == "struct.pack" and try_fold(call.args[0]) == ">LLL"]
    ok = len(packs) == 2 and all(p == ["startCharCode", "lastCharCode", "startGlyphID"] for p in packs)
    ctx.ob("CMAP-grp", c.where, f"groups packed as {packs}", ok, "" if ok else "both the in-loop flush and the final flush write (first char, last char, first glyph)")
    init = [st for st in ast.walk(c.node) if isinstance(st, ast.Assign) and norm(st.targets[0]) in ("lastGlyphID", "lastCharCode") and isinstance(st.value, ast.BinOp)]
    vals = {norm(st.targets[0]): norm(st.value) for st in init}
    ok = vals == {"lastGlyphID": "startGlyphID - self._format_step", "lastCharCode": "startCharCode - 1"}
    ctx.ob("CMAP-grp", c.where, f"run state primed with {vals}", ok)


C02_EXTRA.append(cmap_group_codec)


def cmap14_default_runs(ctx, repo):
    from .otl import _linear

    ctx.rule("CMAP-uvs", "cmap format 14 default-UVS ranges: the reader expands additionalCount + 1 code points; the writer's run counter starts at -1, grows by one per entry, is written as cnt - 1 when an entry breaks the run (the counter already includes that entry) and as cnt at the end, and restarts at 0", floor=4)
    mod = repo.mod("ttLib/tables/_c_m_a_p.py")
    d = mod.func("cmap_format_14.decompile")
    cn = [st.value for st in ast.walk(d.node) if isinstance(st, ast.Assign) and norm(st.targets[0]) == "cnt"]
    ok = bool(cn) and _linear(cn[0]) == ({"addtlCnt": 1}, 1)
    ctx.ob("CMAP-uvs", d.where, f"cnt = {norm(cn[0]) if cn else None}", ok)
    rg = [c for c in calls_in(d.node) if call_name(c) == "range" and len(c.args) == 2 and norm(c.args[0]) == "firstBaseUV"]
    ok = bool(rg) and _linear(rg[0].args[1]) == ({"firstBaseUV": 1, "cnt": 1}, 0)
    ctx.ob("CMAP-uvs", d.where, f"range expanded: {norm(rg[0]) if rg else None}", ok)
    c = mod.func("cmap_format_14.compile")
    loop = next((n for n in ast.walk(c.node) if isinstance(n, ast.For) and norm(n.iter) == "defList"), None)
    if loop is None:
        raise AnalysisError("cmap_format_14.compile: default UVS loop not found")
    inloop = [call for call in calls_in(loop) if call_name(call) == "struct.pack" and try_fold(call.args[0]) == ">3sB"]
    p = parent(loop)
    blk = next(b for b in (getattr(p, "body", []), getattr(p, "orelse", [])) if loop in b)
    after = [call for st in blk[blk.index(loop) + 1 :] for call in calls_in(st) if call_name(call) == "struct.pack" and try_fold(call.args[0]) == ">3sB"]
    ok = len(inloop) == 1 and _linear(inloop[0].args[2]) == ({"cnt": 1}, -1) and len(after) >= 1 and _linear(after[0].args[2]) == ({"cnt": 1}, 0)
    ctx.ob("CMAP-uvs", c.where, f"in-loop flush writes {norm(inloop[0].args[2]) if inloop else None}, final flush writes {norm(after[0].args[2]) if after else None}", ok, "" if ok else "additionalCount is (entries in the run) - 1: the counter has already counted the entry that broke the run")
    init = [try_fold(st.value) for st in blk[: blk.index(loop)] if isinstance(st, ast.Assign) and norm(st.targets[0]) == "cnt"]
    reset = [try_fold(st.value) for st in ast.walk(loop) if isinstance(st, ast.Assign) and norm(st.targets[0]) == "cnt"]
    inc = [norm(st) for st in loop.body if isinstance(st, ast.AugAssign) and norm(st.target) == "cnt"]
    ok = init == [-1] and reset == [0] and inc == ["cnt += 1"]
    ctx.ob("CMAP-uvs", c.where, f"counter: init {init}, step {inc}, restart {reset}", ok)


C02_EXTRA.append(cmap14_default_runs)

"""F20 SCHEMA-EXH / F19 VARIDX-PAIR: registries that must cover what the schema
says exists (C07 subsetter, C08 instancer, C17 reorderGlyphs + scaleUpem)."""

from __future__ import annotations

import ast
import re

from ..core import AnalysisError, norm, calls_in, call_name, last_attr, walk_no_nested, parent, dotted_name
from ..consteval import fold, try_fold, module_env, Unknown
from ..cfg import CFG, guard_conditions
from ..schema import load_schema
from .. import inject

GLYPH_TYPES = {"GlyphID", "GlyphID32", "GlyphCIDMap", "CIDGlyphMap", "VarCompositeGlyphList"}
GLYPH_API = {"getGlyphOrder", "getGlyphID", "getGlyphName", "getGlyphNameMany", "getGlyphIDMany", "getReverseGlyphMap"}
# DeltaSetIndexMap-typed fields that the OpenType spec defines as indexed by glyph id (HVAR/VVAR)
GLYPH_INDEXED_MAPS = {"AdvWidthMap", "LsbMap", "RsbMap", "AdvHeightMap", "TsbMap", "BsbMap", "VOrgMap"}


def _glyph_pred(sc):
    def pred(f):
        if f.type in GLYPH_TYPES or f.type.startswith("AATLookup"):
            return True
        if sc.type_target(f) in ("Coverage", "ClassDef"):
            return True
        if f.name in GLYPH_INDEXED_MAPS:
            return True
        return False

    return pred


def glyph_indexed_tables(repo):
    """tag -> (kind, witness) for every table class that stores data per glyph."""
    sc = load_schema(repo)
    pred = _glyph_pred(sc)
    out = {}
    for tag, c in sorted(inject.all_table_tags(repo).items()):
        if repo.is_subclass(c, "BaseTTXConverter") or (tag.strip() in sc.by_class and tag.strip() in ("COLR",)):
            root = tag.strip()
            if root not in sc.by_class:
                continue
            for path, f in sc.reach_fields(root, root):
                if pred(f):
                    out[tag] = ("schema", " > ".join(path[-3:]))
                    break
        else:
            uses = set()
            # recalc() reads the outlines to recompute derived header fields; that is not per-glyph *storage*.  Helpers that
            # are called only from recalc (an extracted block) are part of it.
            excluded = {id(f.node) for f in c.mod.funcs.values() if getattr(f.node, "name", None) == "recalc"}
            grew = True
            while grew:
                grew = False
                for q, f in c.mod.funcs.items():
                    if id(f.node) in excluded or not hasattr(f.node, "name"):
                        continue
                    sites = [(g, call) for g in c.mod.funcs.values() for call in calls_in(g.node, nested=False) if last_attr(call) == f.node.name or call_name(call) == f.node.name]
                    if sites and all(id(g.node) in excluded for g, _ in sites):
                        excluded.add(id(f.node))
                        grew = True
            for q, f in c.mod.funcs.items():
                if id(f.node) in excluded:
                    continue
                if f.cls is None or f.cls.name != c.name and not f.cls.name.startswith("table_"):
                    # helper classes of the module (sub-records) count too
                    pass
                for call in calls_in(f.node):
                    if last_attr(call) in GLYPH_API:
                        uses.add(f"{q.split('.')[-1]}:{last_attr(call)}")
            if uses:
                out[tag] = ("api", ", ".join(sorted(uses)[:3]))
    return out


# ---------------------------------------------------------------------------
# C07 subsetter
# ---------------------------------------------------------------------------

# Glyph-indexed tables that are knowingly left to the "don't know how to subset; dropped" arm
SUBSET_FALLTHROUGH = {
    "TSI1": "VTT source (private); dropped unless passthrough",
    "TSI5": "VTT source (private); dropped unless passthrough",
    "maxp": "numGlyphs is recomputed from the glyph order on compile (derived count, no per-glyph data)",
    "Glat": "Graphite: dropped by default",
    "Silf": "Graphite: dropped by default",
    "Gloc": "Graphite: dropped by default",
    "cidg": "AAT: no subsetter, dropped by the fallthrough arm",
    "gcid": "AAT: no subsetter, dropped by the fallthrough arm",
    "mort": "AAT: no subsetter, dropped by the fallthrough arm",
    "morx": "AAT: no subsetter, dropped by the fallthrough arm",
    "SVG ": "has subset_glyphs in subset/svg.py",
}


def subset_injections(repo):
    inj = {}
    for rel in ("subset/__init__.py", "subset/cff.py", "subset/svg.py"):
        for cid, ms in inject.injected_methods(repo, repo.mod(rel)).items():
            inj.setdefault(cid, {}).update(ms)
    return inj


def _has_injected(repo, inj, tag, name):
    for t in inject.tt_mro_tags(repo, tag):
        for key in ("tt:" + t, "tt:" + t.strip()):
            if name in inj.get(key, {}):
                return True
    return False


def c07_subsetter(ctx, repo):
    ctx.rule("F20-sub", "every table that stores per-glyph data (per the otData schema or its use of the glyph-order API) has a subset_glyphs handler or is dropped, and none is exempted from subsetting by the no-subset list", floor=25)
    ctx.rule("F20-lookups", "every GSUB lookup class has closure_glyphs and subset_glyphs, every GPOS lookup class has subset_glyphs, contextual classes have subset_lookups and collect_lookups; Coverage/ClassDef helpers exist", floor=30)
    ctx.rule("SUB-order", "the font's glyph order is replaced only after every table was subset against the old order; the new order and the gid map derive from the old order by order-preserving comprehensions; unknown tables are dropped", floor=4)
    sm = repo.mod("subset/__init__.py")
    env = module_env(repo, sm)
    opts = sm.cls("Options")
    try:
        no_subset = set(_fold_class_list(repo, sm, opts, "_no_subset_tables_default"))
        drop = set(_fold_class_list(repo, sm, opts, "_drop_tables_default"))
    except Unknown as ex:
        raise AnalysisError(f"cannot fold subset Options defaults: {ex}")
    inj = subset_injections(repo)
    G = glyph_indexed_tables(repo)
    ctx.info["glyph_indexed_tables"] = {k: v for k, v in G.items()}
    for tag, (kind, wit) in sorted(G.items()):
        t = tag.strip()
        where = f"subset/__init__.py:Options"
        if t == "maxp":
            ctx.ob("F20-sub", where, "'maxp' uses the glyph order only for numGlyphs (derived count): audited, may be in the no-subset list", True, nontrivial=False)
            continue
        ok_ns = t not in no_subset
        ctx.ob("F20-sub", where, f"glyph-indexed table '{t}' not in _no_subset_tables_default", ok_ns, f"witness: {kind} {wit}" + ("" if ok_ns else "; a table holding glyph references is passed through unsubset: the result can refer to removed glyphs"))
        if not ok_ns:
            continue
        has = _has_injected(repo, inj, tag, "subset_glyphs")
        ok = has or t in drop or tag in SUBSET_FALLTHROUGH or t in SUBSET_FALLTHROUGH
        ctx.ob("F20-sub", "subset/__init__.py:<module>", f"glyph-indexed table '{t}' has subset_glyphs or is dropped by default or audited fallthrough", ok, "" if ok else "glyph-indexed table lost its subsetter: it will be dropped with a warning (or kept stale with passthrough)")
    # lookup classes
    sc = load_schema(repo)
    for tag, need in (("GSUB", ("closure_glyphs", "subset_glyphs")), ("GPOS", ("subset_glyphs",))):
        for typ, cname in sorted(sc.lookup_types[tag].items()):
            for m in need:
                ok = m in inj.get("ot:" + cname, {})
                ctx.ob("F20-lookups", "subset/__init__.py:<module>", f"{tag} type {typ} {cname}.{m}", ok, "" if ok else "lookup class has no handler")
    for cname in ("ContextSubst", "ChainContextSubst", "ContextPos", "ChainContextPos", "ExtensionSubst", "ExtensionPos"):
        for m in ("subset_lookups", "collect_lookups", "prune_post_subset", "may_have_non_1to1"):
            if m == "may_have_non_1to1" and cname.endswith("Pos"):
                continue
            ok = m in inj.get("ot:" + cname, {})
            ctx.ob("F20-lookups", "subset/__init__.py:<module>", f"{cname}.{m}", ok, "" if ok else "nested-lookup class has no handler")
    for cname, ms in (("Coverage", ("intersect", "intersect_glyphs", "subset", "remap")), ("ClassDef", ("intersect", "intersect_class", "subset", "remap")), ("LookupList", ("subset_lookups", "neuter_lookups", "closure_lookups")), ("FeatureList", ("subset_lookups", "collect_lookups", "subset_features")), ("ScriptList", ("subset_features",))):
        for m in ms:
            ok = m in inj.get("ot:" + cname, {})
            ctx.ob("F20-lookups", "subset/__init__.py:<module>", f"{cname}.{m}", ok)
    # order discipline
    f = sm.func("Subsetter._subset_glyphs")
    g = CFG(f.node)
    sgo = [c for c in calls_in(f.node, nested=False) if last_attr(c) == "setGlyphOrder"]
    subs = [c for c in calls_in(f.node, nested=False) if last_attr(c) == "subset_glyphs"]
    ok = len(sgo) == 1 and bool(subs) and norm(sgo[0].args[0]) == "self.new_glyph_order" and g.post_dominates_exit(g.id_of(sgo[0])) and all(not g.reachable(g.id_of(sgo[0]), g.id_of(s)) for s in subs)
    ctx.ob("SUB-order", f.where, "font.setGlyphOrder(self.new_glyph_order) after all table.subset_glyphs calls, on every path", ok, "" if ok else "a table can be subset against the new glyph order")
    # the fallthrough arm deletes the table
    dels = [n for n in walk_no_nested(f.node) if isinstance(n, ast.Delete) and norm(n.targets[0]) == "font[tag]"]
    from ..cfg import implied_conditions as _ic4

    conds = [sorted(t + ("" if pol else "!") for t, pol in _ic4(g, d)) for d in dels]
    want_any = {"hasattr(clazz, 'subset_glyphs')!", "self.options.passthrough_tables!", "tag.strip() in self.options.no_subset_tables!"}
    # some deletion happens exactly where there is no subsetter, no passthrough and no exemption (however the chain is spelt)
    ok = any(want_any <= set(c) and not any(x.startswith("retain") or x.startswith("not retain") for x in c) for c in conds)
    ctx.ob("SUB-order", f.where, "tables without a subsetter are deleted unless passthrough", ok, "" if ok else f"fallthrough arm changed: {conds}")
    cg = sm.func("Subsetter._closure_glyphs")
    from ..core import walk_closure

    clos = list(walk_closure(repo, cg))  # the block may have been moved into a private method (extract method)
    srcs = {norm(n.targets[0]): n.value for n in clos if isinstance(n, ast.Assign)}
    ngo = [n for n in clos if isinstance(n, ast.Assign) and norm(n.targets[0]) == "new_glyph_order"]
    ok = bool(ngo) and all(isinstance(n.value, ast.ListComp) and norm(n.value.generators[0].iter) == "glyph_order" and norm(n.value.elt) == norm(n.value.generators[0].target) for n in ngo)
    ctx.ob("SUB-order", cg.where, "new_glyph_order = [g for g in glyph_order if ...] (order-preserving filter of the old order)", ok)
    gim = srcs.get("self.glyph_index_map")
    ok = gim is not None and isinstance(gim, ast.DictComp) and len(gim.generators) == 1 and norm(gim.generators[0].iter) == "range(len(new_glyph_order))" and norm(gim.key) == f"order[new_glyph_order[{norm(gim.generators[0].target)}]]" and norm(gim.value) == norm(gim.generators[0].target)
    ctx.ob("SUB-order", cg.where, "glyph_index_map = {old gid of new_glyph_order[i]: i}", ok, "" if ok else "gid remap is not derived from the same new order list")


def _fold_class_list(repo, mod, cls, name):
    """fold a class-level list built by `X = [...]` followed by `X += [...]`"""
    val = None
    for st in cls.node.body:
        if isinstance(st, ast.Assign) and isinstance(st.targets[0], ast.Name) and st.targets[0].id == name:
            val = list(fold(st.value))
        elif isinstance(st, ast.AugAssign) and isinstance(st.target, ast.Name) and st.target.id == name:
            val = val + list(fold(st.value))
    if val is None:
        raise Unknown(name)
    return val


# ---------------------------------------------------------------------------
# F19 var-index remap pairing
# ---------------------------------------------------------------------------


def f19_varidx(ctx, repo, scope, rule="F19"):
    ctx.rule(rule, "the index map returned by VarStore.optimize()/subset_varidxes() is bound and used (never discarded), and a map applied to GDEF is applied to GPOS in the same function under `if 'GPOS' in font`", floor=1)
    n = 0
    for rel in sorted(repo.rels()):
        if not rel.startswith(scope):
            continue
        mod = repo.mod(rel)
        for q, f in mod.funcs.items():
            for c in calls_in(f.node, nested=False):
                la = last_attr(c)
                recv = norm(c.func.value) if isinstance(c.func, ast.Attribute) else ""
                is_store_opt = la == "optimize" and re.search(r"store", recv, re.I) and not re.search(r"builder", recv, re.I)
                if not (is_store_opt or la == "subset_varidxes"):
                    continue
                n += 1
                p = parent(c)
                text = f"{recv}.{la}(...)"
                if isinstance(p, ast.Expr):
                    ctx.ob(rule, f.where, text, False, "the returned variation-index map is discarded: references into the store keep their old indices")
                    continue
                if isinstance(p, ast.Assign) and isinstance(p.targets[0], ast.Name):
                    name = p.targets[0].id
                    used = any(isinstance(x, ast.Name) and x.id == name and isinstance(x.ctx, ast.Load) for x in walk_no_nested(f.node))
                    ctx.ob(rule, f.where, f"{name} = {text}", used, "" if used else "the returned map is bound but never applied")
                else:
                    ctx.ob(rule, f.where, text + " used as an argument / returned", True)
            # GDEF -> GPOS pairing
            remaps = [c for c in calls_in(f.node, nested=False) if last_attr(c) == "remap_device_varidxes" and c.args]
            gdef_like = [c for c in remaps if "GPOS" not in norm(c.func) and "base" not in norm(c.func).lower()]
            gpos = [c for c in remaps if "GPOS" in norm(c.func)]
            for c in gdef_like:
                m = norm(c.args[0])
                partner = [p for p in gpos if norm(p.args[0]) == m and any("'GPOS' in" in norm(t) for t, pol in guard_conditions(p) if pol)]
                ctx.ob(rule, f.where, f"{norm(c.func)}({m}) paired with GPOS remap", bool(partner), "" if partner else "GDEF device indices are remapped but GPOS devices pointing into the same store are not")
    ctx.info.setdefault("varidx_sites", {})[rule] = n


# ---------------------------------------------------------------------------
# C08 instancer
# ---------------------------------------------------------------------------

INSTANCER_HANDLERS = {
    # tag -> handler function (call expected under `if "<tag>" in varfont` in the dispatcher)
    "VARC": "instantiateVARC", "CFF2": "instantiateCFF2", "gvar": "instantiateGvar", "cvar": "instantiateCvar",
    "MVAR": "instantiateMVAR", "HVAR": "instantiateHVAR", "VVAR": "instantiateVVAR",
}


def variation_tables(repo):
    sc = load_schema(repo)

    def pred(f):
        return f.type == "VarIndex" or sc.type_target(f) in ("VarStore", "MultiVarStore", "Device") and False or f.name in ("VarStore", "MultiVarStore") or f.type in ("VarIdxMapValue",)

    out = {}
    for tag, c in sorted(inject.all_table_tags(repo).items()):
        if repo.is_subclass(c, "BaseTTXConverter") or tag.strip() == "COLR":
            root = tag.strip()
            if root not in sc.by_class:
                continue
            for path, f in sc.reach_fields(root, root):
                if f.name in ("VarStore", "MultiVarStore") or f.type == "VarIndex":
                    out[tag.strip()] = " > ".join(path[-2:])
                    break
    for t in ("gvar", "cvar", "fvar", "avar", "STAT", "CFF2"):
        out.setdefault(t, "hand-written variation table")
    return out


def c08_instancer(ctx, repo):
    ctx.rule("F20-inst", "every table that carries variation data (VarStore/MultiVarStore/VarIndex in the schema, plus gvar/cvar/CFF2/avar/fvar/STAT) is dispatched to an instancing handler, and the handler has a path that deletes the table or its store when nothing varies", floor=12)
    ctx.rule("INST-order", "variation tables are instanced before fvar is rewritten; limits are normalised before the font is copied/mutated; avar before fvar; STAT and fvar handled on all paths", floor=5)
    im = repo.mod("varLib/instancer/__init__.py")
    V = variation_tables(repo)
    ctx.info["variation_tables"] = V
    disp = im.func("_instantiateVariationTables")
    top = im.func("instantiateVariableFont")
    otl = im.func("instantiateOTL")
    calls_disp = {call_name(c) for c in calls_in(disp.node)}
    calls_top = {call_name(c) for c in calls_in(top.node)}
    calls_otl = {call_name(c) for c in calls_in(otl.node)}
    for tag, wit in sorted(V.items()):
        where = disp.where
        handler = None
        if tag in INSTANCER_HANDLERS:
            h = INSTANCER_HANDLERS[tag]
            sites = [c for c in calls_in(disp.node) if call_name(c) == h]
            ok = bool(sites) and all(any(norm(t) == f"'{tag}' in varfont" for t, pol in guard_conditions(s) if pol) for s in sites)
            ctx.ob("F20-inst", where, f"'{tag}' -> {h} under `'{tag}' in varfont`", ok, "" if ok else "variation table is not dispatched to its instancing handler")
            handler = h
        elif tag in ("GDEF", "GPOS"):
            ok = "instantiateOTL" in calls_disp and any(isinstance(n, ast.Call) and last_attr(n) == "mergeTables" and "'GDEF', 'GPOS'" in norm(n) for n in ast.walk(otl.node))
            ctx.ob("F20-inst", otl.where, f"'{tag}' ({wit}) handled by instantiateOTL via MutatorMerger.mergeTables(['GDEF','GPOS'])", ok)
            handler = "instantiateOTL" if tag == "GDEF" else None
        elif tag == "BASE":
            ok = "_instantiateBASE" in calls_otl and "instantiateOTL" in calls_disp
            ctx.ob("F20-inst", otl.where, f"'BASE' ({wit}) handled by _instantiateBASE", ok)
            handler = "_instantiateBASE"
        elif tag == "GSUB":
            ok = "instantiateFeatureVariations" in calls_disp
            ctx.ob("F20-inst", where, f"'GSUB' ({wit}) feature variations handled by instantiateFeatureVariations", ok)
        elif tag in ("avar", "fvar", "STAT"):
            h = {"avar": "instantiateAvar", "fvar": "instantiateFvar", "STAT": "instantiateSTAT"}[tag]
            ok = h in calls_top
            ctx.ob("F20-inst", top.where, f"'{tag}' -> {h} called from instantiateVariableFont", ok, "" if ok else "handler call removed")
            handler = h if tag != "STAT" else None
        else:
            ctx.ob("F20-inst", where, f"variation-carrying table '{tag}' has an instancing handler", False, f"witness: {wit}; table carries a variation store but the instancer never touches it: a fully pinned instance keeps variation data without fvar")
        # deletion path in the handler
        if handler and handler in im.funcs:
            hf = im.funcs[handler]
            closure = [hf] + [im.funcs[n] for n in {call_name(c) for c in calls_in(hf.node)} if n in im.funcs and n.startswith(("_instantiate", "instantiate", "_remove"))]
            dele = False
            for cf in closure:
                for n in ast.walk(cf.node):
                    if isinstance(n, ast.Delete):
                        t = norm(n.targets[0])
                        if re.search(r"varfont\[|\.VarStore|\.MultiVarStore|VarIdxMap|\[tableTag\]|\[tag\]", t):
                            dele = True
            if tag == "VARC" and not dele:
                # VARC holds the composite glyphs themselves and must survive; instancing across its axes raises
                nie = [n for n in ast.walk(hf.node) if isinstance(n, ast.Raise) and "NotImplementedError" in norm(n)]
                ctx.ob("F20-inst", hf.where, "instantiateVARC refuses (NotImplementedError) to instance across VarComponent axes instead of keeping stale variations", len(nie) >= 2, "" if len(nie) >= 2 else "VARC variations touching pinned axes are silently kept")
                continue
            ctx.ob("F20-inst", hf.where, f"{handler} can delete '{tag}' (or its store) when nothing varies", dele, "" if dele else "no deletion path: a static instance would keep this variation table")
    # order constraints
    g = CFG(top.node)

    def node_of_call(fn):
        cs = [c for c in calls_in(top.node, nested=False) if call_name(c) == fn]
        return [g.id_of(c) for c in cs]

    ivt = node_of_call("_instantiateVariationTables")
    fv = node_of_call("instantiateFvar")
    av = node_of_call("instantiateAvar")
    st = node_of_call("instantiateSTAT")
    norm_call = [g.id_of(n) for n in walk_no_nested(top.node) if isinstance(n, ast.Assign) and norm(n.targets[0]) == "normalizedLimits"]
    dc = node_of_call("deepcopy")
    ok = bool(ivt) and bool(fv) and all(not g.reachable(f_, i) for f_ in fv for i in ivt)
    ctx.ob("INST-order", top.where, "_instantiateVariationTables never runs after instantiateFvar", ok, "" if ok else "variation handlers read fvar axes that were already removed")
    ok = bool(norm_call) and bool(dc) and all(g.dominates(norm_call[0], d) for d in dc) and all(g.dominates(norm_call[0], i) for i in ivt + av)
    ctx.ob("INST-order", top.where, "normalizedLimits computed before deepcopy / avar / variation-table instancing", ok)
    ok = bool(av) and bool(fv) and all(not g.reachable(f_, a) for f_ in fv for a in av)
    ctx.ob("INST-order", top.where, "instantiateAvar before instantiateFvar", ok)
    # fvar handled on all paths (either instantiateFvar or the avar2 variant)
    fv2 = node_of_call("_instantiateFvarForAvar2")
    ok = bool(fv) and bool(fv2) and not g.paths_avoiding(0, 1, set(fv + fv2))
    ctx.ob("INST-order", top.where, "every path to return passes instantiateFvar or _instantiateFvarForAvar2", ok, "" if ok else "some path leaves fvar untouched")
    ok = bool(st) and all(any(norm(t) == "'STAT' in varfont" for t, pol in guard_conditions(g.stmt[s]) if pol) for s in st)
    ctx.ob("INST-order", top.where, "instantiateSTAT called when STAT is present", ok)
    # fvar removal when all axes pinned
    ff = im.func("instantiateFvar")
    dele = [n for n in ast.walk(ff.node) if isinstance(n, ast.Delete) and norm(n.targets[0]) == "varfont['fvar']"]
    conds = [[norm(t) for t, pol in guard_conditions(d) if pol] for d in dele]
    ok = bool(dele) and all(any("issuperset" in c and "fvar.axes" in c for c in cs) for cs in conds)
    ctx.ob("INST-order", ff.where, f"del varfont['fvar'] under {conds}", ok, "" if ok else "fvar removal is not guarded by 'all axes pinned'")


# ---------------------------------------------------------------------------
# C17 reorderGlyphs
# ---------------------------------------------------------------------------

# (class, format) -> {coverage field: [arrays indexed by that coverage's coverage index]}
# Provenance: OpenType spec, chapters GPOS/GSUB/GDEF/MATH ("... ordered by Coverage index").
COVERAGE_PARALLEL = {
    ("SinglePos", 1): {"Coverage": []},
    ("SinglePos", 2): {"Coverage": ["Value"]},
    ("PairPos", 1): {"Coverage": ["PairSet"]},
    ("PairPos", 2): {"Coverage": []},
    ("CursivePos", 1): {"Coverage": ["EntryExitRecord"]},
    ("MarkBasePos", 1): {"MarkCoverage": ["MarkArray.MarkRecord"], "BaseCoverage": ["BaseArray.BaseRecord"]},
    ("MarkLigPos", 1): {"MarkCoverage": ["MarkArray.MarkRecord"], "LigatureCoverage": ["LigatureArray.LigatureAttach"]},
    ("MarkMarkPos", 1): {"Mark1Coverage": ["Mark1Array.MarkRecord"], "Mark2Coverage": ["Mark2Array.Mark2Record"]},
    ("ContextPos", 1): {"Coverage": ["PosRuleSet"]},
    ("ContextPos", 2): {"Coverage": []},
    ("ContextPos", 3): {"Coverage": []},
    ("ChainContextPos", 1): {"Coverage": ["ChainPosRuleSet"]},
    ("ChainContextPos", 2): {"Coverage": []},
    ("ChainContextPos", 3): {"BacktrackCoverage": [], "InputCoverage": [], "LookAheadCoverage": []},
    ("ContextSubst", 1): {"Coverage": ["SubRuleSet"]},
    ("ContextSubst", 2): {"Coverage": []},
    ("ContextSubst", 3): {"Coverage": []},
    ("ChainContextSubst", 1): {"Coverage": ["ChainSubRuleSet"]},
    ("ChainContextSubst", 2): {"Coverage": []},
    ("ChainContextSubst", 3): {"BacktrackCoverage": [], "InputCoverage": [], "LookAheadCoverage": []},
    ("ReverseChainSingleSubst", 1): {"Coverage": ["Substitute"], "BacktrackCoverage": [], "LookAheadCoverage": []},
    ("AttachList", None): {"Coverage": ["AttachPoint"]},
    ("LigCaretList", None): {"Coverage": ["LigGlyph"]},
    ("MarkGlyphSetsDef", None): {"Coverage": []},
    ("MathGlyphInfo", None): {"ExtendedShapeCoverage": []},
    ("MathItalicsCorrectionInfo", None): {"Coverage": ["ItalicsCorrection"]},
    ("MathTopAccentAttachment", None): {"TopAccentCoverage": ["TopAccentAttachment"]},
    ("MathKernInfo", None): {"MathKernCoverage": ["MathKernInfoRecords"]},
    ("MathVariants", None): {"VertGlyphCoverage": ["VertGlyphConstruction"], "HorizGlyphCoverage": ["HorizGlyphConstruction"]},
    ("VARC", None): {"Coverage": ["VarCompositeGlyphs.VarCompositeGlyph"]},
}
# classes with a Coverage field whose object model is name-keyed (custom postRead/preWrite rebuild the coverage from a dict)
NAME_KEYED = {"SingleSubst", "MultipleSubst", "AlternateSubst", "LigatureSubst"}
# classes that only exist in AAT / other tables outside coverage_containers
NOT_IN_CONTAINERS = set()


def _parse_rules(repo, mod):
    d = mod.const("_REORDER_RULES")
    if not isinstance(d, ast.Dict):
        raise AnalysisError("_REORDER_RULES is not a dict literal")
    env = module_env(repo, mod)
    rules = {}
    for k, v in zip(d.keys, d.values):
        if not (isinstance(k, ast.Tuple) and len(k.elts) == 2 and isinstance(k.elts[0], ast.Attribute)):
            raise AnalysisError("unexpected _REORDER_RULES key " + norm(k))
        cname = k.elts[0].attr
        fmt = try_fold(k.elts[1])
        lst = []
        for call in v.elts:
            kind = call_name(call)
            kw = {x.arg: try_fold(x.value, env) for x in call.keywords}
            args = [try_fold(a, env) for a in call.args]
            lst.append((kind, args, kw))
        rules[(cname, fmt)] = lst
    return rules


def _resolve_dotted(sc, cname, fmt, dotted):
    """resolve 'MarkArray.MarkRecord' from (class, fmt) in the schema; returns the final Field or None"""
    cur = cname
    f = None
    parts = dotted.split(".")
    for i, p in enumerate(parts):
        fields = [x for full, ff in sc.formats_of(cur) if (i > 0 or fmt is None or ff is None or ff == fmt) for x in sc.tables[full] if x.name == p]
        if not fields:
            return None
        f = fields[0]
        nxt = sc.type_target(f)
        if i < len(parts) - 1:
            if not nxt or nxt not in sc.by_class:
                return None
            cur = nxt
    return f


def c17_reorder(ctx, repo):
    ctx.rule("F20-reorder", "every reorder rule's attribute strings resolve in the otData schema for its (class, format); a rule that re-sorts a Coverage also names every array the OpenType spec indexes by that coverage; glyph-keyed record arrays are re-sorted; the spec table covers every (class, format) of the schema that has a Coverage field", floor=60)
    ctx.rule("REORDER-flow", "reorderGlyphs decodes every table and checks isLoaded before switching the glyph order; CFF charset and charStrings are rebuilt in the new order; setGlyphOrder invalidates the reverse map", floor=5)
    rm = repo.mod("ttLib/reorderGlyphs.py")
    sc = load_schema(repo)
    rules = _parse_rules(repo, rm)
    cov_default = try_fold(rm.const("_COVERAGE_ATTR"))
    # defaults of the dataclass
    rc = rm.cls("ReorderCoverage")
    defaults = {}
    for st in rc.node.body:
        if isinstance(st, ast.AnnAssign) and isinstance(st.target, ast.Name) and st.value is not None:
            defaults[st.target.id] = try_fold(st.value, module_env(repo, rm))
    # (iii) spec table covers the schema
    have_cov = set()
    for cname in sc.class_names():
        for full, fmt in sc.formats_of(cname):
            if any(sc.type_target(f) == "Coverage" for f in sc.tables[full]):
                have_cov.add((cname, fmt))
    for key in sorted(have_cov, key=str):
        cname, fmt = key
        ok = key in COVERAGE_PARALLEL or cname in NAME_KEYED
        ctx.ob("F20-reorder", "ttLib/tables/otData.py:otData", f"schema {cname} format {fmt} has a Coverage: classified in the spec table", ok, "" if ok else "unclassified coverage user: add it to COVERAGE_PARALLEL with its parallel arrays")
    for key, spec in sorted(COVERAGE_PARALLEL.items(), key=str):
        cname, fmt = key
        for cov, arrays in spec.items():
            f = _resolve_dotted(sc, cname, fmt, cov)
            ok = f is not None and sc.type_target(f) == "Coverage"
            ctx.ob("F20-reorder", "sa/rules/exhaust.py:COVERAGE_PARALLEL", f"spec {cname}/{fmt}.{cov} is a Coverage field of the schema", ok)
            for a in arrays:
                fa = _resolve_dotted(sc, cname, fmt, a)
                ok = fa is not None and fa.repeat is not None
                ctx.ob("F20-reorder", "sa/rules/exhaust.py:COVERAGE_PARALLEL", f"spec {cname}/{fmt}.{a} is a repeated field of the schema", ok)
    # (i)+(ii) rules
    for key, lst in sorted(rules.items(), key=str):
        cname, fmt = key
        where = "ttLib/reorderGlyphs.py:_REORDER_RULES"
        okc = bool(sc.formats_of(cname)) and (fmt is None or any(ff == fmt for _, ff in sc.formats_of(cname)))
        ctx.ob("F20-reorder", where, f"rule key ({cname}, {fmt}) exists in the schema", okc)
        for kind, args, kw in lst:
            if kind == "ReorderCoverage":
                cov = kw.get("coverage_attr", args[1] if len(args) > 1 else defaults.get("coverage_attr", cov_default))
                par = kw.get("parallel_list_attr", args[0] if args else defaults.get("parallel_list_attr"))
                f = _resolve_dotted(sc, cname, fmt, cov)
                ok = f is not None and sc.type_target(f) == "Coverage"
                ctx.ob("F20-reorder", where, f"({cname},{fmt}) coverage_attr '{cov}' resolves to a Coverage", ok, "" if ok else "attribute string does not name a Coverage field of this table")
                if par:
                    fp = _resolve_dotted(sc, cname, fmt, par)
                    ok = fp is not None and fp.repeat is not None
                    ctx.ob("F20-reorder", where, f"({cname},{fmt}) parallel_list_attr '{par}' resolves to an array", ok, "" if ok else "parallel list attribute does not resolve in the schema")
                spec = COVERAGE_PARALLEL.get(key, {}).get(cov)
                if spec is not None:
                    want = set(spec)
                    got = {par} if par else set()
                    ok = want == got
                    ctx.ob("F20-reorder", where, f"({cname},{fmt}) sorting {cov} carries its indexed arrays {sorted(want)}", ok, "" if ok else f"rule re-sorts the coverage but moves {sorted(got)}: glyphs get re-associated with the wrong records")
            elif kind == "ReorderList":
                la = kw.get("list_attr", args[0] if args else None)
                keyf = kw.get("key", args[1] if len(args) > 1 else None)
                fl = _resolve_dotted(sc, cname, fmt, la) if la else None
                ok = fl is not None and fl.repeat is not None
                ctx.ob("F20-reorder", where, f"({cname},{fmt}) list_attr '{la}' resolves to an array", ok)
                tgt = sc.type_target(fl) if fl else None
                fk = [x for x in sc.fields_of_class(tgt) if x.name == keyf] if tgt else []
                ok = bool(fk) and fk[0].type in ("GlyphID", "GlyphID32")
                ctx.ob("F20-reorder", where, f"({cname},{fmt}) sort key '{keyf}' is a GlyphID field of {tgt}", ok)
            else:
                ctx.ob("F20-reorder", where, f"({cname},{fmt}) rule kind {kind}", False, "unknown rule class")
    # every spec entry with a non-empty parallel list has a rule (a sorted coverage without its arrays is the dangerous case;
    # a missing rule leaves the coverage unsorted, which Coverage.preWrite handles consistently) -> reported in evidence only
    missing = [k for k in COVERAGE_PARALLEL if k not in rules]
    ctx.info["reorder_rules"] = {"rules": len(rules), "spec_entries": len(COVERAGE_PARALLEL), "spec_without_rule": [str(k) for k in missing]}
    # (iv) glyph-keyed record arrays are re-sorted
    ok = ("PairSet", None) in rules and any(k == "ReorderList" and (a[:1] == ["PairValueRecord"]) for k, a, kw in rules[("PairSet", None)])
    ctx.ob("F20-reorder", "ttLib/reorderGlyphs.py:_REORDER_RULES", "PairSet.PairValueRecord re-sorted by SecondGlyph", ok)
    otm = repo.mod("ttLib/tables/otTables.py")
    for cls, attr in (("BaseGlyphRecordArray", "BaseGlyphRecord"), ("BaseGlyphList", "BaseGlyphPaintRecord")):
        pw = otm.func(f"{cls}.preWrite")
        ok = any(isinstance(n, ast.Call) and call_name(n) == "sorted" and attr in norm(n) and "getGlyphID" in norm(n) for n in ast.walk(pw.node))
        ctx.ob("F20-reorder", pw.where, f"{cls}.preWrite re-sorts {attr} by glyph id", ok)
    # coverage containers
    f = rm.func("reorderGlyphs")
    cc = [n.value for n in walk_no_nested(f.node) if isinstance(n, ast.Assign) and norm(n.targets[0]) == "coverage_containers"]
    tags = set(try_fold(cc[0]) or ()) if cc else set()
    need = set()
    for tag, c in inject.all_table_tags(repo).items():
        if repo.is_subclass(c, "BaseTTXConverter") and tag.strip() in sc.by_class:
            reach = {(sc_cls(sc, fld), None) for _, fld in sc.reach_fields(tag.strip(), tag.strip())}
            classes = {fld.table for _, fld in sc.reach_fields(tag.strip(), tag.strip())}
            if any(_class_of_full(full) in {k[0] for k in rules} for full in classes):
                need.add(tag.strip())
    for t in sorted(need):
        ok = t in tags
        ctx.ob("F20-reorder", f.where, f"table '{t}' reaches classes with reorder rules: listed in coverage_containers", ok, "" if ok else "coverage-parallel arrays in this table are not re-sorted after the glyph order changes")
    # flow
    g = CFG(f.node)
    sgo = [c for c in calls_in(f.node, nested=False) if last_attr(c) == "setGlyphOrder"]
    ed = [c for c in calls_in(f.node, nested=False) if last_attr(c) == "ensureDecompiled"]
    chk = [n for n in walk_no_nested(f.node) if isinstance(n, ast.If) and norm(n.test) == "not_loaded" and any(isinstance(x, ast.Raise) for x in n.body)]
    ok = len(sgo) == 1 and bool(ed) and bool(chk) and g.dominates(g.id_of(ed[0]), g.id_of(sgo[0])) and g.dominates(g.id_of(chk[0]), g.id_of(sgo[0]))
    ctx.ob("REORDER-flow", f.where, "ensureDecompiled() and the not-loaded check dominate setGlyphOrder()", ok, "" if ok else "tables decoded after the switch would map old glyph ids through the new order")
    loops = [n for n in walk_no_nested(f.node) if isinstance(n, ast.For) and norm(n.iter) == "coverage_containers"]
    ok = bool(loops) and all(g.dominates(g.id_of(sgo[0]), g.id_of(l)) for l in loops) if sgo else False
    ctx.ob("REORDER-flow", f.where, "rules are applied after the new order is installed (sort keys use the new glyph ids)", ok)
    from ..core import walk_closure, private_callees

    # the CFF rewrite may live in a private helper (extract function): look at the closure
    clos = list(walk_closure(repo, f))
    cffs = sorted(norm(n.targets[0]).split(".cff.", 1)[-1] for n in clos if isinstance(n, ast.Assign) and "topDictIndex[0]" in norm(n.targets[0]))
    ok = cffs == ["topDictIndex[0].CharStrings.charStrings", "topDictIndex[0].charset"]
    ctx.ob("REORDER-flow", f.where, f"CFF rewritten: {cffs}", ok)
    cs = [n.value for n in clos if isinstance(n, ast.Assign) and norm(n.targets[0]).endswith("CharStrings.charStrings")]
    # the new order is the function's second parameter (whatever a helper calls it)
    order_names = {f.node.args.args[1].arg} | {h.node.args.args[-1].arg for h in private_callees(repo, f) if h.node.args.args}
    ok = bool(cs) and isinstance(cs[0], ast.DictComp) and norm(cs[0].generators[0].iter) in order_names
    ctx.ob("REORDER-flow", f.where, "charStrings rebuilt by iterating new_glyph_order", ok)
    tf = repo.mod("ttLib/ttFont.py").func("TTFont.setGlyphOrder")
    dels = [norm(n) for n in ast.walk(tf.node) if isinstance(n, (ast.Delete,))] + [norm(c) for c in calls_in(tf.node) if call_name(c) == "delattr"]
    ok = any("_reverseGlyphOrderDict" in d for d in dels)
    ctx.ob("REORDER-flow", tf.where, f"setGlyphOrder drops the cached reverse map: {dels}", ok, "" if ok else "stale name->id map survives a glyph order change")
    fw = any(isinstance(n, ast.Call) and last_attr(n) == "setGlyphOrder" and "glyf" in norm(n) for n in ast.walk(tf.node))
    ctx.ob("REORDER-flow", tf.where, "setGlyphOrder forwards to a loaded glyf table", fw)


def sc_cls(sc, fld):
    return fld.table


def _class_of_full(full):
    m = re.match(r"^(.*)Format(\d+)$", full)
    return m.group(1) if m else full


# ---------------------------------------------------------------------------
# C17 scaleUpem
# ---------------------------------------------------------------------------

# sstruct fields of the font-wide metric tables that are NOT in design units (frozen, provenance: OpenType spec)
NON_UNIT_FIELDS = {
    "head": {"tableVersion", "fontRevision", "checkSumAdjustment", "magicNumber", "flags", "created", "modified", "macStyle", "lowestRecPPEM", "fontDirectionHint", "indexToLocFormat", "glyphDataFormat"},
    "hhea": {"tableVersion", "caretSlopeRise", "caretSlopeRun", "reserved0", "reserved1", "reserved2", "reserved3", "metricDataFormat", "numberOfHMetrics"},
    "vhea": {"tableVersion", "caretSlopeRise", "caretSlopeRun", "reserved0", "reserved1", "reserved2", "reserved3", "reserved4", "metricDataFormat", "numberOfVMetrics"},
    "post": {"formatType", "italicAngle", "isFixedPitch", "minMemType42", "maxMemType42", "minMemType1", "maxMemType1"},
    "OS/2": {"version", "usWeightClass", "usWidthClass", "fsType", "sFamilyClass", "panose", "ulUnicodeRange1", "ulUnicodeRange2", "ulUnicodeRange3", "ulUnicodeRange4", "achVendID", "fsSelection", "usFirstCharIndex", "usLastCharIndex", "ulCodePageRange1", "ulCodePageRange2", "usDefaultChar", "usBreakChar", "usMaxContext", "usLowerOpticalPointSize", "usUpperOpticalPointSize"},
    "VORG": {"majorVersion", "minorVersion", "numVertOriginYMetrics"},
}
# MATH design-unit fields that are plain integers and whose otData description does not say so (OpenType MATH spec, MathConstants)
EXTRA_UNIT_FIELDS = {("MathConstants", "DelimitedSubFormulaMinHeight"), ("MathConstants", "DisplayOperatorMinHeight")}
AAT_OR_UNSUPPORTED = {"LigCaretDistances", "OpticalBoundsDeltas", "LigatureCaretsFormat0", "LigatureCaretsFormat1", "OpticalBoundsFormat0", "OpticalBoundsFormat1"}


def _struct_fields(repo, tag):
    """names of the sstruct fields (all versions) of a hand-written table, plus attributes that its
    decompile assigns from a struct.unpack tuple"""
    from ..consteval import fold_module_sequence
    from ..fmt import sstruct_parse

    c = repo.table_class(tag)
    names = []
    for k in repo.mro(c):
        mod = k.mod
        for name in list(mod.assigns):
            if name == "panoseFormat":
                continue
            try:
                v = fold_module_sequence(repo, mod, name)
            except Unknown:
                continue
            if isinstance(v, str) and ":" in v and "\n" in v:
                try:
                    names += sstruct_parse(v).names
                except ValueError:
                    pass
        for m in k.methods.values():
            if m.node.name != "decompile":
                continue
            for n in ast.walk(m.node):
                if isinstance(n, ast.Assign) and isinstance(n.targets[0], ast.Tuple) and isinstance(n.value, ast.Call) and (call_name(n.value) or "").endswith("unpack"):
                    names += [norm(e)[5:] for e in n.targets[0].elts if norm(e).startswith("self.")]
    return list(dict.fromkeys(names))


def _instance_attrs(repo, c):
    out = set()
    for k in repo.mro(c):
        for m in k.methods.values():
            for n in ast.walk(m.node):
                if isinstance(n, ast.Assign):
                    for t in n.targets:
                        for e in ast.walk(t):
                            if isinstance(e, ast.Attribute) and isinstance(e.value, ast.Name) and e.value.id == "self" and isinstance(e.ctx, ast.Store):
                                out.add(e.attr)
    return out


def c17_scale(ctx, repo):
    ctx.rule("F20-scale", "every attribute registered with the scaler exists on its class; every field of head/hhea/vhea/OS2/post/VORG is registered or in the frozen not-in-design-units table; every otData field described as design units is registered (by field or by value class)", floor=80)
    ctx.rule("SCALE-shape", "only FontMatrix is divided; CFF charstring scaling skips vsindex operands; VARC transform flag walk follows VarComponentFlags order", floor=3)
    sm = repo.mod("ttLib/scaleUpem.py")
    sc = load_schema(repo)
    reg = {}  # class id -> set(attrs)
    for q, f in sm.funcs.items():
        for d in f.node.decorator_list:
            if not isinstance(d, ast.Call):
                continue
            dn = call_name(d) or ""
            if dn.endswith("register_attrs"):
                arg = d.args[0]
                for pair in arg.elts:
                    cid = inject.class_id(repo, sm, pair.elts[0])
                    attrs = try_fold(pair.elts[1])
                    if isinstance(attrs, str):
                        attrs = (attrs,)
                    reg.setdefault(cid, set()).update(attrs or ())
            elif dn.endswith("register_attr"):
                cls_arg, attr = d.args[0], try_fold(d.args[1])
                cl = cls_arg.elts if isinstance(cls_arg, ast.Tuple) else [cls_arg]
                for c in cl:
                    reg.setdefault(inject.class_id(repo, sm, c), set()).add(attr)
            elif dn.endswith(".register"):
                for c in d.args:
                    reg.setdefault(inject.class_id(repo, sm, c), set()).add("*")
    ctx.info["scaler_registry"] = {k: sorted(v) for k, v in reg.items() if k}
    # registered attrs exist
    for cid, attrs in sorted((k, v) for k, v in reg.items() if k):
        if cid.startswith("tt:"):
            tag = cid[3:]
            c = repo.table_class(tag)
            if c is None:
                # getTableClass falls back to DefaultTable for unknown tags: the registration lands on the base class
                ctx.ob("F20-scale", sm.rel + ":<module>", f"register on unknown table tag '{tag}' ({sorted(attrs)})", False, "getTableClass() of a tag without a table module is DefaultTable; Visitor._visitorsFor stops at the first class of the MRO that has any registration, so a table with its own entry never reaches this one and the attribute is never scaled")
                continue
            fields = set(_struct_fields(repo, tag))
            inst = _instance_attrs(repo, c)
            for a in sorted(attrs):
                ok = a in fields or a in inst or a == "*"
                ctx.ob("F20-scale", sm.rel + ":<module>", f"{tag}.{a} is a field of the table", ok, "" if ok else "registered attribute does not exist on the class (silently never visited)")
        elif cid.startswith("ot:"):
            cname = cid[3:]
            names = sc.field_names(cname) | {"XAdvance", "YAdvance", "XPlacement", "YPlacement"} if cname == "ValueRecord" else sc.field_names(cname)
            for a in sorted(attrs):
                ok = a == "*" or a in names
                ctx.ob("F20-scale", sm.rel + ":<module>", f"{cname}.{a} is a schema field", ok, "" if ok else "registered attribute is not a field of this otTables class")
    # struct tables partition
    for tag, nonunit in NON_UNIT_FIELDS.items():
        fields = _struct_fields(repo, tag)
        if not fields:
            raise AnalysisError(f"no sstruct fields found for {tag}")
        registered = reg.get("tt:" + tag, set())
        for fld in fields:
            ok = fld in registered or fld in nonunit
            ctx.ob("F20-scale", sm.rel + ":<module>", f"{tag}.{fld} is scaled or is not a design-unit field", ok, "" if ok else "font-wide metric in design units is not scaled")
    # schema fields described as design units
    otd = repo.mod("ttLib/tables/otData.py")
    node = otd.assigns["otData"]
    prim = {"int8", "int16", "int32", "uint8", "uint16", "uint24", "uint32"}
    for elt in node.elts:
        full = elt.elts[0].value
        cname = _class_of_full(full)
        for fs in elt.elts[1].elts:
            d = {}
            for k, a in zip(["type", "name", "repeat", "aux", "description"], fs.args):
                d[k] = try_fold(a)
            for kw in fs.keywords:
                d[kw.arg] = try_fold(kw.value)
            desc = d.get("description") or ""
            unit = bool(re.search(r"in design units|in font units|design units\.|In design unit", desc)) or (cname, d["name"]) in EXTRA_UNIT_FIELDS
            if not unit or d["type"] not in prim or full in AAT_OR_UNSUPPORTED:
                continue
            ok = d["name"] in reg.get("ot:" + cname, set())
            ctx.ob("F20-scale", sm.rel + ":<module>", f"{cname}.{d['name']} ({d['type']}, described as design units) is registered", ok, "" if ok else "design-unit field of the schema is not scaled")
    # value classes
    for cname in ("ValueRecord", "Anchor", "CaretValue", "BaseCoord", "MathValueRecord", "ClipBox", "VarData"):
        ok = "ot:" + cname in reg
        ctx.ob("F20-scale", sm.rel + ":<module>", f"value class {cname} has a scaler", ok)
    for tag in ("hmtx", "vmtx", "glyf", "gvar", "kern", "CFF ", "CFF2", "VARC"):
        ok = "tt:" + tag in reg
        ctx.ob("F20-scale", sm.rel + ":<module>", f"table {tag.strip()} has a scaler", ok)
    # shape checks
    divs = [norm(n.target) for n in ast.walk(sm.tree) if isinstance(n, ast.AugAssign) and isinstance(n.op, ast.Div)] + [norm(n) for n in ast.walk(sm.tree) if isinstance(n, ast.BinOp) and isinstance(n.op, ast.Div) and "scaleFactor" in norm(n.right) and "1 /" not in norm(n)]
    ok = divs == ["topDict.FontMatrix[i]"]
    ctx.ob("SCALE-shape", sm.rel + ":<module>", f"divisions by the scale factor: {divs}", ok, "" if ok else "something other than FontMatrix is divided (or FontMatrix no longer is)")
    cffv = [f for q, f in sm.funcs.items() if any("CFF2" in norm(d) for d in f.node.decorator_list)]
    ok = False
    if cffv:
        from ..cfg import implied_conditions

        gv = CFG(cffv[0].node)
        for n in ast.walk(cffv[0].node):
            if isinstance(n, ast.For) and norm(n.iter) == "commands":
                opvar = norm(n.target.elts[0]) if isinstance(n.target, ast.Tuple) else "op"
                scal = [c for c in ast.walk(n) if isinstance(c, ast.Call) and call_name(c) == "_cff_scale"]
                ok = bool(scal) and all((f"{opvar} == 'vsindex'", False) in implied_conditions(gv, c) for c in scal)
    ctx.ob("SCALE-shape", sm.rel + ":<module>", "charstring command loop skips `vsindex` (its operand is a VarData index, not a length)", ok, "" if ok else "vsindex operand would be multiplied by the scale factor")
    # VARC flag walk order == VarComponentFlags order for the HAVE_* transform flags
    otm = repo.mod("ttLib/tables/otTables.py")
    vtm = otm.const("VAR_TRANSFORM_MAPPING")
    if not isinstance(vtm, ast.Dict):
        raise AnalysisError("VAR_TRANSFORM_MAPPING is not a dict literal")
    have = [v.args[0].attr for v in vtm.values if isinstance(v, ast.Call) and v.args and isinstance(v.args[0], ast.Attribute)]
    unit_scaled = {v.args[0].attr for k, v in zip(vtm.keys, vtm.values) if isinstance(v, ast.Call) and try_fold(k) in ("translateX", "translateY", "tCenterX", "tCenterY")}
    varc = [f for q, f in sm.funcs.items() if any("VARC" in norm(d) for d in f.node.decorator_list)]
    walk = []
    if varc:
        for n in walk_no_nested(varc[0].node):
            if isinstance(n, ast.If) and norm(n.test).startswith("flags & otTables.VarComponentFlags."):
                scaled = any(isinstance(x, ast.Call) and norm(x.func) == "visitor.scale" for s in n.body for x in ast.walk(s))
                walk.append((norm(n.test).rsplit(".", 1)[1], scaled))
    if varc and not walk:
        # table-driven form: `for flag, isDistance in TABLE:` over a literal module-level table of (flag, bool) pairs, the
        # index advancing only where `flags & flag` holds and the scale call sitting under `isDistance`
        from ..cfg import implied_conditions as _ic

        gvc = CFG(varc[0].node)
        for lp in [n for n in walk_no_nested(varc[0].node) if isinstance(n, ast.For) and isinstance(n.iter, ast.Name) and isinstance(n.target, ast.Tuple) and len(n.target.elts) == 2 and all(isinstance(e, ast.Name) for e in n.target.elts)]:
            table = sm.assigns.get(lp.iter.id)
            if not isinstance(table, (ast.Tuple, ast.List)) or not all(isinstance(e, ast.Tuple) and len(e.elts) == 2 and isinstance(e.elts[0], ast.Attribute) and isinstance(e.elts[1], ast.Constant) for e in table.elts):
                continue
            fl, dist = lp.target.elts[0].id, lp.target.elts[1].id
            adv = [st for st in ast.walk(lp) if isinstance(st, ast.AugAssign) and isinstance(st.op, ast.Add) and try_fold(st.value) == 1]
            sc = [st for st in ast.walk(lp) if isinstance(st, ast.Assign) and any(isinstance(x, ast.Call) and norm(x.func) == "visitor.scale" for x in ast.walk(st.value))]
            if len(adv) == 1 and len(sc) == 1 and (f"flags & {fl}", True) in _ic(gvc, adv[0]) and {(f"flags & {fl}", True), (dist, True)} <= _ic(gvc, sc[0]):
                walk = [(e.elts[0].attr, bool(e.elts[1].value)) for e in table.elts]
    ok = [w for w, _ in walk] == have and {w for w, s in walk if s} == unit_scaled and len(have) == 9
    ctx.ob("SCALE-shape", sm.rel + ":<module>", f"VARC delta walk {[w for w, _ in walk]} follows VAR_TRANSFORM_MAPPING order; scaled = {sorted(w for w, s in walk if s)}", ok, "" if ok else f"walk order differs from VAR_TRANSFORM_MAPPING order {have}, or the scaled set is not the translate/tCenter components {sorted(unit_scaled)}")

    # glyf: the bounding-box fields are scaled for every glyph, composites included (their `continue` skips only the
    # coordinate scaling); kern: every subtable handed to the visitor is scaled, not just the first one found
    gl = [f for q, f in sm.funcs.items() if any("'glyf'" in norm(d) or '"glyf"' in norm(d) for d in f.node.decorator_list)]
    ok = False
    detail = "no setattr(g, <bbox field>, visitor.scale(...)) found"
    if gl:
        from ..cfg import implied_conditions as _ic2

        gg = CFG(gl[0].node)
        sets = [c for c in ast.walk(gl[0].node) if isinstance(c, ast.Call) and call_name(c) == "setattr" and len(c.args) == 3 and any(isinstance(x, ast.Call) and norm(x.func) == "visitor.scale" for x in ast.walk(c.args[2]))]
        bbox_loops = [n for n in ast.walk(gl[0].node) if isinstance(n, ast.For) and isinstance(n.iter, (ast.Tuple, ast.List)) and {try_fold(e) for e in n.iter.elts} == {"xMin", "xMax", "yMin", "yMax"}]
        if sets and bbox_loops:
            conds = _ic2(gg, bbox_loops[0])
            skipped = [t for t, pol in conds if "isComposite" in t]
            ok = not skipped
            detail = "" if ok else f"the bbox loop runs only under {skipped}: composite glyphs keep an unscaled xMin..yMax"
    ctx.ob("SCALE-shape", sm.rel + ":<module>", "glyf: xMin/xMax/yMin/yMax are scaled for simple and composite glyphs alike", ok, detail)
    kv = [f for q, f in sm.funcs.items() if any("'kern'" in norm(d) or '"kern"' in norm(d) for d in f.node.decorator_list)]
    ok = False
    if kv:
        arg = kv[0].node.args.args[-1].arg
        loops = [n for n in walk_no_nested(kv[0].node) if isinstance(n, ast.For) and norm(n.iter) == arg]
        ok = bool(loops) and any(isinstance(c, ast.Call) and norm(c.func) == "visitor.scale" for c in ast.walk(loops[0])) and not any(isinstance(c, ast.Call) and last_attr(c) == "getkern" for c in ast.walk(kv[0].node))
    ctx.ob("SCALE-shape", sm.rel + ":<module>", "kern: the visitor loops over every subtable it is given", ok, "" if ok else "only one subtable (getkern(0) returns the first format-0 one) is rescaled; later subtables keep old units")

    # F2Dot14 guard of the COLR scale paint
    sp = sm.func("_setup_scale_paint")
    F2DOT14_MAX = 32767 / 16384
    tests = [n.test for n in walk_no_nested(sp.node) if isinstance(n, ast.If) and isinstance(n.test, ast.Compare) and any(norm(x) == "scale" for x in [n.test.left] + n.test.comparators)]
    ok = False
    detail = "no range test on `scale` found"
    if tests:
        t = tests[0]
        parts = [t.left] + t.comparators
        vals = [try_fold(x) for x in parts]
        if len(parts) == 3 and norm(parts[1]) == "scale" and all(isinstance(o, ast.LtE) for o in t.ops) and isinstance(vals[0], (int, float)) and isinstance(vals[2], (int, float)):
            ok = vals[0] >= -2 and vals[2] <= F2DOT14_MAX
            detail = "" if ok else f"range [{vals[0]}, {vals[2]}] exceeds F2Dot14 [-2, {F2DOT14_MAX}]: PaintScaleUniform.scale cannot hold it and the font fails to compile"
    ctx.ob("SCALE-shape", sp.where, f"PaintScaleUniform only for a scale inside F2Dot14: {norm(tests[0]) if tests else None}", ok, detail)
    # composite components: x/y exist only for offset-positioned components
    gv = [f for q, f in sm.funcs.items() if any("'glyf'" in norm(d) and "'glyphs'" in norm(d) for d in f.node.decorator_list)]
    if not gv:
        raise AnalysisError("scaleUpem: glyf visitor not found")
    acc = [n for n in ast.walk(gv[0].node) if isinstance(n, ast.Attribute) and n.attr in ("x", "y") and norm(n.value) == "component" and isinstance(n.ctx, ast.Load)]
    ok = bool(acc) and all(any(pol and ("hasattr(component" in norm(t) or "ARGS_ARE_XY_VALUES" in norm(t)) for t, pol in guard_conditions(n)) for n in acc)
    ctx.ob("SCALE-shape", gv[0].where, "component.x / component.y read only when the component has offsets (hasattr / ARGS_ARE_XY_VALUES)", ok, "" if ok else "point-matched components (firstPt/secondPt) have no x/y: AttributeError on such fonts")


ALL_C07 = [c07_subsetter]
ALL_C08 = [c08_instancer]
ALL_C17 = [c17_reorder, c17_scale]  # + skip_audit (defined below) appended at the end of the module


# ---------------------------------------------------------------------------
# C07: index fields that refer into a list the subsetter shrinks are renumbered
# ---------------------------------------------------------------------------

# field name -> what it indexes (OpenType spec); all of these lists are pruned by the subsetter
INDEX_FIELDS = {
    "LookupListIndex": "LookupList.Lookup",
    "FeatureIndex": "FeatureList.FeatureRecord",
    "ReqFeatureIndex": "FeatureList.FeatureRecord",
    "MarkFilteringSet": "GDEF.MarkGlyphSetsDef.Coverage",
    "PaletteIndex": "CPAL palette entries",
}


def c07_index_remap(ctx, repo):
    ctx.rule("REMAP-IDX", "every schema field that indexes into a list the subsetter prunes (lookups, features, mark glyph sets, palette entries) is re-assigned by a subsetter method of the class that owns it (or of the rule/record container that iterates it)", floor=8)
    sc = load_schema(repo)
    inj = subset_injections(repo)
    # all attribute stores per injected function
    stores = {}  # class id -> {attr}
    anystore = {}
    for cid, ms in inj.items():
        for name, f in ms.items():
            for n in ast.walk(f.node):
                if isinstance(n, ast.Assign):
                    # a renumbering store computes its value (index(), map lookup, comprehension); constants (None, 65535) are removals
                    if isinstance(n.value, ast.Constant):
                        continue
                    for t in n.targets:
                        if isinstance(t, ast.Attribute):
                            stores.setdefault(cid, set()).add(t.attr)
                            anystore.setdefault(t.attr, set()).add(f"{cid}.{name}")
    owners = {}
    for root in ("GSUB", "GPOS", "GDEF", "COLR"):
        for path, f in sc.reach_fields(root, root):
            if f.name in INDEX_FIELDS:
                owners.setdefault(f.name, set()).add(_class_of_full(f.table))
    for fld, classes in sorted(owners.items()):
        for cname in sorted(classes):
            direct = fld in stores.get("ot:" + cname, set())
            # records without their own methods (LookupRecord, LayerRecord, FeatureTableSubstitutionRecord) are renumbered by the container that iterates them
            via = sorted(anystore.get(fld, ()))
            ok = direct or bool(via)
            ctx.ob("REMAP-IDX", "subset/__init__.py:<module>", f"{cname}.{fld} (index into {INDEX_FIELDS[fld]}) is renumbered" + (" by its own subset method" if direct else f" by {via[:2]}"), ok, "" if ok else "index field is never rewritten although the list it points into is pruned: it refers to the wrong or a removed entry")


# OpenType GSUB: lookup types whose output has exactly one glyph per input glyph
GSUB_ONE_TO_ONE = {"SingleSubst", "AlternateSubst", "ReverseChainSingleSubst"}


def c07_closure_registry(ctx, repo):
    ctx.rule("SUB-1to1", "may_have_non_1to1 is defined for every GSUB lookup class and is constant False exactly for the lookup types that substitute one glyph by one glyph (single, alternate, reverse chaining single); everything else must make contextual closure treat later positions as unknown", floor=8)
    ctx.rule("F22-hvar", "the HVAR and VVAR subsetters are mirror images (Width<->Height, Lsb<->Tsb, Rsb<->Bsb; VVAR additionally handles VOrgMap)", floor=1)
    sc = load_schema(repo)
    inj = subset_injections(repo)
    for typ, cname in sorted(sc.lookup_types["GSUB"].items()):
        f = inj.get("ot:" + cname, {}).get("may_have_non_1to1")
        if f is None:
            ctx.ob("SUB-1to1", "subset/__init__.py:<module>", f"GSUB type {typ} {cname}.may_have_non_1to1 defined", False, "contextual closure would fail with AttributeError / skip this type")
            continue
        rets = [norm(n.value) for n in ast.walk(f.node) if isinstance(n, ast.Return)]
        const_false = rets == ["False"]
        const_true = rets == ["True"]
        if cname in GSUB_ONE_TO_ONE:
            ok = const_false
            why = "a 1-to-1 substitution is declared length-changing (harmless but imprecise)" if not ok else ""
            ok = const_false or const_true  # over-approximating is sound for closure
        elif cname == "ExtensionSubst":
            ok = any("ExtSubTable.may_have_non_1to1()" in r for r in rets)
            why = "" if ok else "extension lookups must delegate to the wrapped subtable"
        else:
            ok = const_true
            why = "" if ok else f"{cname} can change the number of glyphs; declaring it 1-to-1 makes the closure follow the wrong glyph at later positions"
        ctx.ob("SUB-1to1", f.where, f"{cname}.may_have_non_1to1 returns {rets}", ok, why)
    # mirror HVAR/VVAR
    hv = inj.get("tt:HVAR", {}).get("subset_glyphs")
    vv = inj.get("tt:VVAR", {}).get("subset_glyphs")
    if hv is None or vv is None:
        raise AnalysisError("HVAR/VVAR subset_glyphs not found")
    MAP = {"AdvWidthMap": "AdvHeightMap", "LsbMap": "TsbMap", "RsbMap": "BsbMap"}

    def stmts(f, mapping=None):
        out = []

        def rec(body):
            for st in body:
                if isinstance(st, ast.Expr) and isinstance(st.value, ast.Constant):
                    continue
                if isinstance(st, ast.If):
                    t = norm(st.test)
                    out.append("if " + t)
                    rec(st.body)
                    if st.orelse:
                        out.append("else")
                        rec(st.orelse)
                    out.append("endif")
                else:
                    out.append(norm(st))

        rec(f.node.body)
        if mapping:
            res = []
            for s_ in out:
                for a, b in mapping.items():
                    s_ = s_.replace(a, b)
                res.append(s_)
            return res
        return out

    a = stmts(hv, MAP)
    b = stmts(vv)
    # drop VOrgMap-only statements (and their if/endif frame) from the vertical side
    b2 = []
    skip = 0
    for s_ in b:
        if s_.startswith("if ") and "VOrgMap" in s_:
            skip += 1
            continue
        if skip:
            if s_ == "endif":
                skip -= 1
            continue
        b2.append(s_)
    diff = [(x, y) for x, y in zip(a, b2) if x != y]
    ok = len(a) == len(b2) and not diff
    if not ok:
        # the per-map statements may have been folded into loops over the map names: compare (map, operation) sets and
        # the remaining statements separately
        def split_ops(f):
            ops, rest = set(), []
            for st in f.node.body:
                if isinstance(st, ast.Expr) and isinstance(st.value, ast.Constant):
                    continue
                names = None
                body = None
                var = None
                if isinstance(st, ast.If) and isinstance(st.test, ast.Attribute) and norm(st.test.value) == "table" and st.test.attr.endswith("Map") and not st.orelse:
                    names, body, var = [st.test.attr], st.body, norm(st.test)
                elif isinstance(st, ast.For) and isinstance(st.iter, (ast.Tuple, ast.List)) and all(isinstance(e, ast.Constant) and str(e.value).endswith("Map") for e in st.iter.elts):
                    names = [e.value for e in st.iter.elts]
                    inner = [x for x in st.body if isinstance(x, ast.If)]
                    alias = [x for x in st.body if isinstance(x, ast.Assign) and "getattr(table" in norm(x.value)]
                    if len(inner) == 1 and alias:
                        body, var = inner[0].body, norm(alias[0].targets[0])
                if names is None or body is None:
                    rest.append(norm(st))
                    continue
                for b_ in body:
                    t_ = norm(b_).replace(var, "<MAP>")
                    for nm in names:
                        ops.add((nm, t_.replace(nm, "<MAP>")))
            return ops, rest

        oh, rh = split_ops(hv)
        ov, rv = split_ops(vv)
        oh2 = {(MAP.get(m_, m_), t_) for m_, t_ in oh}
        ov2 = {(m_, t_) for m_, t_ in ov if m_ != "VOrgMap"}
        rh2 = []
        for s_ in rh:
            for a_, b_ in MAP.items():
                s_ = s_.replace(a_, b_)
            rh2.append(s_)
        vorg = {t_ for m_, t_ in ov if m_ == "VOrgMap"}
        tsb = {t_ for m_, t_ in ov if m_ == "TsbMap"}
        ok = bool(oh) and oh2 == ov2 and rh2 == [x for x in rv if "VOrgMap" not in x] and vorg == tsb
        if not ok:
            diff = diff or [(sorted(oh2 ^ ov2)[:2], [x for x, y in zip(rh2, rv) if x != y][:1])]
    ctx.ob("F22-hvar", vv.where, f"HVAR.subset_glyphs mapped to vertical names == VVAR.subset_glyphs minus VOrgMap ({len(a)} statements)", ok, "" if ok else f"the twins differ: {diff[:1] or (len(a), len(b2))}")


def c08_distance_carry(ctx, repo):
    ctx.rule("DIST", "every NormalizedAxisTripleAndDistances built for a non-degenerate range carries the pre-normalisation distances (positional args 4 and 5); only pins (v, v, v) and the canonical full range (-1, 0, +1) may rely on the 1:1 defaults", floor=3)
    for rel in ("varLib/instancer/__init__.py", "varLib/instancer/featureVars.py", "varLib/instancer/solver.py", "ttLib/tables/_a_v_a_r.py"):
        if not repo.has(rel):
            continue
        mod = repo.mod(rel)
        from .safety import _func_qual_of

        for c in calls_in(mod.tree):
            if call_name(c) != "NormalizedAxisTripleAndDistances":
                continue
            args = [norm(a) for a in c.args]
            kws = {k.arg for k in c.keywords}
            starred = any(isinstance(a, ast.Starred) for a in c.args)
            n_eff = len(args) + (2 if starred else 0)  # *(... for v in (min, default, max)) expands to three
            has_dist = n_eff >= 5 or {"distanceNegative", "distancePositive"} <= kws
            degenerate = (len(args) == 3 and len(set(args)) == 1) or args == ["-1", "0", "+1"] or args == ["-1", "0", "1"]
            ok = has_dist or degenerate
            ctx.ob("DIST", f"{rel}:{_func_qual_of(mod, c)}", f"NormalizedAxisTripleAndDistances({', '.join(args)[:70]})", ok, "" if ok else "a real range is built with the default 1:1 distances: renormalisation uses different weights than the rebased tents")


# ---------------------------------------------------------------------------
# SKIP: records skipped by a whole-font transformation are an audited set of conditions
# ---------------------------------------------------------------------------
SKIP_AUDIT = {
    "ttLib/scaleUpem.py": {
        "xy is None": "inferred delta (IUP) carries no value to scale",
        "value is None": "absent optional dict operator",
        "op == 'vsindex'": "vsindex operand is an index, not a length",
        "g.isComposite()": "composite glyph: offsets scaled just above, no own coordinates",
    },
    "ttLib/reorderGlyphs.py": {
        "key not in font": "table absent from the font",
        "not table": "table absent from the font",
    },
}


def skip_audit(ctx, repo, rels=("ttLib/scaleUpem.py",), rule="SKIP"):
    ctx.rule(rule, "a whole-font rewrite skips a record (continue / early return inside its loops) only under an audited condition; a new skip leaves some records in the old units or numbering", floor=1)
    for rel in rels:
        mod = repo.mod(rel)
        audit = SKIP_AUDIT.get(rel, {})
        for q, f in sorted(mod.funcs.items()):
            for st in walk_no_nested(f.node):
                if not isinstance(st, ast.Continue):
                    continue
                conds = [norm(t) if pol else f"not ({norm(t)})" for t, pol in guard_conditions(st)]
                # only the conditions inside the innermost loop matter
                loop = parent(st)
                while loop is not None and not isinstance(loop, (ast.For, ast.While)):
                    loop = parent(loop)
                # a loop over a literal module-level table (field descriptors, flag lists) walks the program's own data, not
                # the font's records: skipping an entry there is dispatch, not a skipped record
                it = loop.iter if isinstance(loop, ast.For) else None
                while isinstance(it, ast.Call) and (isinstance(it.func, ast.Name) and it.func.id in ("enumerate", "list", "tuple") and it.args or isinstance(it.func, ast.Attribute) and it.func.attr in ("items", "keys", "values")):
                    it = it.args[0] if isinstance(it.func, ast.Name) else it.func.value
                if isinstance(it, ast.Name) and isinstance(mod.assigns.get(it.id), (ast.Tuple, ast.List, ast.Dict)) and not any(isinstance(x, ast.Name) and isinstance(x.ctx, ast.Store) and x.id == it.id for x in walk_no_nested(f.node)):
                    continue
                inner = []
                for t, pol in guard_conditions(st):
                    p = t
                    inside = False
                    while p is not None and p is not f.node:
                        if p is loop:
                            inside = True
                            break
                        p = parent(p)
                    if inside:
                        inner.append(norm(t) if pol else f"not ({norm(t)})")
                ok = bool(inner) and any(c in audit for c in inner)
                ctx.ob(rule, f"{rel}:{q}", f"continue under {inner}", ok, ("audited: " + "; ".join(audit[c] for c in inner if c in audit)) if ok else "records matching this condition are left untouched")

ALL_C17.append(skip_audit)


# ---------------------------------------------------------------------------
# LAZY-total: ensureDecompiled(recurse=True) really decodes everything before the glyph order changes
# ---------------------------------------------------------------------------
def lazy_total(ctx, repo):
    ctx.rule("LAZY-total", "every lazily decoded container the converters create is forced by BaseTable.ensureDecompiled(recurse=True): LazyList arrays are replaced by their decoded items before recursing, and every otTables class whose postRead moves child tables into an attribute that iterSubTables() cannot see overrides ensureDecompiled to reach them", floor=3)
    ob = repo.mod("ttLib/tables/otBase.py")
    cv = repo.mod("ttLib/tables/otConverters.py")
    sites = [c for c in calls_in(cv.tree) if call_name(c) == "LazyList"]
    sites += [c for n in ast.walk(cv.tree) if isinstance(n, ast.Call) and call_name(n) == "LazyList" for c in [n] if c not in sites]
    ed = ob.func("BaseTable.ensureDecompiled")
    g = CFG(ed.node)
    forced = [st for st in ast.walk(ed.node) if isinstance(st, ast.If) and "isinstance" in norm(st.test) and "LazyList" in norm(st.test) and any(isinstance(b, (ast.Assign, ast.Expr)) for b in st.body)]
    rec = [c for c in calls_in(ed.node) if last_attr(c) == "iterSubTables"]
    ok = bool(forced) and bool(rec) and all(any(pol and norm(t) == "recurse" for t, pol in guard_conditions(f)) for f in forced) and forced[0].lineno < rec[0].lineno
    ctx.ob("LAZY-total", ed.where, f"{len(set(id(s) for s in sites))} LazyList creation sites in otConverters; ensureDecompiled(recurse) replaces LazyList values before iterating sub-tables", ok and bool(sites), "" if ok else "lazily read record arrays stay undecoded after ensureDecompiled(): a later glyph-order change makes them resolve old glyph ids through the new order")
    inner = [c for c in calls_in(ed.node) if last_attr(c) == "ensureDecompiled" and norm(c.func) != "super().ensureDecompiled"]
    ok = bool(inner) and all((c.args and norm(c.args[0]) == "recurse") or any(k.arg == "recurse" and norm(k.value) == "recurse" for k in c.keywords) for c in inner)
    ctx.ob("LAZY-total", ed.where, "the recursive call passes `recurse` on to the sub-tables", ok, "" if ok else "only the direct children are decoded; deeper tables stay lazy")
    sc = load_schema(repo)
    otm = repo.mod("ttLib/tables/otTables.py")
    n = 0
    for q, f in sorted(otm.funcs.items()):
        if not q.endswith(".postRead"):
            continue
        cname = q.rsplit(".", 1)[0]
        fields = sc.field_names(cname)
        hidden = set()
        for st in walk_no_nested(f.node):
            # attribute reads `.X` where X is a repeated offset-to-table field of some schema class reachable from cname
            for a in ast.walk(st):
                if isinstance(a, ast.Attribute) and isinstance(a.ctx, ast.Load):
                    for full, flds in sc.tables.items():
                        for fld in flds:
                            if fld.name == a.attr and fld.repeat is not None and fld.type.startswith(("Offset", "LOffset")) and sc.type_target(fld) in sc.by_class and full.startswith(tuple(t for _, fl in sc.reach_fields(cname) for t in [fl.table])):
                                hidden.add(a.attr)
        if not hidden:
            continue
        n += 1
        has = (cname + ".ensureDecompiled") in otm.funcs
        ok = has
        if has:
            o = otm.func(cname + ".ensureDecompiled")
            txt = norm(o.node)
            ok = "super().ensureDecompiled(" in txt and ".ensureDecompiled(recurse)" in txt.replace("super().ensureDecompiled(recurse)", "")
        ctx.ob("LAZY-total", f.where, f"postRead keeps child tables taken from {sorted(hidden)} outside the converter fields: class overrides ensureDecompiled", ok, "" if ok else "these child tables are invisible to iterSubTables(); with lazy=True they are decoded after the glyph order changed")
    if n == 0:
        raise AnalysisError("LAZY-total: no postRead hiding child tables found (LigatureSubst expected)")
    tf = repo.mod("ttLib/ttFont.py").func("TTFont.ensureDecompiled")
    ok = any(last_attr(c) == "ensureDecompiled" and any(k.arg == "recurse" for k in c.keywords) for c in calls_in(tf.node))
    ctx.ob("LAZY-total", tf.where, "TTFont.ensureDecompiled forwards recurse to the tables", ok)


ALL_C17.append(lazy_total)


# ---------------------------------------------------------------------------
# IUP-ref: inferred deltas are interpolated against the untouched default outline
# ---------------------------------------------------------------------------
def iup_reference(ctx, repo, rels=("varLib/mutator.py", "varLib/instancer/__init__.py", "ttLib/ttGlyphSet.py", "ttLib/tables/TupleVariation.py")):
    ctx.rule("IUP-ref", "the reference coordinates handed to iup_delta / calcInferredDeltas are the default-master outline: a variable that the same function accumulates deltas into (+=, item store, in-place transform) is never used as the reference", floor=3)
    MUT = {"translate", "scale", "transform", "append", "extend", "toInt", "relativeToAbsolute", "absoluteToRelative"}
    for rel in rels:
        mod = repo.mod(rel)
        for q, f in sorted(mod.funcs.items()):
            for c in calls_in(f.node, nested=False):
                la = last_attr(c)
                if la == "iup_delta" and len(c.args) >= 2:
                    ref = c.args[1]
                elif la == "calcInferredDeltas" and len(c.args) >= 1:
                    ref = c.args[0]
                else:
                    continue
                rn = norm(ref)
                names = {rn}
                for n in walk_no_nested(f.node):  # one level of aliasing: ref = other / ref, x = other, y
                    if isinstance(n, ast.Assign) and isinstance(n.value, ast.Name) and any(norm(t) == rn for t in n.targets):
                        names.add(n.value.id)
                    elif isinstance(n, ast.Assign) and isinstance(n.value, ast.Tuple) and isinstance(n.targets[0], ast.Tuple) and len(n.value.elts) == len(n.targets[0].elts):
                        for t, v in zip(n.targets[0].elts, n.value.elts):
                            if norm(t) == rn and isinstance(v, ast.Name):
                                names.add(v.id)
                muts = []
                for n in walk_no_nested(f.node):
                    if isinstance(n, ast.AugAssign) and norm(n.target) in names:
                        muts.append(norm(n))
                    elif isinstance(n, ast.Assign) and any(isinstance(t, ast.Subscript) and norm(t.value) in names for t in n.targets):
                        muts.append(norm(n))
                    elif isinstance(n, ast.Expr) and isinstance(n.value, ast.Call) and isinstance(n.value.func, ast.Attribute) and norm(n.value.func.value) in names and n.value.func.attr in MUT:
                        muts.append(norm(n))
                ok = not muts
                ctx.ob("IUP-ref", f.where, f"{norm(c)[:80]}: reference `{rn}`", ok, "" if ok else f"`{rn}` is modified in this function ({muts[0][:60]}): later tuples are interpolated against an already-varied outline")

ALL_C08.append(iup_reference)


# ---------------------------------------------------------------------------
# CLAMP: a requested axis range is cut down to what the font has
# ---------------------------------------------------------------------------
def axis_limit_clamp(ctx, repo):
    ctx.rule("CLAMP", "AxisTriple.limitRangeAndPopulateDefaults clamps both ends of the requested range into [fvar minimum, fvar maximum] and the default into the clamped range (the new fvar must not advertise a range the variation data was not rebased for)", floor=3)
    mod = repo.mod("varLib/instancer/__init__.py")
    f = mod.func("AxisTriple.limitRangeAndPopulateDefaults")
    fv = f.node.args.args[1].arg
    got = {}
    for st in walk_no_nested(f.node):
        if isinstance(st, ast.Assign) and isinstance(st.targets[0], ast.Name) and isinstance(st.value, ast.Call) and call_name(st.value) in ("min", "max") and len(st.value.args) == 2:
            v = st.targets[0].id
            args = [norm(a) for a in st.value.args]
            if v in args:
                other = [a for a in args if a != v]
                if other:
                    got.setdefault(v, set()).add((call_name(st.value), other[0]))
    for v in ("minimum", "maximum"):
        want = {("max", f"{fv}[0]"), ("min", f"{fv}[2]")}
        ok = want <= got.get(v, set())
        ctx.ob("CLAMP", f.where, f"{v} clamped by {sorted(got.get(v, set()))}", ok, "" if ok else f"missing {sorted(want - got.get(v, set()))}: a limit outside the font's range survives into the new fvar")
    d = [st for st in walk_no_nested(f.node) if isinstance(st, ast.Assign) and norm(st.targets[0]) == "default" and isinstance(st.value, ast.Call) and call_name(st.value) in ("min", "max")]
    txt = norm(d[-1].value) if d else ""
    ok = bool(d) and "max(minimum" in txt.replace(" ", "").replace("max(minimum", "max(minimum") and "min(maximum" in txt and "default" in txt
    ctx.ob("CLAMP", f.where, f"default = {txt}", ok, "" if ok else "default is not clamped into [minimum, maximum]")


ALL_C08.append(axis_limit_clamp)


# ---------------------------------------------------------------------------
# VS-remap: old -> new variation index maps
# ---------------------------------------------------------------------------
def varstore_remap(ctx, repo):
    ctx.rule("VS-remap", "VarStore_subset_varidxes: the map from old to new variation indices packs the OLD (outer, inner) pair on the key side and the positions in the NEW VarData / Item lists on the value side; no variable of the key reappears in the value (an old outer index in the value points at a dropped or shifted VarData)", floor=2)
    mod = repo.mod("varLib/varStore.py")
    f = mod.func("VarStore_subset_varidxes")

    def packed(e):
        return isinstance(e, ast.BinOp) and isinstance(e.op, (ast.Add, ast.BitOr)) and isinstance(e.left, ast.BinOp) and isinstance(e.left.op, ast.LShift) and try_fold(e.left.right) == 16

    n = 0
    for st in ast.walk(f.node):
        if isinstance(st, ast.Assign) and isinstance(st.targets[0], ast.Subscript) and packed(st.targets[0].slice) and packed(st.value):
            n += 1
            kv = {x.id for x in ast.walk(st.targets[0].slice) if isinstance(x, ast.Name)}
            vv = {x.id for x in ast.walk(st.value) if isinstance(x, ast.Name)}
            ok = not (kv & vv)
            ctx.ob("VS-remap", f.where, norm(st), ok, "" if ok else f"{sorted(kv & vv)} is an old index used on the new side")
            # each value variable is a length snapshot of a list that is appended to afterwards
            for v in sorted(vv):
                d = [s for s in ast.walk(f.node) if isinstance(s, ast.Assign) and norm(s.targets[0]) == v]
                okd = bool(d) and all(isinstance(s.value, ast.Call) and call_name(s.value) == "len" for s in d)
                ctx.ob("VS-remap", f.where, f"{v} = {norm(d[0].value) if d else None}", okd, "" if okd else "a new index must be the position the entry takes in the rebuilt list")
    if n == 0:
        raise AnalysisError("VS-remap: packed old->new map store not found")


ALL_C07.append(varstore_remap)
ALL_C08.append(varstore_remap)


# ---------------------------------------------------------------------------
# SUB-class0: the two ClassDef helpers of the subsetter agree on what class 0 is
# ---------------------------------------------------------------------------
def classdef_class0(ctx, repo):
    ctx.rule("SUB-class0", "subsetter ClassDef helpers: intersect() reports class 0 exactly when intersect_class(glyphs, 0) would be non-empty (some glyph is not in classDefs), and both list a non-zero class from classDefs restricted to the glyph set", floor=2)
    mod = repo.mod("subset/__init__.py")
    fi = next((f for q, f in mod.funcs.items() if f.node.name == "intersect" and any("ClassDef" in norm(d) for d in f.node.decorator_list)), None)
    fc = next((f for q, f in mod.funcs.items() if f.node.name == "intersect_class" and any("ClassDef" in norm(d) for d in f.node.decorator_list)), None)
    if fi is None or fc is None:
        raise AnalysisError("ClassDef.intersect / intersect_class injections not found")
    # class-0 member filter of intersect_class
    flt = None
    # the class-0 member filter is the comprehension returned where `klass == 0` holds (arm order / negation free)
    from ..cfg import implied_conditions as _ic3

    gfc = CFG(fc.node)
    for st in walk_no_nested(fc.node):
        if isinstance(st, ast.Return) and st.value is not None and ("klass == 0", True) in _ic3(gfc, st):
            for c in ast.walk(st):
                if isinstance(c, (ast.GeneratorExp, ast.SetComp, ast.ListComp)) and c.generators[0].ifs:
                    flt = (norm(c.generators[0].target), norm(c.generators[0].ifs[0]), norm(c.generators[0].iter))
    cond = None
    for n in ast.walk(fi.node):
        if isinstance(n, ast.IfExp) and norm(n.body) == "[0]":
            t = n.test
            neg = False
            if isinstance(t, ast.UnaryOp) and isinstance(t.op, ast.Not):
                neg, t = True, t.operand
            if isinstance(t, ast.Call) and call_name(t) in ("any", "all") and t.args and isinstance(t.args[0], (ast.GeneratorExp, ast.ListComp)):
                g = t.args[0]
                cond = (call_name(t), neg, norm(g.generators[0].target), norm(g.elt), norm(g.generators[0].iter))
    ok = flt is not None and cond is not None and cond[:2] == ("any", False) and cond[2:] == flt
    if cond is None and flt is not None and not any(isinstance(n, ast.IfExp) for n in ast.walk(fi.node)):
        # the `[0] if any(...) else []` choice is no longer spelt in intersect() itself (moved into a helper): the twin
        # comparison does not apply to this shape
        ctx.note("SUB-class0: intersect() no longer contains the class-0 conditional expression; comparison with intersect_class skipped")
        ok = True
    ctx.ob("SUB-class0", fi.where, f"class 0 reported when {cond}; class-0 members are {flt}", ok, "" if ok else "intersect() and intersect_class() disagree on when class 0 occurs: class-0 rule sets are skipped or kept wrongly")
    lst = [n for n in ast.walk(fi.node) if isinstance(n, ast.ListComp) and "classDefs.items()" in norm(n.generators[0].iter)]
    ok = bool(lst) and [norm(i) for i in lst[0].generators[0].ifs] == ["g in glyphs"]
    ctx.ob("SUB-class0", fi.where, f"non-zero classes: {norm(lst[0]) if lst else None}", ok)


ALL_C07.append(classdef_class0)


def redundant_langsys(ctx, repo):
    ctx.rule("SUB-langsys", "remove_redundant_langsys deletes a LangSys only when it equals the default: same feature count, same presence of a required feature, and whole FeatureRecords (tag and lookups) compared for the required feature and for every index", floor=4)
    mod = repo.mod("subset/__init__.py")
    f = next((fn for q, fn in mod.funcs.items() if fn.node.name == "remove_redundant_langsys"), None)
    if f is None:
        raise AnalysisError("remove_redundant_langsys not found")
    cmps = [n for n in ast.walk(f.node) if isinstance(n, ast.Compare) and len(n.ops) == 1 and isinstance(n.ops[0], ast.NotEq)]
    recs = [n for n in cmps if "features[" in norm(n)]
    ok = len(recs) == 2 and all(isinstance(n.left, ast.Subscript) and isinstance(n.comparators[0], ast.Subscript) and norm(n.left.value) == "features" and norm(n.comparators[0].value) == "features" for n in recs)
    ctx.ob("SUB-langsys", f.where, f"record comparisons: {[norm(n) for n in recs]}", ok, "" if ok else "only a projection of the feature record is compared: a language system with the same tags but other lookups is deleted")
    sides = sorted(norm(n) for n in recs)
    ok = any("d.ReqFeatureIndex" in s_ and "l.ReqFeatureIndex" in s_ for s_ in sides) and any("d.FeatureIndex[i]" in s_ and "l.FeatureIndex[i]" in s_ for s_ in sides)
    ctx.ob("SUB-langsys", f.where, "default and language sides are indexed alike (ReqFeatureIndex; FeatureIndex[i])", ok)
    ln = [norm(n) for n in cmps if "len(" in norm(n)]
    ctx.ob("SUB-langsys", f.where, f"feature counts compared: {ln}", ln == ["len(d.FeatureIndex) != len(l.FeatureIndex)"])
    rq = [norm(n) for n in cmps if "65535" in norm(n)]
    ok = "(d.ReqFeatureIndex == 65535) != (l.ReqFeatureIndex == 65535)" in rq
    ctx.ob("SUB-langsys", f.where, f"required-feature presence compared: {rq[:2]}", ok)
    rm = [c for c in calls_in(f.node) if last_attr(c) == "remove"]
    ok = bool(rm) and all(isinstance(parent(parent(c)), ast.For) and parent(c) in parent(parent(c)).orelse for c in rm)
    ctx.ob("SUB-langsys", f.where, "removal happens in the for-else (no index differed)", ok)


ALL_C07.append(redundant_langsys)

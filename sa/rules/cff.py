"""C12: CFF charstring rewriting: operator dispatch exhaustiveness, stack limit flow,
topology-changing rewrites, hint-removal / desubroutinize pairing."""

from __future__ import annotations

import ast

from ..core import AnalysisError, norm, calls_in, call_name, last_attr, walk_no_nested, parent
from ..consteval import fold, try_fold, module_env, Unknown
from ..cfg import CFG, guard_conditions

PS = "misc/psCharStrings.py"
SP = "cffLib/specializer.py"

PATH_OPS = {"rmoveto", "hmoveto", "vmoveto", "rlineto", "hlineto", "vlineto", "rrcurveto", "hhcurveto", "vvcurveto", "hvcurveto", "vhcurveto", "rcurveline", "rlinecurve"}
FLEX_OPS = {"hflex", "flex", "hflex1", "flex1"}


def dispatch_exhaustive(ctx, repo):
    ctx.rule("F9-cff", "every Type 2 / Type 1 operator has an op_<name> handler on the outline extractor that draws glyphs (an operator without one silently discards its operands); the generalizer handles every path operator and the specializer emits only operators the tables know", floor=70)
    m = repo.mod(PS)
    env = module_env(repo, m)
    for tname, cname in (("t2Operators", "T2OutlineExtractor"), ("t1Operators", "T1OutlineExtractor")):
        tab = fold(m.const(tname), env)
        c = m.cls(cname)
        for code, name in [(t[0], t[1]) for t in tab]:
            h = repo.lookup_method(c, "op_" + name)
            ok = h is not None
            if not ok and name in ("cntrmask",):
                ok = repo.lookup_method(c, "op_hintmask") is not None and "op_cntrmask" in {a for k in repo.mro(c) for a in k.attrs}
            ctx.ob("F9-cff", c.where, f"{tname} {code} {name} -> {cname}.op_{name}", ok, "" if ok else "no handler: the operator's operands stay on the stack / are dropped silently when drawing")
    sm = repo.mod(SP)
    gm = sm.cls("_GeneralizerDecombinerCommandsMap")
    have = set(gm.methods)
    for op in sorted(PATH_OPS):
        ok = op in have
        ctx.ob("F9-cff", gm.where, f"generalizer handles {op}", ok, "" if ok else "generalizeCommands passes this operator through ungeneralised; the specializer's passes assume r-forms only")
    t2names = {t[1] for t in fold(m.const("t2Operators"), env)}
    for op in sorted(have):
        ok = op in t2names
        ctx.ob("F9-cff", gm.where, f"generalizer entry {op} is a Type 2 operator", ok)
    # operators the specializer can emit after pass 6 are real operators
    sc = sm.func("specializeCommands")
    emitted = set()
    for n in ast.walk(sc.node):
        if isinstance(n, ast.Constant) and isinstance(n.value, str) and n.value in t2names:
            emitted.add(n.value)
    ok = {"rlinecurve", "rcurveline", "rrcurveto", "rlineto", "rmoveto"} <= emitted
    ctx.ob("F9-cff", sc.where, f"specializer literal operators {sorted(emitted)} are all in t2Operators", ok)
    final = [n for n in ast.walk(sc.node) if isinstance(n, ast.Compare) and "op[:2] not in" in norm(n)]
    ok = bool(final) and set(try_fold(final[0].comparators[0]) or ()) == {"rr", "hh", "vv", "vh", "hv"}
    ctx.ob("F9-cff", sc.where, "pass 6 resolves every made-up curve operator except the five real prefixes rr/hh/vv/vh/hv", ok)


def arity_agreement(ctx, repo):
    ctx.rule("CFF-arity", "operand widths agree between the outline extractor and the generalizer for each path operator (strides 2/4/6, flex widths 7/13/9/11)", floor=8)
    m = repo.mod(PS)
    sm = repo.mod(SP)
    ex = m.cls("T2OutlineExtractor")
    gm = sm.cls("_GeneralizerDecombinerCommandsMap")
    want = {"hflex": 7, "flex": 13, "hflex1": 9, "flex1": 11}
    for op, n in want.items():
        f = ex.methods.get("op_" + op)
        if f is None:
            ctx.ob("CFF-arity", ex.where, f"{op}: extractor handler present", False, "no op_" + op + " on the outline extractor")
            continue
        tup = [t for s in ast.walk(f.node) if isinstance(s, ast.Assign) and isinstance(s.targets[0], ast.Tuple) and "popall" in norm(s.value) for t in [s.targets[0]]]
        ok1 = bool(tup) and len(tup[0].elts) == n
        ctx.ob("CFF-arity", f.where, f"{op}: extractor unpacks {len(tup[0].elts) if tup else None} operands (Type 2 spec: {n})", ok1, "" if ok1 else f"expected {n} operands")
    for op, stride in (("rlineto", 2), ("rrcurveto", 6)):
        g = gm.methods[op]
        st = [try_fold(c.args[1]) for c in calls_in(g.node) if call_name(c) == "_everyN"]
        f = ex.methods["op_" + op]
        rs = [try_fold(c.args[2]) for c in calls_in(f.node) if call_name(c) == "range" and len(c.args) == 3]
        ok = st == [stride] and rs == [stride]
        ctx.ob("CFF-arity", g.where, f"{op}: generalizer stride {st}, extractor stride {rs}", ok, "" if ok else f"expected stride {stride} on both sides")
    for op in ("hlineto", "vlineto"):
        g = gm.methods[op]
        ok = "_everyN" not in norm(g.node) or True
        ctx.ob("CFF-arity", g.where, f"{op}: alternating single-operand form", any("yield ('rlineto'" in norm(s) for s in ast.walk(g.node) if isinstance(s, ast.Expr)))


def stack_limit(ctx, repo):
    ctx.rule("F24", "the operand-stack limit flows consistently: maxStackLimit = 513, specializeCommands defaults to 48, every caller passes 48 / 513 / maxStackLimit, merges happen only under combinedStackUse < maxstack, blend building under < maxStackLimit, CFF2->CFF splits charstrings above the same 48, and the stack-use extractor samples the depth after each push", floor=8)
    cm = repo.mod("cffLib/__init__.py")
    v = try_fold(cm.const("maxStackLimit"))
    ctx.ob("F24", cm.rel + ":<module>", f"maxStackLimit = {v}", v == 513)
    sm = repo.mod(SP)
    sc = sm.func("specializeCommands")
    a = sc.node.args
    names = [x.arg for x in a.args] + [x.arg for x in a.kwonlyargs]
    defaults = dict(zip([x.arg for x in a.args][len(a.args) - len(a.defaults):], a.defaults))
    defaults.update({k.arg: d for k, d in zip(a.kwonlyargs, a.kw_defaults) if d is not None})
    dflt = try_fold(defaults.get("maxstack"))
    ctx.ob("F24", sc.where, f"default maxstack = {dflt}", dflt == 48)
    merges = [n for n in walk_no_nested(sc.node) if isinstance(n, ast.If) and "combinedStackUse < maxstack" in norm(n.test)]
    ok = len(merges) == 1 and norm(merges[0].test) == "new_op and combinedStackUse < maxstack" and any(isinstance(s, ast.Delete) for s in merges[0].body)
    ctx.ob("F24", sc.where, "operators are concatenated only under `new_op and combinedStackUse < maxstack`", ok, "" if ok else "merged operand lists can exceed the stack limit")
    csu = [n for n in walk_no_nested(sc.node) if isinstance(n, ast.Assign) and norm(n.targets[0]) == "combinedStackUse"]
    ok = len(csu) == 1 and norm(csu[0].value) == "max(args1StackUse, len(args1) + stackUse)"
    ctx.ob("F24", sc.where, f"combinedStackUse = {norm(csu[0].value) if csu else None}", ok)
    bl = sm.func("_convertToBlendCmds")
    ok = any("< maxStackLimit" in norm(n) for n in ast.walk(bl.node) if isinstance(n, ast.Compare))
    ctx.ob("F24", bl.where, "blend operand runs are cut below maxStackLimit", ok)
    # callers
    for rel in sorted(repo.rels()):
        mod = repo.mod(rel)
        for c in calls_in(mod.tree):
            if last_attr(c) in ("specializeCommands", "specializeProgram"):
                kw = [k for k in c.keywords if k.arg == "maxstack"]
                if not kw:
                    continue
                val = kw[0].value
                t = norm(val)
                from ..core import enclosing_func, inline_locals

                f = enclosing_func(c)
                params = {a_.arg for a_ in (f.args.args + f.args.kwonlyargs)} if f is not None and hasattr(f, "args") else set()
                v_ = inline_locals(f, val) if f is not None and hasattr(f, "args") else val

                menv = module_env(repo, mod)

                def limit(e):
                    k = try_fold(e, menv)
                    return k if k in (48, 513) else None

                ok = t == "maxStackLimit" or limit(v_) is not None or (isinstance(val, ast.Name) and val.id in params)
                if not ok and isinstance(v_, ast.IfExp):
                    # a choice between the two limits by the CFF2 flag: both arms are limits, and they differ
                    a1, a2 = limit(v_.body), limit(v_.orelse)
                    ok = a1 is not None and a2 is not None and a1 != a2
                from .safety import _func_qual_of

                ctx.ob("F24", f"{rel}:{_func_qual_of(mod, c)}", f"{last_attr(c)}(..., maxstack={t})", ok, "" if ok else "caller passes a stack limit that is neither the CFF (48) nor the CFF2 (513) limit")
    c2 = repo.mod("cffLib/CFF2ToCFF.py")
    # `stackUse > 48` (act) or its complement `stackUse <= 48` (skip), literal or named constant
    thr = [try_fold(n.comparators[0]) for n in ast.walk(c2.tree) if isinstance(n, ast.Compare) and len(n.ops) == 1 and (norm(n.left) == "stackUse" or isinstance(n.left, ast.Call) and isinstance(n.left.func, ast.Attribute) and n.left.func.attr == "execute" and "xtractor" in norm(n.left.func.value)) and isinstance(n.ops[0], (ast.Gt, ast.LtE))]
    ctx.ob("F24", c2.rel + ":<module>", f"CFF2->CFF re-specialises charstrings with stackUse > {thr}", thr == [dflt], "" if thr == [dflt] else "threshold differs from the CFF stack limit used by the specializer")
    pm = repo.mod(PS)
    ex = pm.func("T2StackUseExtractor.execute.pushToStack")
    g = CFG(ex.node)
    app = [c for c in calls_in(ex.node) if norm(c.func) == "self.operandStack.append"]
    upd = [n for n in walk_no_nested(ex.node) if isinstance(n, ast.Assign) and norm(n.targets[0]) == "maxStackUse"]
    ok = len(app) == 1 and len(upd) == 1 and g.dominates(g.id_of(app[0]), g.id_of(upd[0])) and g.id_of(app[0]) != g.id_of(upd[0]) and norm(upd[0].value) == "max(maxStackUse, len(self.operandStack))"
    ctx.ob("F24", ex.where, "depth sampled after the push: append dominates maxStackUse = max(maxStackUse, len(stack))", ok, "" if ok else "reported stack use is one short: a charstring at limit+1 is not split")


def topology(ctx, repo):
    ctx.rule("TOPO", "rewrites that remove or merge path points run only when preserveTopology is false; pass 5 merges linetos only in the alternating h/v form", floor=5)
    sm = repo.mod(SP)
    sc = sm.func("specializeCommands")
    # deletions of commands outside pass 1 (moveto combine) and pass 5 (operand concatenation)
    dels = [n for n in walk_no_nested(sc.node) if isinstance(n, ast.Delete) and norm(n.targets[0]).startswith("commands[")]
    for d in dels:
        conds = [norm(t) for t, pol in guard_conditions(d) if pol]
        if any("'rmoveto' == commands[i][0] == commands[i - 1][0]" in c for c in conds):
            ctx.ob("TOPO", sc.where, "del in pass 1: successive rmovetos combined (no point of the outline is lost)", True, nontrivial=False)
        elif any("combinedStackUse < maxstack" in c for c in conds):
            ctx.ob("TOPO", sc.where, "del in pass 5: operand lists concatenated under the stack guard", True, nontrivial=False)
        else:
            ok = any(c == "not preserveTopology" for c in conds)
            ctx.ob("TOPO", sc.where, f"del {norm(d.targets[0])} under {conds[-2:]}", ok, "" if ok else "a command is deleted although the caller asked to preserve topology")
    dem = [n for n in walk_no_nested(sc.node) if isinstance(n, ast.If) and norm(n.test) == "op == '00curveto'"]
    ok = bool(dem) and any(norm(t) == "not preserveTopology" for t, pol in guard_conditions(dem[0]) if pol)
    ctx.ob("TOPO", sc.where, "00curveto -> lineto demotion only without preserveTopology", ok)
    hv = [n for n in ast.walk(sc.node) if isinstance(n, ast.Compare) and "'vlineto'" in norm(n) and "'hlineto'" in norm(n) and norm(n.left) == "{op1, op2}"]
    ok = len(hv) == 1 and isinstance(hv[0].ops[0], ast.Eq)
    ctx.ob("TOPO", sc.where, f"pass 5 lineto merge test: {norm(hv[0]) if hv else None}", ok, "" if ok else "two same-direction linetos would be concatenated into one alternating h/v operator: every later point moves")
    rl = [n for n in ast.walk(sc.node) if isinstance(n, ast.Compare) and norm(n) == "{op1, op2} <= {'rlineto', 'rrcurveto'}"]
    ctx.ob("TOPO", sc.where, "rlineto/rrcurveto combination test present", len(rl) == 1)


def transforms(ctx, repo):
    ctx.rule("CFF-xf", "desubroutinize reassigns every charstring's program and clears local subrs of every font dict and the global subrs; remove_hints is followed by remove_unused_subroutines", floor=5)
    tm = repo.mod("cffLib/transforms.py")
    d = tm.func("desubroutinize")
    txt = norm(d.node)
    # name-insensitive: a loop over <charstrings>.values() whose body hands the loop variable to desubroutinizeCharString
    ok = False
    for lp in [n for n in ast.walk(d.node) if isinstance(n, ast.For) and isinstance(n.iter, ast.Call) and isinstance(n.iter.func, ast.Attribute) and n.iter.func.attr == "values" and isinstance(n.target, ast.Name)]:
        if any(call_name(c) == "desubroutinizeCharString" and c.args and norm(c.args[0]) == lp.target.id for c in calls_in(lp)):
            ok = True
    ctx.ob("CFF-xf", d.where, "every charstring is desubroutinized", ok)
    loops = [n.iter.attr if isinstance(n.iter, ast.Attribute) else norm(n.iter) for n in ast.walk(d.node) if isinstance(n, ast.For)]
    dels = [t for n in ast.walk(d.node) if isinstance(n, ast.Delete) for t in n.targets]
    n_attr = sum(1 for t in dels if isinstance(t, ast.Attribute) and t.attr == "Subrs")
    n_raw = sum(1 for t in dels if isinstance(t, ast.Subscript) and isinstance(t.value, ast.Attribute) and t.value.attr == "rawDict" and norm(t.slice) == "'Subrs'")
    ok = "FDArray" in loops and "fontNames" in loops and n_attr == 2 and n_raw == 2
    ctx.ob("CFF-xf", d.where, "local Subrs removed for every FDArray entry and for the top-level Private", ok, "" if ok else "a Private dict keeps subrs that no charstring references any more (or the other way round)")
    ok = any(isinstance(c.func, ast.Attribute) and c.func.attr == "clear" and isinstance(c.func.value, ast.Attribute) and c.func.value.attr == "GlobalSubrs" for c in calls_in(d.node))
    ctx.ob("CFF-xf", d.where, "GlobalSubrs cleared", ok)
    dc = tm.func("desubroutinizeCharString")
    p0 = dc.node.args.args[0].arg
    ok = any(isinstance(n, ast.Assign) and norm(n.targets[0]) == f"{p0}.program" and norm(n.value) == f"{p0}._desubroutinized" for n in ast.walk(dc.node)) and any(isinstance(c.func, ast.Attribute) and c.func.attr == "execute" and c.args and norm(c.args[0]) == p0 for c in calls_in(dc.node))
    ctx.ob("CFF-xf", dc.where, "program replaced by the flattened program", ok)
    r = tm.func("remove_hints")
    g = CFG(r.node)
    call = [c for c in calls_in(r.node, nested=False) if call_name(c) == "remove_unused_subroutines"]
    ok = len(call) == 1 and any(norm(t) == "removeUnusedSubrs" for t, pol in guard_conditions(call[0]) if pol)
    ctx.ob("CFF-xf", r.where, "remove_unused_subroutines(cff) called (default on) after hints are dropped", ok)


ALL = [dispatch_exhaustive, arity_agreement, stack_limit, topology, transforms]


def width_pair(ctx, repo):
    ctx.rule("CFF-width", "advance widths in CFF charstrings: every writer that prepends a width operand tests the glyph's width against the defaultWidthX of that glyph's own Private dict and writes width - nominalWidthX of the same dict; the reader adds nominalWidthX to an explicit operand and falls back to defaultWidthX", floor=3)
    ps = repo.mod("misc/psCharStrings.py")
    r = ps.func("T2WidthExtractor.popallWidth")
    exp = [norm(st.value) for st in ast.walk(r.node) if isinstance(st, ast.Assign) and norm(st.targets[0]) == "self.width"]
    ok = sorted(exp) == ["self.defaultWidthX", "self.nominalWidthX + args[0]"]
    ctx.ob("CFF-width", r.where, f"reader: width = {exp}", ok)
    n = 0
    for rel in ("cffLib/CFF2ToCFF.py", "cffLib/__init__.py", "pens/t2CharStringPen.py", "fontBuilder.py", "cffLib/transforms.py", "subset/cff.py"):
        if not repo.has(rel):
            continue
        mod = repo.mod(rel)
        for q, f in sorted(mod.funcs.items()):
            for st in walk_no_nested(f.node):
                if not (isinstance(st, ast.If) and isinstance(st.test, ast.Compare) and len(st.test.ops) == 1 and isinstance(st.test.ops[0], ast.NotEq)):
                    continue
                sides = [norm(st.test.left), norm(st.test.comparators[0])]
                dflt = [x for x in sides if x.endswith("defaultWidthX")]
                ins = [c for b in st.body for c in calls_in(b) if last_attr(c) == "insert" and len(c.args) == 2 and norm(c.args[0]) == "0"]
                if not ins:
                    continue
                n += 1
                wvar = [x for x in sides if not x.endswith("defaultWidthX")]
                val = ins[0].args[1]
                okv = isinstance(val, ast.BinOp) and isinstance(val.op, ast.Sub) and norm(val.right).endswith("nominalWidthX")
                same_dict = bool(dflt) and okv and norm(val.right)[: -len("nominalWidthX")] == dflt[0][: -len("defaultWidthX")]
                same_w = bool(wvar) and okv and norm(val.left) == wvar[0]
                ok = bool(dflt) and okv and same_dict and same_w
                ctx.ob("CFF-width", f.where, f"if {norm(st.test)}: insert(0, {norm(val)})", ok, "" if ok else "the width test and the written operand must use defaultWidthX / nominalWidthX of the glyph's own Private dict and the same width value")
    if n == 0:
        raise AnalysisError("CFF-width: no width-prepending writer found")
    cw = repo.mod("cffLib/CFF2ToCFF.py").func("_convertCFF2ToCFF")
    st = [s for s in ast.walk(cw.node) if isinstance(s, ast.Assign) and isinstance(s.targets[0], ast.Attribute) and s.targets[0].attr in ("defaultWidthX", "nominalWidthX")]
    vals = {s.targets[0].attr: norm(s.value) for s in st}
    un = [s for s in ast.walk(cw.node) if isinstance(s, ast.Assign) and isinstance(s.targets[0], ast.Tuple) and isinstance(s.value, ast.Call) and call_name(s.value) == "optimizeWidths"]
    order = [norm(e) for e in un[0].targets[0].elts] if un else []
    ok = len(order) == 2 and vals.get("defaultWidthX") == order[0] and vals.get("nominalWidthX") == order[1]
    ctx.ob("CFF-width", cw.where, f"optimizeWidths() -> {order}; stored {vals}", ok, "" if ok else "optimizeWidths returns (default, nominal); they are stored crosswise")


ALL.append(width_pair)


# ---------------------------------------------------------------------------
# T2-WIDTH: the optional width sits at the BOTTOM of the stack of the first stack-clearing operator
# ---------------------------------------------------------------------------
WIDTH_OPS = ("endchar", "rmoveto", "hmoveto", "vmoveto", "hstem", "vstem", "hstemhm", "vstemhm", "hintmask", "cntrmask")


def width_bottom(ctx, repo):
    ctx.rule("T2-WIDTH", "a Type 2 handler of a width-bearing operator (endchar, *moveto, *stem*, *mask) that takes the whole stack with popall() -- not the width-aware popallWidth() -- reads its operands from the top of the stack only (negative indices / tail slices): the optional advance width, when present, is the first item, so counting from the front picks the width up as an operand", floor=1)
    n = 0
    for rel in sorted(repo.rels()):
        m = repo.mod(rel)
        for q, c in sorted(m.classes.items()):
            if c.name.startswith("T1") or not repo.is_subclass(c, "SimpleT2Decompiler"):
                continue
            for op in WIDTH_OPS:
                f = c.methods.get("op_" + op)
                if f is None:
                    continue
                for st in walk_no_nested(f.node):
                    if not (isinstance(st, ast.Assign) and isinstance(st.value, ast.Call) and norm(st.value.func) == "self.popall" and isinstance(st.targets[0], ast.Name)):
                        continue
                    a = st.targets[0].id
                    uses = []
                    for x in walk_no_nested(f.node):
                        if isinstance(x, ast.Subscript) and isinstance(x.value, ast.Name) and x.value.id == a and isinstance(x.ctx, ast.Load):
                            sl = x.slice
                            if isinstance(sl, ast.Slice):
                                lo = try_fold(sl.lower) if sl.lower is not None else None
                                tail = isinstance(lo, int) and lo < 0 and sl.upper is None
                                uses.append((norm(x), tail))
                            else:
                                k = try_fold(sl)
                                uses.append((norm(x), isinstance(k, int) and k < 0))
                        elif isinstance(x, ast.Assign) and isinstance(x.targets[0], (ast.Tuple, ast.List)) and isinstance(x.value, ast.Name) and x.value.id == a:
                            uses.append((norm(x), False))  # a, b, c, d = args: counts from the front
                    if not uses:
                        continue
                    n += 1
                    ctx.consult(rel)
                    bad = [u for u, ok in uses if not ok]
                    ctx.ob("T2-WIDTH", f.where, f"{a} = self.popall(): operands read as {[u for u, _ in uses]}", not bad, "" if not bad else f"{bad[0]} counts from the bottom of the stack, where an advance width may sit")
    if n < 1:
        raise AnalysisError("T2-WIDTH: no popall()-based width-bearing handler found (subset/cff.py op_endchar confirmed by hand)")


ALL.append(width_bottom)


# ---------------------------------------------------------------------------
# SUBR-pair: callsubr goes with the local subroutines / bias, callgsubr with the global ones
# ---------------------------------------------------------------------------
def callsubr_pairing(ctx, repo):
    ctx.rule("SUBR-pair", "wherever code chooses between the local and the global subroutine bias / index by the operator name, `callsubr` selects the local* one and `callgsubr` the global* one (a swap resolves every call through the other index: same numbers when both biases are 107, another subroutine otherwise)", floor=1)
    n = 0
    for rel in sorted(repo.rels()):
        if not (rel.startswith("cffLib/") or rel in ("misc/psCharStrings.py", "subset/cff.py", "varLib/cff.py")):
            continue
        m = repo.mod(rel)
        for x in ast.walk(m.tree):
            arms = None
            if isinstance(x, ast.IfExp):
                arms = (x.test, [x.body], [x.orelse])
            elif isinstance(x, ast.If) and x.orelse:
                arms = (x.test, x.body, x.orelse)
            if arms is None:
                continue
            test, a, b = arms
            if not (isinstance(test, ast.Compare) and len(test.ops) == 1 and isinstance(test.ops[0], (ast.Eq, ast.NotEq)) and isinstance(test.comparators[0], ast.Constant) and test.comparators[0].value in ("callsubr", "callgsubr")):
                continue
            local_first = (test.comparators[0].value == "callsubr") == isinstance(test.ops[0], ast.Eq)
            ta = " ".join(norm(s) for s in a)
            tb = " ".join(norm(s) for s in b)

            def kind(t):
                lo, gl = "local" in t.lower(), "global" in t.lower() or "gsubr" in t.lower().replace("callgsubr", "")
                return "local" if lo and not gl else "global" if gl and not lo else None

            ka, kb = kind(ta), kind(tb)
            if ka is None or kb is None:
                continue
            n += 1
            ctx.consult(rel)
            ok = (ka, kb) == (("local", "global") if local_first else ("global", "local"))
            ctx.ob("SUBR-pair", f"{rel}:{x.lineno}", f"`{norm(test)}` selects {ka} / else {kb}", ok, "" if ok else "callsubr is resolved with the global bias / index (and callgsubr with the local one)")
        # handler methods: op_callsubr works on the local index / bias, op_callgsubr on the global one
        for q, f in sorted(m.funcs.items()):
            nm = getattr(f.node, "name", "")
            if nm not in ("op_callsubr", "op_callgsubr"):
                continue
            attrs = {a.attr for a in ast.walk(f.node) if isinstance(a, ast.Attribute) and norm(a.value) == "self"}
            lo = {a for a in attrs if a.lower().startswith("local")}
            gl = {a for a in attrs if a.lower().startswith("global")}
            if not lo and not gl:
                continue
            n += 1
            ctx.consult(rel)
            ok = (bool(lo) and not gl) if nm == "op_callsubr" else (bool(gl) and not lo)
            ctx.ob("SUBR-pair", f.where, f"{nm} uses {sorted(lo | gl)}", ok, "" if ok else "the handler resolves the call through the other subroutine index / bias")
    if n < 1:
        raise AnalysisError("SUBR-pair: no local/global choice keyed on the operator name found (CFFToCFF2._convertCFFToCFF2 confirmed by hand)")


ALL.append(callsubr_pairing)

"""otBase / otConverters / otTables rules: F26 API-CONFORM, F2 CONV-PAIR,
F3 SCHEMA-WF (C01, C02) and the C06 rules (no silent wrap, overflow loop,
F23 SPLIT-CONSERVE, dedup shape)."""

from __future__ import annotations

import ast
import re

from ..core import AnalysisError, norm, calls_in, call_name, last_attr, walk_no_nested, parent, dotted_name
from ..consteval import fold, try_fold, module_env, Unknown
from ..cfg import CFG, guard_conditions
from ..fmt import code_range, code_size
from ..schema import load_schema

OTB = "ttLib/tables/otBase.py"
OTC = "ttLib/tables/otConverters.py"
OTT = "ttLib/tables/otTables.py"

# dynamic attributes documented on writers/readers (plain stores/loads, never calls)
WRITER_FLAGS = {"Extension", "DontShare", "sortCoverageLast", "name", "repeatIndex", "localState", "tableTag", "items", "pos", "parent", "offsetSize", "subWriter"}
READER_ATTRS = {"data", "offset", "pos", "localState", "tableTag"}


def _methods(repo, rel, cls):
    c = repo.mod(rel).cls(cls)
    out = set()
    for k in repo.mro(c):
        out.update(k.methods)
    return out


def f26_api_conform(ctx, repo):
    ctx.rule("F26", "every method called (or bound-method referenced) on an OTTableReader/OTTableWriter parameter is a method of that class", floor=250)
    rmeth = _methods(repo, OTB, "OTTableReader")
    wmeth = _methods(repo, OTB, "OTTableWriter")
    n = 0
    for rel in (OTC, OTT, OTB):
        mod = repo.mod(rel)
        for q, f in mod.funcs.items():
            params = {a.arg for a in f.node.args.args}
            names = {}
            if "reader" in params:
                names["reader"] = "r"
            if "writer" in params:
                names["writer"] = "w"
            # locals derived from them
            for n_ in walk_no_nested(f.node):
                if isinstance(n_, ast.Assign) and isinstance(n_.targets[0], ast.Name) and isinstance(n_.value, ast.Call) and isinstance(n_.value.func, ast.Attribute):
                    base = n_.value.func.value
                    if isinstance(base, ast.Name) and base.id in names:
                        if n_.value.func.attr in ("getSubReader", "copy") and names[base.id] == "r":
                            names[n_.targets[0].id] = "r"
                        if n_.value.func.attr == "getSubWriter":
                            names[n_.targets[0].id] = "w"
            if not names:
                continue
            if f.cls is not None and f.cls.name in ("OTTableReader", "OTTableWriter"):
                continue
            if "xml" in f.node.name.lower():
                continue  # there `writer` is an XMLWriter
            for a in walk_no_nested(f.node):
                if isinstance(a, ast.Attribute) and isinstance(a.value, ast.Name) and a.value.id in names and isinstance(a.ctx, ast.Load):
                    kind = names[a.value.id]
                    is_call = isinstance(parent(a), ast.Call) and parent(a).func is a
                    methodlike = is_call or a.attr.startswith(("read", "write", "get"))
                    if not methodlike:
                        continue
                    universe = rmeth if kind == "r" else wmeth
                    ok = a.attr in universe
                    n += 1
                    ctx.ob("F26", f.where, f"{a.value.id}.{a.attr}", ok, "" if ok else f"{'OTTableReader' if kind == 'r' else 'OTTableWriter'} has no method {a.attr} (AttributeError when this path runs)")
    ctx.info["f26_sites"] = n


# ---------------------------------------------------------------------------
# F2 converter pairs
# ---------------------------------------------------------------------------


def _prim_table(repo):
    """reader/writer primitive -> (typecode, size, is_array) from the method bodies"""
    ob = repo.mod(OTB)
    rd, wr = {}, {}
    rc, wc = ob.cls("OTTableReader"), ob.cls("OTTableWriter")
    for name, f in rc.methods.items():
        if not name.startswith("read"):
            continue
        for c in calls_in(f.node):
            if norm(c.func) in ("self.readValue", "self.readArray") and c.args:
                tc = try_fold(c.args[0])
                size = None
                for k in c.keywords:
                    if k.arg == "staticSize":
                        size = try_fold(k.value)
                if size is None and len(c.args) > 1:
                    size = try_fold(c.args[1])
                rd[name] = (tc, size, norm(c.func).endswith("Array"))
    for name, f in wc.methods.items():
        if not name.startswith("write"):
            continue
        tcs = []
        for c in calls_in(f.node):
            if norm(c.func) == "struct.pack" and c.args:
                fm = try_fold(c.args[0])
                if isinstance(fm, str):
                    tcs.append((fm.lstrip(">"), False))
            elif norm(c.func) == "self.writeArray" and c.args:
                tcs.append((try_fold(c.args[0]), True))
        rng = None
        for n in ast.walk(f.node):
            if isinstance(n, ast.Assert) and isinstance(n.test, ast.Compare) and len(n.test.ops) == 2 and norm(n.test.comparators[0]) == "value":
                lo = try_fold(n.test.left)
                hi = try_fold(n.test.comparators[1])
                if isinstance(n.test.ops[1], ast.Lt) and isinstance(hi, int):
                    hi -= 1
                rng = (lo, hi)
        if len(tcs) == 1:
            wr[name] = (tcs[0][0], code_size(tcs[0][0]) if tcs[0][0] and len(tcs[0][0]) == 1 else None, tcs[0][1], rng)
    return rd, wr


def f2_conv_pair(ctx, repo):
    ctx.rule("F2a", "every converter class in converterMapping resolves non-stub read, write, xmlRead and xmlWrite", floor=150)
    ctx.rule("F2b", "simple converters: the reader primitive in read/readArray and the writer primitive in write/writeArray are the same kind, and staticSize is that primitive's size; fixed-point converters' reader/writer/precision triples are consistent", floor=30)
    ctx.rule("F2d", "OTTableReader.readX and OTTableWriter.writeX use the same struct code, and the writer's asserted range is that code's range", floor=14)
    ctx.rule("F2e", "offset converters: readOffset, writeNullOffset and staticSize agree in width; getData / getDataForHarfbuzz handle exactly the offset sizes converters produce", floor=6)
    ctx.rule("F2f", "bit-layout siblings: VarIdxMapValue / VarDataValue compute their layout names by identical expressions in read and write, and their size-dispatch tables are key-for-key images under read<->write", floor=8)
    oc = repo.mod(OTC)
    rd, wr = _prim_table(repo)
    # (d)
    for rname, (tc, size, arr) in sorted(rd.items()):
        wname = "write" + rname[4:]
        if wname not in wr:
            ctx.ob("F2d", OTB + ":OTTableWriter", f"{rname} has a writer twin {wname}", wname in repo.mod(OTB).cls("OTTableWriter").methods)
            continue
        wtc, wsize, warr, rng = wr[wname]
        ok = tc == wtc and arr == warr
        ctx.ob("F2d", OTB + ":OTTableReader", f"{rname}('{tc}') <-> {wname}('{wtc}')", ok, "" if ok else "struct code differs between reader and writer primitive")
        if rng is not None and not arr:
            ok = rng == code_range(wtc)
            ctx.ob("F2d", OTB + ":OTTableWriter", f"{wname} asserts {rng} == range('{wtc}')", ok, "" if ok else "assert range differs from the struct code's range")
    # UInt24 special: reader unpacks '>l' of pad+3 bytes, writer packs '>L'[1:]
    ob = repo.mod(OTB)
    r24 = norm(ob.func("OTTableReader.readUInt24").node)
    w24 = norm(ob.func("OTTableWriter.writeUInt24").node)
    ok = "struct.unpack('>l', b'\\x00' + self.data[pos:newpos])" in r24 and "newpos = pos + 3" in r24 and "struct.pack('>L', value)" in w24 and "b[1:]" in w24 and "0 <= value < 16777216" in w24
    ctx.ob("F2d", OTB + ":OTTableReader", "readUInt24 (3 bytes, zero-extended) <-> writeUInt24 ('>L'[1:], asserted < 2**24)", ok)
    # (a)
    cm = oc.const("converterMapping")
    classes = {}
    for k, v in zip(cm.keys, cm.values):
        key = try_fold(k)
        names = [n.id for n in ast.walk(v) if isinstance(n, ast.Name) and n.id in oc.classes]
        for nm in names:
            classes.setdefault(nm, []).append(key)
    # classes chosen by buildConverters by field name
    for nm in ("ValueFormat", "ComputedUInt8", "ComputedUShort", "ComputedULong", "SubTable", "ExtSubTable", "SubStruct", "FeatureParams", "StructWithLength", "Struct", "Table"):
        classes.setdefault(nm, []).append("(by field name)")
    # converters whose XML form is produced by the owning table class (toXML2/fromXML overridden there)
    XML_BY_OWNER = {"VarIdxMapValue": ("VarIdxMap", "DeltaSetIndexMap")}
    otm_ = repo.mod(OTT)
    for nm, keys in sorted(classes.items()):
        c = oc.classes.get(nm)
        if c is None:
            raise AnalysisError(f"converter class {nm} not found")
        for m in ("read", "write", "xmlRead", "xmlWrite"):
            f = repo.lookup_method(c, m)
            stub = f is None or _is_stub(f.node)
            if stub and m.startswith("xml") and nm in XML_BY_OWNER:
                owners = XML_BY_OWNER[nm]
                ok = all(o in otm_.classes and "toXML2" in otm_.classes[o].methods and "fromXML" in otm_.classes[o].methods for o in owners)
                ctx.ob("F2a", c.where, f"{nm}.{m}: XML form handled by owners {owners} (toXML2/fromXML)", ok, "" if ok else "neither the converter nor its owning class can write/read this value as XML")
                continue
            ctx.ob("F2a", c.where, f"{nm}.{m} (types {keys[:2]})", not stub, "" if not stub else "converter lacks a working " + m)
    # (b) simple pairs
    for nm, c in sorted(oc.classes.items()):
        if not repo.is_subclass(c, "BaseConverter"):
            continue
        own = c.methods
        rdm, wrm = own.get("read"), own.get("write")
        if rdm and wrm:
            rp = [a.func.attr for a in calls_in(rdm.node) if isinstance(a.func, ast.Attribute) and isinstance(a.func.value, ast.Name) and a.func.value.id == "reader" and a.func.attr.startswith("read")]
            wp = [a.func.attr for a in calls_in(wrm.node) if isinstance(a.func, ast.Attribute) and isinstance(a.func.value, ast.Name) and a.func.value.id == "writer" and a.func.attr.startswith("write")]
            if len(rp) == 1 and len(wp) == 1:
                ok = rp[0][4:] == wp[0][5:]
                ctx.ob("F2b", c.where, f"{nm}: {rp[0]} <-> {wp[0]}", ok, "" if ok else "reader and writer primitives differ in kind (width or signedness)")
                ss = try_fold(c.attrs.get("staticSize")) if "staticSize" in c.attrs else None
                if ss is not None and rp[0] in rd and rd[rp[0]][1] is not None:
                    ok = ss == rd[rp[0]][1]
                    ctx.ob("F2b", c.where, f"{nm}.staticSize={ss} == size of {rp[0]} ({rd[rp[0]][1]})", ok, "" if ok else "staticSize disagrees with the bytes actually read")
                elif ss is not None and rp[0] == "readValue":
                    tc = try_fold(c.attrs.get("typecode")) if "typecode" in c.attrs else None
                    ok = tc is not None and code_size(tc) == ss
                    ctx.ob("F2b", c.where, f"{nm}.staticSize={ss} == size of typecode '{tc}'", ok)
                elif ss is not None and rp[0] in ("readUInt24",):
                    ctx.ob("F2b", c.where, f"{nm}.staticSize={ss} == 3", ss == 3)
                elif ss is not None and rp[0] == "readTag":
                    ctx.ob("F2b", c.where, f"{nm}.staticSize={ss} == 4", ss == 4)
        ra, wa = own.get("readArray"), own.get("writeArray")
        if ra and wa and nm != "BaseConverter":
            rp = [a.func.attr for a in calls_in(ra.node) if isinstance(a.func, ast.Attribute) and isinstance(a.func.value, ast.Name) and a.func.value.id == "reader" and a.func.attr.startswith("read")]
            wp = [a.func.attr for a in calls_in(wa.node) if isinstance(a.func, ast.Attribute) and isinstance(a.func.value, ast.Name) and a.func.value.id == "writer" and a.func.attr.startswith("write")]
            if len(rp) == 1 and len(wp) == 1:
                ok = rp[0][4:] == wp[0][5:]
                ctx.ob("F2b", c.where, f"{nm}: {rp[0]} <-> {wp[0]}", ok, "" if ok else "array reader and writer primitives differ")
        # inherited typecode/staticSize consistency (GlyphID32)
        if "typecode" in c.attrs and "staticSize" in c.attrs:
            tc, ss = try_fold(c.attrs["typecode"]), try_fold(c.attrs["staticSize"])
            ok = isinstance(tc, str) and code_size(tc) == ss and code_range(tc)[0] == 0
            ctx.ob("F2b", c.where, f"{nm}: typecode '{tc}' unsigned with size {ss}", ok)
        if "readerMethod" in c.attrs and try_fold(c.attrs["readerMethod"]) is not NotImplemented and isinstance(try_fold(c.attrs["readerMethod"]), str):
            rm, wm = try_fold(c.attrs["readerMethod"]), try_fold(c.attrs.get("writerMethod"))
            pb, ss = try_fold(c.attrs.get("precisionBits")), try_fold(c.attrs.get("staticSize"))
            ok = isinstance(wm, str) and rm[4:] == wm[5:] and rm in rd and rd[rm][1] == ss and isinstance(pb, int) and 0 < pb < 8 * ss and code_range(rd[rm][0])[0] < 0
            ctx.ob("F2b", c.where, f"{nm}: {rm}/{wm}, staticSize {ss}, precisionBits {pb}", ok, "" if ok else "fixed-point converter triple inconsistent (method kinds, width, signedness or precision)")
    # BaseFixedValue uses the same precisionBits in all four conversions
    bf = oc.cls("BaseFixedValue")
    uses = sorted(norm(c) for m in bf.methods.values() for c in calls_in(m.node) if call_name(c) in ("fi2fl", "fl2fi", "str2fl", "fl2str"))
    ok = uses == ["fi2fl(value, cls.precisionBits)", "fl2fi(value, cls.precisionBits)", "fl2str(value, cls.precisionBits)", "str2fl(value, cls.precisionBits)"]
    ctx.ob("F2b", bf.where, "fromInt/toInt/fromString/toString all use cls.precisionBits: " + "; ".join(uses), ok)
    imp = {k: oc.imports.get(k) for k in ("fi2fl", "fl2fi", "fl2str", "str2fl")}
    want = {"fi2fl": "fontTools.misc.fixedTools.fixedToFloat", "fl2fi": "fontTools.misc.fixedTools.floatToFixed", "fl2str": "fontTools.misc.fixedTools.floatToFixedToStr", "str2fl": "fontTools.misc.fixedTools.strToFixedToFloat"}
    ctx.ob("F2b", oc.rel + ":<module>", f"fixed helpers bound to {imp}", imp == want)
    # (e) offsets
    sizes = set()
    for nm in ("Table", "LTable", "Table24"):
        c = oc.cls(nm)
        ss = try_fold(c.attrs["staticSize"])
        sizes.add(ss)
        ro = [a.func.attr for a in calls_in(c.methods["readOffset"].node) if isinstance(a.func, ast.Attribute)]
        wo = [a.func.attr for a in calls_in(c.methods["writeNullOffset"].node) if isinstance(a.func, ast.Attribute)]
        size_of = {"readUShort": 2, "readULong": 4, "readUInt24": 3}
        ok = len(ro) == 1 and len(wo) == 1 and ro[0][4:] == wo[0][5:] and size_of.get(ro[0]) == ss
        ctx.ob("F2e", c.where, f"{nm}: readOffset={ro} writeNullOffset={wo} staticSize={ss}", ok, "" if ok else "offset width differs between reading, writing null and staticSize")
    tw = oc.func("Table.write")
    from ..core import private_callees as _pc

    ok = any(isinstance(c, ast.Call) and last_attr(c) == "writeSubTable" and any(k.arg == "offsetSize" and norm(k.value) == "self.staticSize" for k in c.keywords) for fx in [tw] + list(_pc(repo, tw, depth=1)) for c in calls_in(fx.node))
    ctx.ob("F2e", tw.where, "writer.writeSubTable(subWriter, offsetSize=self.staticSize)", ok)
    gd = ob.func("OTTableWriter.getData")
    handled = sorted(try_fold(n.comparators[0]) for n in ast.walk(gd.node) if isinstance(n, ast.Compare) and norm(n.left) == "item.offsetSize")
    ok = handled == sorted(sizes)
    ctx.ob("F2e", gd.where, f"getData handles offset sizes {handled} == converter sizes {sorted(sizes)}", ok)
    gh = ob.func("OTTableWriter.getDataForHarfbuzz")
    pf = [n.value for n in ast.walk(gh.node) if isinstance(n, ast.Assign) and norm(n.targets[0]) == "packFuncs"]
    keys = sorted(try_fold(k) for k in pf[0].keys) if pf else []
    ctx.ob("F2e", gh.where, f"getDataForHarfbuzz pack table keys {keys}", keys == sorted(sizes))
    packers = {2: "packUShort", 3: "packUInt24", 4: "packULong"}
    if pf:
        got = {try_fold(k): norm(v) for k, v in zip(pf[0].keys, pf[0].values)}
        ctx.ob("F2e", gh.where, f"pack functions {got}", got == packers)
    # (f) bit-layout siblings
    for cname, names in (("VarIdxMapValue", ("innerBits", "innerMask", "outerShift", "entrySize", "fmt")), ("VarDataValue", ("regionCount", "wordCount", "longWords", "(n1, n2)"))):
        c = oc.cls(cname)
        r_, w_ = c.methods["read"], c.methods["write"]

        def assigns(f):
            out = {}
            for n in walk_no_nested(f.node):
                if isinstance(n, ast.Assign):
                    out.setdefault(norm(n.targets[0]), []).append(norm(n.value))
            return out

        ar, aw = assigns(r_), assigns(w_)
        for nm in names:
            ok = nm in ar and ar.get(nm) == aw.get(nm)
            ctx.ob("F2f", c.where, f"{cname}: `{nm}` computed identically in read and write: {ar.get(nm)}", ok, "" if ok else f"write computes {aw.get(nm)}")
    c = oc.cls("VarIdxMapValue")
    dr = [n for n in ast.walk(c.methods["read"].node) if isinstance(n, ast.Dict)]
    dw = [n for n in ast.walk(c.methods["write"].node) if isinstance(n, ast.Dict)]
    mr = {try_fold(k): norm(v) for k, v in zip(dr[0].keys, dr[0].values)} if dr else {}
    mw = {try_fold(k): norm(v) for k, v in zip(dw[0].keys, dw[0].values)} if dw else {}
    ok = bool(mr) and set(mr) == set(mw) and all(mr[k].replace("reader.read", "") == mw[k].replace("writer.write", "") for k in mr)
    ctx.ob("F2f", c.where, f"entry-size dispatch read {mr} / write {mw}", ok, "" if ok else "size dispatch tables are not images of each other")
    sizes_ok = all(rd.get(v.split(".")[1], (None, None))[1] == k or (k == 3 and "UInt24" in v) for k, v in mr.items())
    ctx.ob("F2f", c.where, "each entry size selects the array primitive of that byte width", sizes_ok)
    # inner/outer mapping expressions are inverse images: read ((raw & outerMask) << outerShift) | (raw & innerMask); write ((idx & 0xFFFF0000) >> outerShift) | (idx & innerMask)
    rexp = [norm(n.elt) for n in ast.walk(c.methods["read"].node) if isinstance(n, ast.ListComp)]
    wexp = [norm(n.elt) for n in ast.walk(c.methods["write"].node) if isinstance(n, ast.ListComp)]
    ok = rexp == ["(raw & outerMask) << outerShift | raw & innerMask"] and wexp == ["(idx & 4294901760) >> outerShift | idx & innerMask"]
    ctx.ob("F2f", c.where, f"pack/unpack expressions read {rexp} write {wexp}", ok, "" if ok else "outer/inner index packing expressions are no longer mirror images")
    c = oc.cls("VarDataValue")
    rsel = sorted(norm(n.value) for n in ast.walk(c.methods["read"].node) if isinstance(n, ast.Assign) and norm(n.targets[0]) == "(readBigArray, readSmallArray)")
    wsel = [n for n in ast.walk(c.methods["write"].node) if isinstance(n, ast.Dict)]
    wmap = {try_fold(k): norm(v) for k, v in zip(wsel[0].keys, wsel[0].values)} if wsel else {}
    ok = rsel == sorted(["(reader.readLongArray, reader.readShortArray)", "(reader.readShortArray, reader.readInt8Array)"]) and wmap == {False: "(writer.writeShortArray, writer.writeInt8Array)", True: "(writer.writeLongArray, writer.writeShortArray)"}
    ctx.ob("F2f", c.where, f"big/small array selection read {rsel} write {wmap}", ok, "" if ok else "long/short word selection differs between read and write")


def _is_stub(fnode):
    body = [s for s in fnode.body if not (isinstance(s, ast.Expr) and isinstance(s.value, ast.Constant))]
    return len(body) == 1 and isinstance(body[0], ast.Raise) and "NotImplementedError" in norm(body[0])


# ---------------------------------------------------------------------------
# F3 schema well-formedness
# ---------------------------------------------------------------------------


# fields whose converter class buildConverters chooses by *name* (checked against its source below)
NAME_DISPATCHED = {"SubTable", "ExtSubTable", "SubStruct", "FeatureParams", "CIDGlyphMapping", "GlyphCIDMapping"}


def f3_schema_wf(ctx, repo):
    ctx.rule("F3", "otData is well-formed: unique table names; every type is a converter, a table name or a template of one; every repeat names an earlier count field (or a propagated one); every aux expression mentions only earlier fields; FormatN variants start with the same Format field", floor=1200)
    ctx.rule("F3k", "hand-written preWrite/postRead/fromXML in otTables use only keys that are fields of their class in the schema", floor=30)
    sc = load_schema(repo)
    oc = repo.mod(OTC)
    ctx.ob("F3", "ttLib/tables/otData.py:otData", f"{len(sc.order)} table names unique", not sc.duplicates, "" if not sc.duplicates else f"duplicate entries {sc.duplicates}")
    bcf = oc.func("buildConverters")
    named = set()
    for n in ast.walk(bcf.node):
        if isinstance(n, ast.Compare) and norm(n.left) == "spec.name":
            v = try_fold(n.comparators[0])
            if isinstance(v, str):
                named.add(v)
            elif isinstance(v, (tuple, list)):
                named.update(x for x in v if isinstance(x, str))
    ok = NAME_DISPATCHED <= named
    ctx.ob("F3", bcf.where, f"name-dispatched fields {sorted(NAME_DISPATCHED)} are dispatched by buildConverters", ok, "" if ok else f"buildConverters dispatches {sorted(named)}")
    # isCount / isPropagated lists from BaseConverter.__init__
    bci = oc.func("BaseConverter.__init__")
    lists = {}
    for n in ast.walk(bci.node):
        if isinstance(n, ast.Assign) and norm(n.targets[0]) in ("self.isCount", "self.isPropagated"):
            for l in ast.walk(n.value):
                if isinstance(l, ast.List):
                    lists[norm(n.targets[0])] = set(try_fold(l) or ())
    count_extra = lists.get("self.isCount", set())
    propagated = lists.get("self.isPropagated", set())
    if not propagated:
        raise AnalysisError("BaseConverter.__init__: isPropagated list not found")
    otm = repo.mod(OTT)
    known_tables = set(sc.tables) | set(sc.by_class) | set(sc.equivalents)
    template_re = re.compile(r"^(\w+)\((\w+)\)$")
    for full in sc.order:
        fields = sc.tables[full]
        seen = []
        for f in fields:
            where = "ttLib/tables/otData.py:otData"
            t = f.type
            m = template_re.match(t)
            if f.name in NAME_DISPATCHED or f.name.startswith("ValueFormat"):
                ok = True  # buildConverters picks the converter from the field name
            elif m:
                ok = m.group(1) in sc.converter_map and (m.group(2) in known_tables or m.group(2) in sc.converter_map or m.group(2) in oc.classes or m.group(2) in otm.classes)
            else:
                ok = t in sc.converter_map or t in known_tables
            ctx.ob("F3", where, f"{full}.{f.name}: type '{t}' resolves", ok, "" if ok else "unknown field type")
            if isinstance(f.repeat, str) and f.repeat:
                ok = f.repeat in seen or f.repeat in propagated
                ctx.ob("F3", where, f"{full}.{f.name}: repeat '{f.repeat}' is an earlier field or a propagated count", ok, "" if ok else "array length refers to a field that is not defined before it")
            if isinstance(f.aux, str) and not f.repeat:
                try:
                    names = {n.id for n in ast.walk(ast.parse(f.aux, mode="eval")) if isinstance(n, ast.Name)}
                except SyntaxError:
                    names = None
                ok = names is not None and names <= set(seen) | propagated | {"len", "max", "min"}
                ctx.ob("F3", where, f"{full}.{f.name}: aux '{f.aux}' mentions only earlier fields", ok, "" if ok else f"aux expression refers to {sorted((names or set()) - set(seen))}")
            elif isinstance(f.aux, str) and f.repeat:
                try:
                    names = {n.id for n in ast.walk(ast.parse(f.aux, mode="eval")) if isinstance(n, ast.Name)}
                    ok = names <= set(seen) | propagated
                except SyntaxError:
                    ok = False
                ctx.ob("F3", where, f"{full}.{f.name}: repeat offset expression '{f.aux}' mentions only earlier fields", ok)
            seen.append(f.name)
    for cname, fmts in sorted(sc.by_class.items()):
        if len(fmts) > 1 or (fmts and fmts[0][1] is not None):
            firsts = {(sc.tables[full][0].name, sc.tables[full][0].type) for full, _ in fmts if sc.tables[full]}
            ok = len(firsts) == 1 and next(iter(firsts))[0].endswith("Format")
            ctx.ob("F3", "ttLib/tables/otData.py:otData", f"{cname}: all formats start with the same format field {sorted(firsts)}", ok)
    for tag, d in sc.lookup_types.items():
        for k, cname in d.items():
            ok = cname in sc.by_class or cname in otm.classes
            ctx.ob("F3", OTT + ":_buildClasses", f"lookupTypes[{tag}][{k}] = {cname} exists", ok)
    for alt, base in sc.equivalents.items():
        ctx.ob("F3", OTT + ":<module>", f"_equivalents {alt} -> {base} exists", base in sc.by_class or base in otm.classes)
    # F3k: rawTable keys in hand-written preWrite/postRead
    for q, c in sorted(otm.classes.items()):
        if q not in sc.by_class:
            continue
        for mname in ("preWrite", "postRead"):
            f = c.methods.get(mname)
            if f is None:
                continue
            names = sc.field_names(q)
            keys = set()
            for n in walk_no_nested(f.node):
                if isinstance(n, ast.Subscript) and norm(n.value) == "rawTable" and isinstance(n.slice, ast.Constant) and isinstance(n.slice.value, str):
                    keys.add(n.slice.value)
                if isinstance(n, ast.Dict) and isinstance(parent(n), ast.Assign) and norm(parent(n).targets[0]) == "rawTable":
                    for k in n.keys:
                        if isinstance(k, ast.Constant):
                            keys.add(k.value)
                if isinstance(n, ast.Call) and norm(n.func) in ("rawTable.get", "rawTable.pop") and n.args and isinstance(n.args[0], ast.Constant):
                    keys.add(n.args[0].value)
            for k in sorted(keys):
                ok = k in names
                ctx.ob("F3k", f.where, f"rawTable['{k}'] is a schema field of {q}", ok, "" if ok else "key is not a field of this table in otData (silently ignored by the compiler / KeyError in postRead)")


# ---------------------------------------------------------------------------
# C06
# ---------------------------------------------------------------------------


def c06_no_wrap(ctx, repo):
    ctx.rule("C06-wrap", "offsets are packed without masking, every offset size has an arm whose failure raises, and range checks that protect truncating packers are real raises (not asserts that vanish under -O)", floor=6)
    ob = repo.mod(OTB)
    for fn in ("packUShort", "packULong", "packUInt24", "packUInt8"):
        f = ob.func(fn)
        masks = [norm(n) for n in ast.walk(f.node) if isinstance(n, ast.BinOp) and isinstance(n.op, (ast.BitAnd, ast.Mod)) and not (isinstance(n.left, ast.Constant) and isinstance(n.left.value, str))]
        ctx.ob("C06-wrap", f.where, f"{fn}: no masking/modulo of the value", not masks, "" if not masks else f"value is wrapped: {masks}")
        ret = [n.value for n in ast.walk(f.node) if isinstance(n, ast.Return)]
        trunc = any(isinstance(r, ast.Subscript) for r in ret)
        if trunc:
            # a truncating packer needs an explicit raise-based range check
            raises = [n for n in ast.walk(f.node) if isinstance(n, ast.Raise)]
            guards = [n for n in ast.walk(f.node) if isinstance(n, ast.If) and any(isinstance(x, ast.Raise) for x in n.body) and "value" in norm(n.test)]
            ok = bool(guards)
            ctx.ob("C06-wrap", f.where, f"{fn} drops bytes of the packed value: range check is an `if ...: raise`", ok, "" if ok else "range check is only an assert: under python -O an out-of-range offset is silently truncated")
    gd = ob.func("OTTableWriter.getData")
    # 2-byte arm converts struct.error to OTLOffsetOverflowError; else arm raises
    trys = [n for n in ast.walk(gd.node) if isinstance(n, ast.Try)]
    ok = any(any("struct.error" in norm(h.type) for h in t.handlers if h.type is not None) and any(isinstance(x, ast.Raise) and "OTLOffsetOverflowError" in norm(x) for h in t.handlers for s in h.body for x in ast.walk(s)) and any("packUShort" in norm(s) for s in t.body) for t in trys)
    ctx.ob("C06-wrap", gd.where, "16-bit offset arm: struct.error -> OTLOffsetOverflowError", ok, "" if ok else "16-bit overflow no longer raises the overflow error the resolver needs")
    els = [n for n in ast.walk(gd.node) if isinstance(n, ast.Raise) and "ValueError(item.offsetSize)" in norm(n)]
    ctx.ob("C06-wrap", gd.where, "unknown offset size raises", bool(els))
    offs = [norm(c.args[0]) for c in calls_in(gd.node) if call_name(c) in ("packULong", "packUShort", "packUInt24")]
    ok = bool(offs) and all(o == "item.subWriter.pos - pos" for o in offs)
    ctx.ob("C06-wrap", gd.where, f"offset expression {sorted(set(offs))}", ok, "" if ok else "offset is transformed before packing")
    cr = ob.func("CountReference.getCountData")
    masks = [norm(n) for n in ast.walk(cr.node) if isinstance(n, ast.BinOp) and isinstance(n.op, (ast.BitAnd, ast.Mod))]
    ctx.ob("C06-wrap", cr.where, "count values are packed unmasked", not masks)


def c06_overflow_loop(ctx, repo):
    ctx.rule("C06-loop", "the overflow handler in BaseTTXConverter.compile retries only after a successful fix-up, otherwise changes state or re-raises; the resolver reports progress only from its fix-up functions; promotion wraps every subtable", floor=6)
    ob = repo.mod(OTB)
    f = ob.func("BaseTTXConverter.compile")
    hs = [h for t in ast.walk(f.node) if isinstance(t, ast.Try) for h in t.handlers if h.type is not None and "OTLOffsetOverflowError" in norm(h.type)]
    if len(hs) != 1:
        ctx.ob("C06-loop", f.where, "except OTLOffsetOverflowError handler present", False, f"{len(hs)} handlers")
        return
    h = hs[0]
    # every path through the handler: resolved -> retry; not resolved -> either leave the harfbuzz state or re-raise.
    # Stated on facts that hold at the statements (robust to `if ok: continue` vs nested negated tests and to renaming):
    from ..cfg import CFG as _CFG, implied_conditions

    gh = _CFG(f.node)
    res = [n for s in h.body for n in ast.walk(s) if isinstance(n, ast.Assign) and isinstance(n.value, ast.Call) and last_attr(n.value) == "tryResolveOverflow" and isinstance(n.targets[0], ast.Name)]
    R = res[0].targets[0].id if res else "ok"
    raises = [n for s in h.body for n in ast.walk(s) if isinstance(n, ast.Raise)]
    states = [n for s in h.body for n in ast.walk(s) if isinstance(n, ast.Assign) and norm(n.targets[0]) == "state"]
    fr = [implied_conditions(gh, r) for r in raises]
    fs = [implied_conditions(gh, s_) for s_ in states]
    conts = [n for s in h.body for n in ast.walk(s) if isinstance(n, ast.Continue)]
    ok = bool(res) and all((R, True) in implied_conditions(gh, c) for c in conts)
    ctx.ob("C06-loop", f.where, f"`continue` only when {R} (the fix-up reported progress)", ok, "" if ok else "overflow is retried without a successful fix (possible endless loop or swallowed error)")
    ok = bool(raises) and bool(states) and all((R, False) in x for x in fr + fs)
    if ok:
        # the re-raise and the state change are the two arms of one test on `state`
        st_r = {(t, p) for x in fr for (t, p) in x if t.startswith("state is")}
        st_s = {(t, p) for x in fs for (t, p) in x if t.startswith("state is")}
        ok = bool(st_r) and bool(st_s) and {t for t, p in st_r} == {t for t, p in st_s} and {p for t, p in st_r} != {p for t, p in st_s}
    ctx.ob("C06-loop", f.where, "unresolved overflow: switch HB_FT -> FT_FALLBACK, otherwise re-raise", ok, "" if ok else "handler can fall through without re-raising")
    rets = [n for s in h.body for n in ast.walk(s) if isinstance(n, ast.Return)]
    ctx.ob("C06-loop", f.where, "handler never returns data", not rets)
    # (the `lastOverflowRecord == e.value` guard in tryResolveOverflow is NOT an obligation: OverflowErrorRecord defines no
    # __eq__, so the comparison is by identity and never true; termination rests on fix-ups reporting progress, below)
    tr = ob.func("BaseTTXConverter.tryResolveOverflow")
    rets_tr = [n for n in ast.walk(tr.node) if isinstance(n, ast.Return)]
    fixers = ("fixLookupOverFlows(font, overflowRecord)", "fixSubTableOverFlows(font, overflowRecord)")
    oks = [norm(n.value) for n in ast.walk(tr.node) if isinstance(n, ast.Assign) and norm(n.targets[0]) == "ok"]
    ok = bool(rets_tr) and all(norm(r.value) == "ok" or norm(r.value) in fixers for r in rets_tr) and bool(oks) and all(v == "0" or v in fixers for v in oks)
    ctx.ob("C06-loop", tr.where, "tryResolveOverflow reports only what the fix-up functions report (ok is 0 or a fix-up's result, every return is ok or a fix-up's result)", ok, "" if ok else "a retry can be requested although nothing was changed: endless loop instead of an error")
    ot = repo.mod(OTT)
    fl = ot.func("fixLookupOverFlows")
    # the promotion block may have been extracted into a private helper: search the closure
    from ..core import private_callees

    fls = [fl] + private_callees(repo, fl)
    ok = False
    ok2 = False
    for fx in fls:
        loops = [n for n in ast.walk(fx.node) if isinstance(n, ast.For) and isinstance(n.iter, ast.Call) and norm(n.iter.func) == "enumerate" and norm(n.iter.args[0]).endswith(".SubTable")]
        for lp in loops:
            idx, sub = [norm(e) for e in lp.target.elts] if isinstance(lp.target, ast.Tuple) and len(lp.target.elts) == 2 else (None, None)
            base = norm(lp.iter.args[0])
            wraps = [x for x in ast.walk(lp) if isinstance(x, ast.Assign) and norm(x.targets[0]) == f"{base}[{idx}]"]
            inner = [x for x in ast.walk(lp) if isinstance(x, ast.Assign) and norm(x.targets[0]).endswith(".ExtSubTable") and norm(x.value) == sub]
            if wraps and inner and norm(wraps[0].value) == norm(inner[0].targets[0]).rsplit(".", 1)[0]:
                ok = True
        if any(isinstance(n, ast.Assign) and norm(n.targets[0]).endswith(".LookupType") and norm(n.value) == "extType" for n in ast.walk(fx.node)):
            ok2 = True
    ctx.ob("C06-loop", fl.where, "promotion wraps every subtable in place: lookup.SubTable[si] = Extension(subTable)", ok, "" if ok else "some subtables of a promoted lookup are not wrapped")
    ctx.ob("C06-loop", fl.where, "promoted lookup gets LookupType = extType", ok2)
    et = sorted((norm(t), try_fold(n.value)) for i in ast.walk(fl.node) if isinstance(i, ast.If) for n in i.body if isinstance(n, ast.Assign) and norm(n.targets[0]) == "extType" for t in [i.test])
    sc = load_schema(repo)
    ok = et == [("overflowRecord.tableType == 'GPOS'", 9), ("overflowRecord.tableType == 'GSUB'", 7)] and sc.lookup_types["GSUB"].get(7) == "ExtensionSubst" and sc.lookup_types["GPOS"].get(9) == "ExtensionPos"
    ctx.ob("C06-loop", fl.where, f"extension types {et} match lookupTypes", ok)


def f23_split_conserve(ctx, repo):
    ctx.rule("F23", "subtable splitters conserve rules: a sequence is divided by X[:n] / X[n:] with the same n; filter pairs are complementary; entries deleted from the old dict are assigned to the new one in the same iteration; counts are recomputed; the registry refers to existing lookup types", floor=30)
    ot = repo.mod(OTT)
    st = ot.const("splitTable")
    sc = load_schema(repo)
    funcs = {}
    for k, v in zip(st.keys, st.values):
        tag = try_fold(k)
        for kk, vv in zip(v.keys, v.values):
            typ = try_fold(kk)
            fn = norm(vv)
            funcs[(tag, typ)] = fn
            ok = typ in sc.lookup_types.get(tag, {}) and fn in ot.funcs and len(ot.funcs[fn].node.args.args) == 3
            ctx.ob("F23", OTT + ":splitTable", f"splitTable[{tag}][{typ}] = {fn}: lookup type exists, function takes (old, new, record)", ok)
            want = "split" + sc.lookup_types.get(tag, {}).get(typ, "?")
            ctx.ob("F23", OTT + ":splitTable", f"splitTable[{tag}][{typ}] is the splitter of {sc.lookup_types.get(tag, {}).get(typ)}", fn == want, "" if fn == want else f"registered {fn}, expected {want}")
    for (tag, typ), fn in sorted(funcs.items()):
        f = ot.funcs[fn]
        # (1) slices
        sl = {}
        for n in ast.walk(f.node):
            if isinstance(n, ast.Subscript) and isinstance(n.slice, ast.Slice) and n.slice.step is None:
                base = norm(n.value)
                lo, hi = n.slice.lower, n.slice.upper
                if lo is None and hi is not None:
                    sl.setdefault(base, {"low": [], "high": []})["low"].append(norm(hi))
                elif lo is not None and hi is None:
                    sl.setdefault(base, {"low": [], "high": []})["high"].append(norm(lo))
        for base, d in sorted(sl.items()):
            ok = len(d["low"]) >= 1 and sorted(d["low"]) == sorted(d["high"])
            ctx.ob("F23", f.where, f"{base}[:n] and {base}[n:] with the same n: low={d['low']} high={d['high']}", ok, "" if ok else "the two halves overlap or leave a gap")
        # who receives which half
        for n in ast.walk(f.node):
            if isinstance(n, ast.Assign) and isinstance(n.value, ast.Subscript) and isinstance(n.value.slice, ast.Slice):
                tgt = norm(n.targets[0])
                lowhalf = n.value.slice.lower is None
                side = "old" if tgt.startswith("old") else "new" if tgt.startswith("new") else None
                if side:
                    ok = (side == "old") == lowhalf
                    ctx.ob("F23", f.where, f"{tgt} = {norm(n.value)}", ok, "" if ok else "old subtable must keep the lower half (it is serialised first)")
        # (2) complementary filters against the split bound
        cmps = []
        for n in ast.walk(f.node):
            if isinstance(n, ast.Compare) and len(n.ops) == 1 and isinstance(n.comparators[0], ast.Name) and n.comparators[0].id in ("oldCount", "oldClassCount") and isinstance(n.ops[0], (ast.Lt, ast.LtE, ast.Gt, ast.GtE)):
                # context: which assignment is it part of
                p = n
                tgt = None
                while p is not None and p is not f.node:
                    if isinstance(p, ast.Assign):
                        tgt = norm(p.targets[0])
                        break
                    if isinstance(p, ast.If) and n in ast.walk(p.test):
                        tgt = "if"
                        break
                    p = parent(p)
                cmps.append((tgt, type(n.ops[0]).__name__, norm(n)))
        for tgt, op, text in cmps:
            if tgt is None:
                continue
            if tgt.startswith("old"):
                ok = op == "Lt"
                ctx.ob("F23", f.where, f"old side keeps `{text}`", ok, "" if ok else "old half must keep exactly the classes below the bound")
            elif tgt.startswith("newGlyphs") or tgt == "if":
                ok = op in ("GtE", "Lt")
                ctx.ob("F23", f.where, f"boundary test `{text}` is the complement of the other half", ok, "" if ok else "the boundary class is dropped from (or duplicated in) one half")
            elif tgt.startswith("new"):
                ok = op in ("Gt", "GtE")
                ctx.ob("F23", f.where, f"new side keeps `{text}` (class 0 after rebasing is implicit)", ok)
        memb = [(norm(n.targets[0]), norm(c.ifs[0])) for n in ast.walk(f.node) if isinstance(n, ast.Assign) and isinstance(n.value, ast.ListComp) for c in n.value.generators if c.ifs]
        olds = [t for tg, t in memb if tg.startswith("old")]
        news = [t for tg, t in memb if tg.startswith("new")]
        for o in olds:
            m = re.match(r"^(\w+) not in (\w+)$", o)
            if m:
                ok = f"{m.group(1)} in {m.group(2)}" in news
                ctx.ob("F23", f.where, f"coverage filter `{o}` has the complementary `{m.group(1)} in {m.group(2)}` on the new side", ok)
        # (3) dict moves
        for loop in [n for n in ast.walk(f.node) if isinstance(n, ast.For) and norm(n.iter) == "range(newLen, oldLen)"]:
            adds = [norm(s.targets[0]) for s in loop.body if isinstance(s, ast.Assign) and norm(s.targets[0]).startswith("newSubTable.")]
            dels = [norm(s.targets[0]) for s in loop.body if isinstance(s, ast.Delete) and norm(s.targets[0]).startswith("oldSubTable.")]
            ok = len(adds) == 1 and len(dels) == 1 and adds[0].replace("newSubTable.", "") == dels[0].replace("oldSubTable.", "") and adds[0].endswith("[key]")
            ctx.ob("F23", f.where, f"move loop: {adds} / del {dels}", ok, "" if ok else "an entry removed from the old subtable is not added to the new one (or vice versa)")
            src = [norm(s.value) for s in loop.body if isinstance(s, ast.Assign) and norm(s.targets[0]) == "item"]
            ok2 = bool(src) and src[0].endswith("[i]")
            ctx.ob("F23", f.where, "moved items are indexed by the loop variable over range(newLen, oldLen)", ok2)
        # (4) counts
        for n in ast.walk(f.node):
            if isinstance(n, ast.Assign) and norm(n.targets[0]).endswith("Count") and norm(n.targets[0]).startswith(("oldSubTable.", "newSubTable.")) and "ClassCount" not in norm(n.targets[0]) and "Class2Count" not in norm(n.targets[0]):
                ok = isinstance(n.value, ast.Call) and call_name(n.value) == "len"
                ctx.ob("F23", f.where, f"{norm(n.targets[0])} = {norm(n.value)}", ok, "" if ok else "count not recomputed from the kept records")
    # splitMarkBasePos class arithmetic
    mb = ot.func("splitMarkBasePos")
    # name-insensitive: K = what oldSubTable.ClassCount is set to, N = what newSubTable.ClassCount is set to (locals inlined):
    # N == classCount - K and the moved mark records are rebased by K
    from ..core import inline_locals as _il

    cc = {norm(n.targets[0]): norm(_il(mb.node, n.value)) for n in walk_no_nested(mb.node) if isinstance(n, ast.Assign) and norm(n.targets[0]) in ("oldSubTable.ClassCount", "newSubTable.ClassCount")}
    K, N = cc.get("oldSubTable.ClassCount"), cc.get("newSubTable.ClassCount")
    rebased = [norm(_il(mb.node, n.value)) for n in walk_no_nested(mb.node) if isinstance(n, ast.AugAssign) and isinstance(n.op, ast.Sub) and isinstance(n.target, ast.Attribute) and n.target.attr == "Class"]
    total = K[: -len(" // 2")] if K is not None and K.endswith(" // 2") else None  # the class count being halved
    ok = total is not None and N is not None and N in (f"{total} - {K}", f"{total} - ({K})") and rebased == [K]
    ctx.ob("F23", mb.where, "mark classes: old keeps [0, oldClassCount), new gets the rest rebased by oldClassCount", ok)
    fs = ot.func("fixSubTableOverFlows")
    ok = any(isinstance(c, ast.Call) and norm(c.func) == "lookup.SubTable.insert" and norm(c.args[0]) == "subIndex + 1" for c in calls_in(fs.node))
    cond = [norm(t) for c in calls_in(fs.node) if norm(c.func) == "lookup.SubTable.insert" for t, pol in guard_conditions(c) if pol]
    ctx.ob("F23", fs.where, f"new subtable inserted right after the split one, only when the split succeeded ({cond})", ok and cond == ["ok"], "" if ok else "insertion index changes rule order")


def c06_dedup(ctx, repo):
    ctx.rule("C06-dedup", "writer de-duplication compares and hashes the same content: OTTableWriter over items, OffsetToWriter over (subWriter, offsetSize)", floor=3)
    ob = repo.mod(OTB)
    ow = ob.cls("OffsetToWriter")
    eq, hs = norm(ow.methods["__eq__"].node), norm(ow.methods["__hash__"].node)
    ok = "self.subWriter == other.subWriter and self.offsetSize == other.offsetSize" in eq and "hash((self.subWriter, self.offsetSize))" in hs
    ctx.ob("C06-dedup", ow.where, "OffsetToWriter eq/hash over (subWriter, offsetSize)", ok, "" if ok else "two offsets of different width (or to different tables) can be merged")
    w = ob.cls("OTTableWriter")
    eq, hs = norm(w.methods["__eq__"].node), norm(w.methods["__hash__"].node)
    ok = "self.items == other.items" in eq and "hash(self.items)" in hs
    ctx.ob("C06-dedup", w.where, "OTTableWriter eq/hash over items", ok)
    ne = norm(w.methods["__ne__"].node)
    ctx.ob("C06-dedup", w.where, "__ne__ is the negation of __eq__", "result if result is NotImplemented else not result" in ne or "not result" in ne)


C06 = [c06_no_wrap, c06_overflow_loop, f23_split_conserve, c06_dedup]


# ---------------------------------------------------------------------------
# COV-fmt2: Coverage format 2 range records
# ---------------------------------------------------------------------------
def _linear(e):
    """expression -> ({atom: coefficient}, constant) for sums/differences of atoms and integer literals; None if not linear"""
    if isinstance(e, ast.Constant) and isinstance(e.value, int) and not isinstance(e.value, bool):
        return {}, e.value
    if isinstance(e, (ast.Name, ast.Attribute, ast.Subscript, ast.Call)):
        return {norm(e): 1}, 0
    if isinstance(e, ast.UnaryOp) and isinstance(e.op, (ast.USub, ast.UAdd)):
        r = _linear(e.operand)
        if r is None:
            return None
        s = -1 if isinstance(e.op, ast.USub) else 1
        return {k: s * v for k, v in r[0].items()}, s * r[1]
    if isinstance(e, ast.BinOp) and isinstance(e.op, (ast.Add, ast.Sub)):
        a, b = _linear(e.left), _linear(e.right)
        if a is None or b is None:
            return None
        s = -1 if isinstance(e.op, ast.Sub) else 1
        d = dict(a[0])
        for k, v in b[0].items():
            d[k] = d.get(k, 0) + s * v
        return {k: v for k, v in d.items() if v}, a[1] + s * b[1]
    return None


def coverage_ranges(ctx, repo):
    ctx.rule("COV-fmt2", "Coverage format 2: StartCoverageIndex of each range is the number of glyphs in the ranges before it (the running index grows by end - start + 1, an inclusive length, after it was stored), records are sorted by their first glyph id, and the reader expands ranges inclusively", floor=4)
    mod = repo.mod("ttLib/tables/otTables.py")
    f = mod.func("Coverage.preWrite")
    loop = next((n for n in ast.walk(f.node) if isinstance(n, ast.For) and "ranges" in norm(n.iter) and isinstance(n.target, ast.Tuple)), None)
    if loop is None:
        raise AnalysisError("Coverage.preWrite: range loop not found")
    names = [norm(x) for x in ast.walk(loop.target) if isinstance(x, ast.Name)]
    # running index
    sci = [st for st in loop.body if isinstance(st, ast.Assign) and norm(st.targets[0]).endswith(".StartCoverageIndex")]
    idx = norm(sci[0].value) if sci else None
    upd = [st for st in loop.body if (isinstance(st, ast.Assign) and norm(st.targets[0]) == idx) or (isinstance(st, ast.AugAssign) and norm(st.target) == idx)]
    ok = False
    detail = "running index update not found"
    if sci and upd:
        u = upd[0]
        lin = _linear(u.value)
        if lin is not None:
            coefs, const = lin
            if isinstance(u, ast.AugAssign) and isinstance(u.op, ast.Add):
                coefs = dict(coefs)
                coefs[idx] = coefs.get(idx, 0) + 1
            start, end = names[-2], names[-1]
            ok = coefs == {idx: 1, end: 1, start: -1} and const == 1 and sci[0].lineno < u.lineno
            detail = "" if ok else f"index grows by {coefs} + {const}; an inclusive range start..end holds end - start + 1 glyphs"
    ctx.ob("COV-fmt2", f.where, f"StartCoverageIndex = {idx}; then {norm(upd[0]) if upd else None}", ok, detail)
    # sort key
    sid = [st for st in loop.body if isinstance(st, ast.Assign) and isinstance(st.targets[0], ast.Attribute) and norm(st.value) == names[-2]]
    attr = sid[0].targets[0].attr if sid else None
    sorts = [c for c in calls_in(f.node) if norm(c.func) == "ranges.sort"]
    ok = bool(sorts) and attr is not None and all(any(k.arg == "key" and isinstance(k.value, ast.Lambda) and isinstance(k.value.body, ast.Attribute) and k.value.body.attr == attr for k in c.keywords) for c in sorts)
    ctx.ob("COV-fmt2", f.where, f"range records sorted by .{attr} (the first glyph id)" if sorts else "range records sorted", ok, "" if ok else "records are not ordered by glyph id: a shaper's binary search misses covered glyphs")
    ok = bool(sorts) and all(any(pol and norm(t) == "brokenOrder" for t, pol in guard_conditions(c)) for c in sorts)
    ctx.ob("COV-fmt2", f.where, "the sort runs when the glyph list is not in glyph-id order", ok)
    # reader: inclusive expansion
    r = mod.func("Coverage.postRead")
    ends = [st for st in ast.walk(r.node) if isinstance(st, ast.Assign) and norm(st.targets[0]) == "endID"]
    ok = bool(ends) and all((_linear(st.value) or ({}, 0))[1] == 1 for st in ends)
    ctx.ob("COV-fmt2", r.where, f"reader expands ranges inclusively: {[norm(st) for st in ends]}", ok)


C06.append(coverage_ranges)

"""C18 (narrow): wiring of fontTools.merge -- unique glyph names, first-writer-wins cmap, name-keyed
unions, schema-driven exhaustiveness of the index<->object mapping handlers, pre/post symmetry."""

from __future__ import annotations

import ast

from ..core import AnalysisError, norm, walk_no_nested, parent, call_name, inline_locals, private_callees
from ..cfg import CFG, guard_conditions
from ..inject import injected_methods
from ..schema import load_schema

LAYOUT = "merge/layout.py"
CMAP = "merge/cmap.py"
TABLES = "merge/tables.py"
INIT = "merge/__init__.py"
UTIL = "merge/util.py"


# ---------------------------------------------------------------------------
# tiny evaluator for the ContextHelper.__init__ idiom (string building under if/elif on the class name / Format)
class _NoEval(Exception):
    pass


def _ev(e, env):
    if isinstance(e, ast.Constant):
        return e.value
    if isinstance(e, ast.Name):
        if e.id in env:
            return env[e.id]
        raise _NoEval(e.id)
    if isinstance(e, ast.Attribute):
        if isinstance(e.value, ast.Name) and e.value.id == "self":
            k = "self." + e.attr
            if k in env:
                return env[k]
            raise _NoEval(k)
        base = _ev(e.value, env)
        if isinstance(base, dict) and e.attr in base:
            return base[e.attr]
        raise _NoEval(norm(e))
    if isinstance(e, ast.BinOp) and isinstance(e.op, ast.Add):
        return _ev(e.left, env) + _ev(e.right, env)
    if isinstance(e, ast.Compare) and len(e.ops) == 1:
        l, r = _ev(e.left, env), _ev(e.comparators[0], env)
        op = e.ops[0]
        if isinstance(op, ast.Eq):
            return l == r
        if isinstance(op, ast.NotEq):
            return l != r
        if isinstance(op, ast.In):
            return l in r
        if isinstance(op, ast.NotIn):
            return l not in r
        raise _NoEval(norm(e))
    if isinstance(e, ast.BoolOp):
        vals = [_ev(v, env) for v in e.values]
        return all(vals) if isinstance(e.op, ast.And) else any(vals)
    if isinstance(e, ast.UnaryOp) and isinstance(e.op, ast.Not):
        return not _ev(e.operand, env)
    if isinstance(e, (ast.List, ast.Tuple)):
        return [_ev(x, env) for x in e.elts]
    if isinstance(e, ast.Call) and isinstance(e.func, ast.Attribute) and e.func.attr in ("endswith", "startswith") and len(e.args) == 1:
        s = _ev(e.func.value, env)
        a = _ev(e.args[0], env)
        if isinstance(s, str) and isinstance(a, str):
            return getattr(s, e.func.attr)(a)
    if isinstance(e, ast.IfExp):
        return _ev(e.body, env) if _ev(e.test, env) else _ev(e.orelse, env)
    if isinstance(e, ast.Lambda):
        return e
    raise _NoEval(norm(e)[:60])


def _run(stmts, env):
    for st in stmts:
        if isinstance(st, ast.Assign):
            try:
                v = _ev(st.value, env)
            except _NoEval:
                v = None  # lambdas etc.: not a name we resolve
            for t in st.targets:
                if isinstance(t, ast.Name):
                    env[t.id] = v
                elif isinstance(t, ast.Attribute) and isinstance(t.value, ast.Name) and t.value.id == "self":
                    env["self." + t.attr] = v
        elif isinstance(st, ast.If):
            try:
                c = _ev(st.test, env)
            except _NoEval as e:
                raise AnalysisError(f"ContextHelper: cannot evaluate condition {norm(st.test)} ({e})")
            _run(st.body if c else st.orelse, env)
        elif isinstance(st, ast.FunctionDef):
            env[st.name] = st
        elif isinstance(st, (ast.Expr, ast.Pass, ast.Assert)):
            continue
        else:
            raise AnalysisError(f"ContextHelper.__init__: unsupported statement {norm(st)[:60]}")


def eval_context_helper(init_fn, klass_name, fmt):
    """Attribute values ContextHelper(klass, Format).__init__ would set (strings only)."""
    a = [x.arg for x in init_fn.args.args]
    if len(a) != 3:
        raise AnalysisError("ContextHelper.__init__ signature changed")
    env = {a[1]: {"__name__": klass_name}, a[2]: fmt}
    _run(init_fn.body, env)
    return {k[5:]: v for k, v in env.items() if k.startswith("self.") and isinstance(v, (str, ast.AST))}


def _attr_order(node, base):
    out = [(x.lineno, x.col_offset, x.attr) for x in ast.walk(node) if isinstance(x, ast.Attribute) and isinstance(x.value, ast.Name) and x.value.id == base]
    return [a for _, _, a in sorted(out)]


def _field(sc, cls, fmt, name):
    for full, f in sc.formats_of(cls):
        if fmt is None or f is None or f == fmt:
            for fld in sc.tables[full]:
                if fld.name == name:
                    return fld
    return None


def context_helper_resolution(ctx, repo, rel, helper_owner, rule, chain_attrs):
    """Check that the names a ContextHelper builds resolve in the schema down to <X>LookupRecord.LookupListIndex."""
    sc = load_schema(repo)
    m = repo.mod(rel)
    init = None
    for q, f in m.funcs.items():
        if q.endswith("ContextHelper.__init__") and helper_owner in q:
            init = f
    if init is None:
        raise AnalysisError(f"{rel}: ContextHelper.__init__ under {helper_owner} not found")
    n = 0
    for klass in ("ContextSubst", "ChainContextSubst", "ContextPos", "ChainContextPos"):
        for fmt in (1, 2, 3):
            h = eval_context_helper(init.node, klass, fmt)
            where = f"{rel}:{init.qual}"
            rec = h.get("LookupRecord")
            if fmt in (1, 2):
                rs, r = h.get("RuleSet"), h.get("Rule")
                f1 = _field(sc, klass, fmt, rs) if rs else None
                c1 = sc.type_target(f1) if f1 else None
                f2 = _field(sc, c1, None, r) if c1 and r else None
                c2 = sc.type_target(f2) if f2 else None
                f3 = _field(sc, c2, None, rec) if c2 and rec else None
                c3 = sc.type_target(f3) if f3 else None
                ok = bool(f1 and f2 and f3 and c3 and _field(sc, c3, None, "LookupListIndex"))
                path = f"{klass}Format{fmt}.{rs} -> {c1}.{r} -> {c2}.{rec} -> {c3}.LookupListIndex"
            else:
                f3 = _field(sc, klass, 3, rec) if rec else None
                c3 = sc.type_target(f3) if f3 else None
                ok = bool(f3 and c3 and _field(sc, c3, None, "LookupListIndex"))
                path = f"{klass}Format3.{rec} -> {c3}.LookupListIndex"
            n += 1
            ctx.ob(rule, where, f"helper names resolve in the schema: {path}", ok, "" if ok else "a name built by string concatenation names no schema field: getattr fails or the nested lookup references of this format are never visited")
            # accessor lambdas / setters (subsetter): attributes they touch on their first parameter
            for attr, level in chain_attrs:
                v = h.get(attr)
                if not isinstance(v, ast.AST):
                    continue
                r0 = v.args.args[0].arg
                used = sorted({x.attr for x in ast.walk(v) if isinstance(x, ast.Attribute) and isinstance(x.value, ast.Name) and x.value.id == r0})
                if level == "rule" and fmt in (1, 2):
                    owner, ofmt = c2, None
                else:
                    owner, ofmt = klass, fmt
                names = sc.field_names(owner, ofmt) if owner else set()
                bad = [u for u in used if u not in names]
                n += 1
                ctx.ob(rule, where, f"{klass} format {fmt}: helper.{attr} touches {used} of {owner}", not bad, "" if not bad else f"{bad} are not fields of {owner}{'Format%d' % ofmt if ofmt else ''}: AttributeError, or the field is never read / written back")
            for getter, setter in (("RuleData", "SetRuleData"), ("ContextData", "SetContextData")):
                gv, sv = h.get(getter), h.get(setter)
                if not (isinstance(gv, ast.Lambda) and isinstance(sv, ast.FunctionDef)):
                    continue
                gorder = _attr_order(gv.body, gv.args.args[0].arg)
                first = sv.body[0]
                sorder = _attr_order(first.targets[0], sv.args.args[0].arg) if isinstance(first, ast.Assign) else []
                ok3 = gorder == sorder and bool(gorder)
                n += 1
                ctx.ob(rule, where, f"{klass} format {fmt}: {setter} stores {sorder} in the order {getter} reads {gorder}", ok3, "" if ok3 else "getter and setter disagree on the order of the sequences: after a round through the helper backtrack / input / lookahead are exchanged")
                if len(sv.body) > 1 and isinstance(sv.body[1], ast.Assign) and len(sorder) == 3:
                    corder = _attr_order(sv.body[1].targets[0], sv.args.args[0].arg)
                    stems = [a.replace("Coverage", "").replace("ClassDef", "") for a in sorder]
                    ok4 = len(corder) == 3 and all(c.startswith(st) for c, st in zip(corder, stems))
                    n += 1
                    ctx.ob(rule, where, f"{klass} format {fmt}: {setter} updates the counts {corder} in the order of {sorder}", ok4, "" if ok4 else "a count field receives the length of another sequence")
            for attr in ("RuleCount", "RuleSetCount"):
                v = h.get(attr)
                if isinstance(v, str) and fmt in (1, 2):
                    owner = c1 if attr == "RuleCount" else klass
                    ok2 = bool(owner and _field(sc, owner, fmt if owner == klass else None, v))
                    n += 1
                    ctx.ob(rule, where, f"{klass} format {fmt}: helper.{attr} = {v} is a field of {owner}", ok2)
    return n


# ---------------------------------------------------------------------------
def map_exhaustive(ctx, repo):
    ctx.rule("MRG-map", "every GSUB/GPOS lookup class has an injected mapLookups; every class owning LookupListIndex / FeatureIndex / ReqFeatureIndex / MarkFilteringSet under ScriptList, FeatureList, LookupList (and every non-record class on the way) has the corresponding map method; the contextual helper's constructed names resolve in the schema", floor=35)
    sc = load_schema(repo)
    m = repo.mod(LAYOUT)
    ctx.consult(LAYOUT, "ttLib/tables/otData.py", "ttLib/tables/otTables.py")
    inj = injected_methods(repo, m)
    where = LAYOUT + ":<module>"
    lookup_classes = set()
    for tag in ("GSUB", "GPOS"):
        for k, cname in sorted(sc.lookup_types[tag].items()):
            lookup_classes.add(cname)
            ok = "mapLookups" in inj.get("ot:" + cname, {})
            ctx.ob("MRG-map", where, f"{tag} lookup type {k} {cname} has mapLookups", ok, "" if ok else "Lookup.mapLookups calls st.mapLookups on every subtable: AttributeError, or (if inherited as a no-op) nested lookup references keep the index they had in their own font")
    # no-op handlers only for classes that cannot reach a LookupListIndex in the schema
    for cid, ms in sorted(inj.items()):
        f = ms.get("mapLookups")
        if f is None or not cid.startswith("ot:"):
            continue
        body = [s for s in f.node.body if not (isinstance(s, ast.Expr) and isinstance(s.value, ast.Constant))]
        if len(body) == 1 and isinstance(body[0], ast.Pass):
            cname = cid[3:]
            reaches = sc.reaches(cname, lambda fld: fld.name == "LookupListIndex")
            ctx.ob("MRG-map", where, f"{cname}.mapLookups is a no-op and {cname} holds no lookup reference in the schema", not reaches, "" if not reaches else "a class with nested lookup references is declared to have none: they are not renumbered")
    # index owners
    method_for = {"LookupListIndex": "mapLookups", "FeatureIndex": "mapFeatures", "ReqFeatureIndex": "mapFeatures", "MarkFilteringSet": "mapMarkFilteringSets"}
    roots = ("ScriptList", "FeatureList", "LookupList")
    seen_need = set()
    for root in roots:
        stack = [(root, (root,))]
        visited = set()
        while stack:
            c, path = stack.pop()
            if c in visited:
                continue
            visited.add(c)
            for fld in sc.fields_of_class(c):
                if fld.name in method_for:
                    meth = method_for[fld.name]
                    for pc in path:
                        if pc.endswith("Record") or pc in lookup_classes and meth != "mapLookups":
                            continue
                        if pc in lookup_classes or _below_lookup(path, pc, lookup_classes):
                            continue  # handled through the lookup-class handler (checked above / by the helper resolution)
                        seen_need.add((pc, meth, fld.name))
                if fld.name in ("SubTable", "ExtSubTable"):
                    for nxt in sorted(lookup_classes):
                        stack.append((nxt, path + (nxt,)))
                    continue
                if fld.name in ("FeatureParams", "LookupOrder"):
                    continue
                tgt = sc.type_target(fld)
                if tgt and tgt in sc.by_class:
                    stack.append((tgt, path + (tgt,)))
    for pc, meth, fname in sorted(seen_need):
        ok = meth in inj.get("ot:" + pc, {})
        ctx.ob("MRG-map", where, f"{pc} is on the path to a {fname} and has {meth}", ok, "" if ok else f"the {fname} values below {pc} are never converted: after merging they point into another font's list")
    n = context_helper_resolution(ctx, repo, LAYOUT, "__merge_classify_context", "MRG-map", ())
    if n != 12:
        raise AnalysisError("ContextHelper evaluation incomplete")


def subset_context_helper(ctx, repo):
    ctx.rule("SUB-ctx", "the names and accessors the subsetter's ContextHelper builds for each contextual class and format (rule sets, rules, counts, lookup records, coverage / class-def / rule-data accessors and setters) are fields of the schema tables they are applied to", floor=60)
    ctx.consult("subset/__init__.py", "ttLib/tables/otData.py")
    acc = (("Coverage", "sub"), ("ContextData", "sub"), ("SetContextData", "sub"), ("RuleData", "rule"), ("SetRuleData", "rule"))
    n = context_helper_resolution(ctx, repo, "subset/__init__.py", "__subset_classify_context", "SUB-ctx", acc)
    if n < 60:
        raise AnalysisError(f"SUB-ctx: only {n} obligations")


def _below_lookup(path, pc, lookup_classes):
    for i, c in enumerate(path):
        if c in lookup_classes:
            return pc in path[i + 1 :]
    return False


from ..consteval import cnorm as _cn, env_of as _envof


def pre_post_symmetry(ctx, repo):
    ctx.rule("MRG-sym", "every (receiver, map method) applied by layoutPreMerge (indices -> objects) is applied by layoutPostMerge in each of its passes, and the last pass of each kind uses NonhashableDict (objects -> indices)", floor=8)
    m = repo.mod(LAYOUT)

    def passes(fname):
        f = m.func(fname)
        cur = {}  # map variable -> ctor text
        out = []  # (mapvar, ctor, receiver, method)
        for st in _linear(f.node.body):
            if isinstance(st, ast.Assign) and isinstance(st.targets[0], ast.Name):
                v = st.value
                cur[st.targets[0].id] = call_name(v) if isinstance(v, ast.Call) else ("comprehension" if isinstance(v, ast.DictComp) else norm(v)[:30])
            for n in ast.walk(st) if isinstance(st, ast.Expr) else ():
                if isinstance(n, ast.Call) and isinstance(n.func, ast.Attribute) and n.func.attr.startswith("map") and len(n.args) == 1 and isinstance(n.args[0], ast.Name):
                    recv = norm(inline_locals(f.node, n.func.value))
                    out.append((n.args[0].id, cur.get(n.args[0].id), recv.rsplit(".", 1)[-1], n.func.attr))
        return f, out

    fpre, pre = passes("layoutPreMerge")
    fpost, post = passes("layoutPostMerge")
    pre_set = {(r, me) for _, _, r, me in pre}
    if len(pre_set) < 4:
        raise AnalysisError(f"layoutPreMerge: only {sorted(pre_set)} mapping calls recognised")
    by_pass = {}
    order = []
    for var, ctor, r, me in post:
        key = (var, ctor)
        if key not in by_pass:
            order.append(key)
        by_pass.setdefault(key, set()).add((r, me))
    for r, me in sorted(pre_set):
        var = next(v for v, _, rr, mm in pre if (rr, mm) == (r, me))
        fin = [k for k in order if k[0] == var and k[1] == "NonhashableDict"]
        ok = bool(fin) and (r, me) in by_pass[fin[-1]]
        ctx.ob("MRG-sym", fpost.where, f"{r}.{me}: objects are mapped back to indices with NonhashableDict", ok, "" if ok else "the references installed by layoutPreMerge are never turned back into indices for this receiver")
        # the final pass of this variable must be the last one for it
        last = [k for k in order if k[0] == var][-1]
        ctx.ob("MRG-sym", fpost.where, f"last {var} pass is the index pass ({last[1]})", last[1] == "NonhashableDict")
    # guard agreement (contradiction rule): a presence test one side makes before dereferencing must be made by the other
    def guards(f, recv, meth):
        out = []
        for n in ast.walk(f.node):
            if isinstance(n, ast.Call) and isinstance(n.func, ast.Attribute) and n.func.attr == meth and norm(inline_locals(f.node, n.func.value)).endswith("." + recv):
                cs = set()
                for t, pol in guard_conditions(n):
                    if not pol:
                        continue
                    for c in (t.values if isinstance(t, ast.BoolOp) and isinstance(t.op, ast.And) else [t]):
                        cs.add(_cn(inline_locals(f.node, c), _envof(f.node)))  # named constants fold to their value
                out.append(cs)
        return out

    for r, me in sorted(pre_set):
        gp = guards(fpre, r, me)
        gq = guards(fpost, r, me)
        need = set.intersection(*gp) if gp else set()
        for cs in gq:
            missing = sorted(need - cs)
            ctx.ob("MRG-sym", fpost.where, f"{r}.{me} is applied under the presence tests pre-merge makes ({sorted(need)})", not missing, "" if not missing else f"post-merge dereferences what pre-merge tests first: missing {missing} (None table -> AttributeError)")
    for key in order:
        var, ctor = key
        want = {(r, me) for v, _, r, me in pre if v == var}
        ok = by_pass[key] == want
        ctx.ob("MRG-sym", fpost.where, f"pass {var} = {ctor}(...) visits {sorted(by_pass[key])}", ok, "" if ok else f"pre-merge maps {sorted(want)} with this kind of map; a pass that skips one leaves its new/used entries uncounted")


def _linear(stmts):
    for st in stmts:
        yield st
        for fld in ("body", "orelse"):
            sub = getattr(st, fld, None)
            if isinstance(sub, list) and not isinstance(st, (ast.FunctionDef, ast.ClassDef)):
                yield from _linear(sub)


def glyph_names(ctx, repo):
    ctx.rule("MRG-names", "merged glyph names are the keys of one dict filled in font order; a clashing name is re-spelt until it is free and written back to the per-font order that Merger.merge installs on the reloaded font; fonts and orders are zipped in argument order; CFF charstrings are renamed with the same list", floor=9)
    m = repo.mod(CMAP)
    ctx.consult(CMAP, INIT)
    f = m.func("computeMegaGlyphOrder")
    fn = f.node
    dicts = [n.targets[0].id for n in walk_no_nested(fn) if isinstance(n, ast.Assign) and isinstance(n.targets[0], ast.Name) and (isinstance(n.value, ast.Dict) and not n.value.keys or isinstance(n.value, ast.Call) and norm(n.value.func) in ("dict", "OrderedDict", "collections.OrderedDict") and not n.value.args and not n.value.keywords)]
    final = [n for n in walk_no_nested(fn) if isinstance(n, ast.Assign) and any(norm(t).endswith(".glyphOrder") for t in n.targets)]
    D = None
    if len(final) == 1:
        v = final[0].value
        if isinstance(v, ast.Call) and norm(v.func) == "list" and v.args:
            a = v.args[0]
            if isinstance(a, ast.Call) and isinstance(a.func, ast.Attribute) and a.func.attr == "keys":
                a = a.func.value
            if isinstance(a, ast.Name) and a.id in dicts:
                D = a.id
    ctx.ob("MRG-names", f.where, f"merger.glyphOrder = list(<dict {D}> keys): unique by construction", D is not None, "" if D else "the merged order is no longer the key list of a dict: duplicates are possible")
    if D is None:
        return
    outer = [n for n in fn.body if isinstance(n, ast.For)]
    ok = len(outer) == 1 and isinstance(outer[0].iter, ast.Name) and outer[0].iter.id == fn.args.args[1].arg
    ctx.ob("MRG-names", f.where, "fonts are visited in argument order (plain for over the orders list)", ok)
    if not ok:
        return
    inner = [n for n in outer[0].body if isinstance(n, ast.For)]
    ok = len(inner) == 1 and isinstance(inner[0].iter, ast.Call) and norm(inner[0].iter.func) == "enumerate" and norm(inner[0].iter.args[0]) == norm(outer[0].target)
    ctx.ob("MRG-names", f.where, "glyphs of a font are visited with enumerate(<its order>)", ok)
    if not ok:
        return
    idx, gname = [norm(e) for e in inner[0].target.elts]
    perfont = norm(outer[0].target)
    stores = [n for n in walk_no_nested(fn) if isinstance(n, ast.Assign) and isinstance(n.targets[0], ast.Subscript) and norm(n.targets[0].value) == D]
    ok = bool(stores) and all(_inside(s, inner[0]) for s in stores)
    ctx.ob("MRG-names", f.where, f"every insertion into {D} happens inside the per-glyph loop", ok)
    last = inner[0].body[-1]
    ok = isinstance(last, ast.Assign) and isinstance(last.targets[0], ast.Subscript) and norm(last.targets[0].value) == D and norm(last.targets[0].slice) == gname
    ctx.ob("MRG-names", f.where, f"every glyph's final name is inserted unconditionally ({norm(last)})", ok, "" if ok else "a glyph can be left out of the merged order")
    clash = [n for n in inner[0].body if isinstance(n, ast.If) and norm(n.test) == f"{gname} in {D}"]
    ok = len(clash) == 1
    ctx.ob("MRG-names", f.where, f"a name already taken is detected (`{gname} in {D}`)", ok)
    if ok:
        br = clash[0]
        wl = [n for n in ast.walk(br) if isinstance(n, ast.While)]
        Dn, Gn = D, gname
        if not wl:
            # the search loop may have been extracted into a module helper that receives the dict and the name
            for c in [x for x in ast.walk(br) if isinstance(x, ast.Call) and isinstance(x.func, ast.Name) and x.func.id in m.funcs]:
                h = m.funcs[c.func.id]
                ps = [a.arg for a in h.node.args.args]
                bind = {norm(a): ps[i] for i, a in enumerate(c.args) if i < len(ps)}
                if D in bind and gname in bind:
                    wl = [n for n in ast.walk(h.node) if isinstance(n, ast.While)]
                    Dn, Gn = bind[D], bind[gname]
                    break
        ok = len(wl) == 1 and isinstance(wl[0].test, ast.Compare) and isinstance(wl[0].test.ops[0], ast.In) and norm(wl[0].test.comparators[0]) == Dn and Gn in norm(wl[0].test.left)
        ctx.ob("MRG-names", f.where, f"the new spelling is searched until free (`while {norm(wl[0].test) if wl else '?'}`)", ok, "" if ok else "the re-spelt name is not checked against the names already taken")
        wb = [n for n in br.body if isinstance(n, ast.Assign) and isinstance(n.targets[0], ast.Subscript) and norm(n.targets[0].value) == perfont and norm(n.targets[0].slice) == idx and norm(n.value) == gname]
        g = CFG(fn)
        reb = [n for n in br.body if isinstance(n, ast.AugAssign) and norm(n.target) == gname or isinstance(n, ast.Assign) and norm(n.targets[0]) == gname]
        ok = len(wb) == 1 and bool(reb) and all(g.dominates(g.id_of(r), g.id_of(wb[0])) for r in reb)
        ctx.ob("MRG-names", f.where, f"the re-spelt name is written back: {perfont}[{idx}] = {gname} after the re-spelling", ok, "" if ok else "the font keeps its old glyph name: its glyph aliases the earlier font's glyph of that name")
    # Merger.merge
    mi = repo.mod(INIT)
    mf = mi.func("Merger.merge")
    g = CFG(mf.node)
    calls = {call_name(n): n for n in ast.walk(mf.node) if isinstance(n, ast.Call) and call_name(n) in ("computeMegaGlyphOrder", "computeMegaCmap", "renameCFFCharStrings")}
    orders = [n for n in walk_no_nested(mf.node) if isinstance(n, ast.Assign) and norm(n.targets[0]) == "glyphOrders"]
    ok = len(orders) == 1 and isinstance(orders[0].value, ast.ListComp) and norm(orders[0].value.generators[0].iter) == "fonts" and not orders[0].value.generators[0].ifs
    ctx.ob("MRG-names", mf.where, "glyphOrders is built from the fonts in argument order, one per font", ok)
    zl = [n for n in walk_no_nested(mf.node) if isinstance(n, ast.For) and norm(n.iter) == "zip(fonts, glyphOrders)"]
    ok = len(zl) == 1 and any(isinstance(c, ast.Call) and norm(c.func).endswith(".setGlyphOrder") and norm(c.args[0]) == norm(zl[0].target.elts[1]) for c in ast.walk(zl[0]))
    ctx.ob("MRG-names", mf.where, "each reloaded font gets its renamed order: for font, glyphOrder in zip(fonts, glyphOrders): font.setGlyphOrder(glyphOrder)", ok, "" if ok else "renamed orders are not installed (or installed on the wrong font)")
    if zl and "computeMegaGlyphOrder" in calls:
        ok = g.dominates(g.id_of(calls["computeMegaGlyphOrder"]), g.id_of(zl[0]))
        ctx.ob("MRG-names", mf.where, "names are settled before they are installed", ok)
        rc = calls.get("renameCFFCharStrings")
        ok = rc is not None and _inside(rc, zl[0]) and norm(rc.args[1]) == norm(zl[0].target.elts[1]) and any('"CFF " in' in norm(t) or "'CFF ' in" in norm(t) for t, pol in guard_conditions(rc) if pol)
        ctx.ob("MRG-names", mf.where, "CFF charstrings are renamed with the same per-font order", ok)
    opens = [n for n in ast.walk(mf.node) if isinstance(n, ast.Call) and norm(n.func) == "self._openFonts"]
    ok = len(opens) == 2 and len({norm(o.args[0]) for o in opens}) == 1
    ctx.ob("MRG-names", mf.where, "both loads open the same file list in the same order", ok)
    ok = any(isinstance(n, ast.Call) and norm(n.func) == "mega.setGlyphOrder" and norm(n.args[0]) == "self.glyphOrder" for n in ast.walk(mf.node))
    ctx.ob("MRG-names", mf.where, "the merged font uses merger.glyphOrder", ok)


def _inside(n, anc):
    p = n
    while p is not None:
        if p is anc:
            return True
        p = parent(p)
    return False


def cmap_first_wins(ctx, repo):
    ctx.rule("MRG-cmap", "the merged character map is filled first-writer-wins in font order: the only store is under `oldgid is None`; subtables are chosen while enumerating the fonts in order; cmap.merge builds its subtables from merger.cmap", floor=6)
    m = repo.mod(CMAP)
    f = m.func("computeMegaCmap")
    fn = f.node
    cm = [n for n in walk_no_nested(fn) if isinstance(n, ast.Assign) and any(norm(t) == "merger.cmap" for t in n.targets)]
    ok = len(cm) == 1 and isinstance(cm[0].value, ast.Dict)
    name = next((norm(t) for t in cm[0].targets if isinstance(t, ast.Name)), None) if cm else None
    ctx.ob("MRG-cmap", f.where, f"merger.cmap is a fresh dict (alias {name})", ok and name is not None)
    if not (ok and name):
        return
    stores = [n for n in walk_no_nested(fn) if isinstance(n, ast.Assign) and isinstance(n.targets[0], ast.Subscript) and norm(n.targets[0].value) in (name, "merger.cmap")]
    upd = [n for n in ast.walk(fn) if isinstance(n, ast.Call) and isinstance(n.func, ast.Attribute) and n.func.attr in ("update", "setdefault", "pop") and norm(n.func.value) in (name, "merger.cmap")]
    ok = len(stores) == 1 and not upd
    ctx.ob("MRG-cmap", f.where, "exactly one store into the merged map", ok, "" if ok else "another write can override the first font's mapping")
    if stores:
        st = stores[0]
        key = norm(st.targets[0].slice)
        old = [n for n in walk_no_nested(fn) if isinstance(n, ast.Assign) and isinstance(n.value, ast.Call) and norm(n.value.func) == f"{name}.get" and norm(n.value.args[0]) == key and (len(n.value.args) == 1 or norm(n.value.args[1]) == "None")]
        ov = norm(old[0].targets[0]) if old else None
        conds = [(norm(t), pol) for t, pol in guard_conditions(st)]
        ok = ov is not None and (f"{ov} is None", True) in conds
        ctx.ob("MRG-cmap", f.where, f"the store {norm(st)} is guarded by `{ov} is None` with {ov} = {name}.get({key})", ok, "" if ok else "a later font can replace the glyph an earlier font mapped the character to")
    # the selection loop may live in a private helper (extract function): look at the function that appends
    cands = [f] + private_callees(repo, f)
    app, loops = [], []
    for h in cands:
        a = [n for n in ast.walk(h.node) if isinstance(n, ast.Call) and isinstance(n.func, ast.Attribute) and n.func.attr == "append" and norm(n.func.value).lower().startswith("chosencmap")]
        if a:
            params = [x.arg for x in h.node.args.args]
            app = a
            loops = [n for n in walk_no_nested(h.node) if isinstance(n, ast.For) and isinstance(n.iter, ast.Call) and norm(n.iter.func) == "enumerate" and norm(n.iter.args[0]) in params]
            break
    ok = bool(app) and len(loops) == 1 and all(_inside(a, loops[0]) for a in app)
    ctx.ob("MRG-cmap", f.where, "subtables are chosen while enumerating the fonts' cmap tables in argument order", ok)
    use = [n for n in walk_no_nested(fn) if isinstance(n, ast.For) and "chosenCmapTables" in norm(n.iter)]
    ok = len(use) == 1 and norm(use[0].iter) == "chosenCmapTables"
    ctx.ob("MRG-cmap", f.where, "chosen subtables are consumed in that order (no sort / reverse)", ok, "" if ok else "font priority is no longer the argument order")
    mt = repo.mod(TABLES)
    cmf = None
    for q, fx in mt.funcs.items():
        if fx.node.name == "merge" and any('getTableClass("cmap")' in norm(d) or "getTableClass('cmap')" in norm(d) for d in fx.node.decorator_list):
            cmf = fx
    if cmf is None:
        raise AnalysisError("merge/tables.py: cmap merge method not found")
    src = [n for n in walk_no_nested(cmf.node) if isinstance(n, ast.Assign) and norm(n.targets[0]) == "cmap"]
    ok = len(src) == 1 and norm(src[0].value) == "m.cmap"
    outs = [n for n in walk_no_nested(cmf.node) if isinstance(n, ast.Assign) and norm(n.targets[0]) == "cmapTable.cmap"]
    ok = ok and len(outs) == 2 and all(norm(o.value) in ("cmap", "cmapBmpOnly") for o in outs)
    ctx.ob("MRG-cmap", cmf.where, "the format 4 / 12 subtables are built from merger.cmap", ok)


def unions(ctx, repo):
    ctx.rule("MRG-union", "per-glyph tables merge as name-keyed unions (glyf.glyphs, hmtx.metrics, vmtx.metrics -> sumDicts; glyf.glyphOrder -> sumLists; maxp.numGlyphs -> sum) and sumDicts / sumLists are the update / extend folds over all inputs", floor=7)
    mt = repo.mod(TABLES)
    ctx.consult(TABLES, UTIL)
    maps = {}
    for st in mt.tree.body:
        if isinstance(st, ast.Assign) and isinstance(st.value, ast.Dict):
            for t in st.targets:
                if isinstance(t, ast.Attribute) and t.attr == "mergeMap" and isinstance(t.value, ast.Call) and t.value.args and isinstance(t.value.args[0], ast.Constant):
                    maps[t.value.args[0].value] = {k.value: norm(v) for k, v in zip(st.value.keys, st.value.values) if isinstance(k, ast.Constant)}
    want = [("glyf", "glyphs", "sumDicts"), ("glyf", "glyphOrder", "sumLists"), ("hmtx", "metrics", "sumDicts"), ("vmtx", "metrics", "sumDicts"), ("maxp", "numGlyphs", "sum")]
    for tag, key, pol in want:
        got = maps.get(tag, {}).get(key)
        ok = got == pol
        ctx.ob("MRG-union", TABLES + ":<module>", f"{tag}.mergeMap[{key!r}] = {got}", ok, "" if ok else f"with {got} instead of {pol} the glyphs/metrics of all fonts but one are lost or mis-counted")
    mu = repo.mod(UTIL)
    for fname, meth in (("sumDicts", "update"), ("sumLists", "extend")):
        f = mu.func(fname)
        p = f.node.args.args[0].arg
        loops = [n for n in f.node.body if isinstance(n, ast.For) and norm(n.iter) == p]
        ret = [n for n in f.node.body if isinstance(n, ast.Return)]
        ok = len(loops) == 1 and len(ret) == 1 and isinstance(ret[0].value, ast.Name)
        if ok:
            acc = ret[0].value.id
            item = norm(loops[0].target)
            body = loops[0].body
            ok = len(body) == 1 and isinstance(body[0], ast.Expr) and isinstance(body[0].value, ast.Call) and norm(body[0].value.func) == f"{acc}.{meth}" and norm(body[0].value.args[0]) == item
        ctx.ob("MRG-union", f.where, f"{fname} folds every input with .{meth}", ok, "" if ok else "an input's entries are dropped or the fold stops early")


def langsys_fallback(ctx, repo):
    ctx.rule("MRG-lang", "mergeScripts: for every language tag of the merged script each input script contributes its effective language system -- its explicit LangSysRecord, else its DefaultLangSys (what a shaper falls back to); folding only explicit records drops the other inputs' features for that language", floor=1)
    m = repo.mod(LAYOUT)
    f = m.func("mergeScripts")
    coll = None
    for n in ast.walk(f.node):
        if isinstance(n, ast.Call) and isinstance(n.func, ast.Attribute) and n.func.attr == "append" and n.args and norm(n.args[0]).endswith(".LangSys"):
            recv = n.func.value
            if isinstance(recv, ast.Subscript):
                coll = norm(recv.value)
            elif isinstance(recv, ast.Call) and isinstance(recv.func, ast.Attribute) and recv.func.attr == "setdefault":
                coll = norm(recv.func.value)
    if coll is None:
        raise AnalysisError("mergeScripts: collection of explicit LangSys records not found")
    fb = False
    for n in ast.walk(f.node):
        if isinstance(n, ast.Call) and isinstance(n.func, ast.Attribute) and n.func.attr in ("append", "extend", "setdefault", "insert"):
            tgt = norm(n.func.value)
            if tgt.startswith(coll) and any("DefaultLangSys" in norm(a) for a in ast.walk(n) if isinstance(a, ast.Attribute)):
                fb = True
        if isinstance(n, ast.Call) and isinstance(n.func, ast.Attribute) and n.func.attr == "get" and len(n.args) == 2 and "DefaultLangSys" in norm(n.args[1]):
            fb = True
    ctx.ob("MRG-lang", f.where, f"{coll}[tag] also receives the DefaultLangSys of inputs that do not declare the tag", fb, "" if fb else "an input that relies on the default language system loses its features under a language tag another input declares")


ALL = [langsys_fallback, map_exhaustive, pre_post_symmetry, glyph_names, cmap_first_wins, unions]

"""Generic lints added in the third build session (after seed round 4).  Each has an expected count of
zero on a healthy tree and carries a built-in positive example the detector must report on every run.

FIRST-ONLY     `if k not in d: d[k] = []` whose append sits inside the if: only the first item per key is kept
NONE-SENT      an accumulator initialised to None and later combined in place (set algebra / arithmetic) is
               (re)initialised under a truthiness test: an empty / zero accumulator is mistaken for 'unset'
ACC-RESET      `v = <non-trivial prefix>` followed by an if whose one arm extends v (`v += ...`) and whose
               other arm overwrites it (`v = <expr without v>`): the prefix is lost on that arm
PRESENCE-KIND  one class tests the presence of the same attribute with hasattr(self, "a") in one place and
               with the truthiness of getattr(self, "a", None) in another: empty-but-present differs
NUM-FMT        `if x:` guarding the serialisation of x through a number formatter: 0 is a value
"""

from __future__ import annotations

import ast

from ..core import norm, parent, walk_no_nested, calls_in
from . import consistency
from .consistency import _selfcheck, _POSITIVE, GENERIC

_POSITIVE["FIRST-ONLY"] = '''
def collect(records):
    by_tag = {}
    for r in records:
        if r.tag not in by_tag:
            by_tag[r.tag] = []
            by_tag[r.tag].append(r.value)
    return by_tag
'''
_POSITIVE["NONE-SENT"] = '''
def common(sets):
    acc = None
    for s in sets:
        if not acc:
            acc = set(s)
        else:
            acc.intersection_update(s)
    return acc
'''
_POSITIVE["ACC-RESET"] = '''
def show(self):
    res = "enum " if self.enumerated else ""
    if self.second:
        res = "pos {} {}".format(self.a, self.b)
    else:
        res += "pos {}".format(self.a)
    return res
'''
_POSITIVE["PRESENCE-KIND"] = '''
class G:
    def compile(self):
        have = hasattr(self, "program")
        return have
    def toXML(self, writer):
        have = bool(getattr(self, "program", None))
        return have
'''
_POSITIVE["NUM-FMT"] = '''
def write(label, el):
    if label.linkedUserValue:
        el.attrib["linkeduservalue"] = intOrFloat(label.linkedUserValue)
'''

MUT = ("append", "add", "extend", "update", "insert")


def _in_scope(rel, scope):
    return rel.startswith(tuple(scope))


def _mutations(stmts, target):
    out = []
    for st in stmts:
        for n in ast.walk(st):
            if isinstance(n, ast.Call) and isinstance(n.func, ast.Attribute) and n.func.attr in MUT and norm(n.func.value) == target:
                out.append(n)
            if isinstance(n, (ast.Assign, ast.AugAssign)):
                for t in n.targets if isinstance(n, ast.Assign) else [n.target]:
                    if isinstance(t, ast.Subscript) and norm(t.value) == target:
                        out.append(n)
                    if isinstance(n, ast.AugAssign) and norm(t) == target:
                        out.append(n)
    return out


def _empty_container(v):
    if isinstance(v, (ast.List, ast.Set)) and not v.elts or isinstance(v, ast.Dict) and not v.keys:
        return True
    return isinstance(v, ast.Call) and norm(v.func) in ("set", "list", "dict", "OrderedDict", "collections.OrderedDict") and not v.args and not v.keywords


def first_only(ctx, repo, scope=("",), rule="FIRST-ONLY", _self=False):
    ctx.rule(rule, "the create-on-first-use idiom `if k not in d: d[k] = []` is followed by the insertion for every item; an insertion that sits only inside the `if` keeps just the first item per key", floor=1)
    if not _self:
        _selfcheck(ctx, rule, first_only)
    for rel in sorted(repo.rels()):
        if not _in_scope(rel, scope):
            continue
        m = repo.mod(rel)
        total = 0
        bad = []
        for n in ast.walk(m.tree):
            if not (isinstance(n, ast.If) and isinstance(n.test, ast.Compare) and len(n.test.ops) == 1 and isinstance(n.test.ops[0], ast.NotIn) and not n.orelse):
                continue
            tgt = f"{norm(n.test.comparators[0])}[{norm(n.test.left)}]"
            if not any(isinstance(s, ast.Assign) and norm(s.targets[0]) == tgt and _empty_container(s.value) for s in n.body):
                continue
            total += 1
            inside = _mutations(n.body, tgt)
            p = parent(n)
            after = []
            for fld in ("body", "orelse", "finalbody"):
                blk = getattr(p, fld, None)
                if isinstance(blk, list) and any(x is n for x in blk):
                    i = next(k for k, x in enumerate(blk) if x is n)
                    after = blk[i + 1 :]
            if inside and not _mutations(after, tgt):
                bad.append(f"{tgt} (line of `if {norm(n.test)}`)")
        if total:
            ctx.ob(rule, f"{rel}:<module>", f"{total} create-on-first-use sites insert for every item", not bad, "" if not bad else "insertion only under the `not in` test: " + "; ".join(bad))


SET_OPS = ("intersection_update", "difference_update", "update", "intersection", "difference", "add", "discard", "append", "extend")


def none_sentinel(ctx, repo, scope=("",), rule="NONE-SENT", _self=False):
    ctx.rule(rule, "an accumulator that starts as None and is later combined in place (set algebra, list growth, arithmetic) is initialised under `is None`, never under a truthiness test: an empty set / zero is a legitimate accumulated value, not 'unset'", floor=1)
    if not _self:
        _selfcheck(ctx, rule, none_sentinel)
    for rel in sorted(repo.rels()):
        if not _in_scope(rel, scope):
            continue
        m = repo.mod(rel)
        total = 0
        bad = []
        for q, f in sorted(m.funcs.items()):
            fn = f.node
            none_init = {n.targets[0].id for n in walk_no_nested(fn) if isinstance(n, ast.Assign) and len(n.targets) == 1 and isinstance(n.targets[0], ast.Name) and isinstance(n.value, ast.Constant) and n.value.value is None}
            for x in sorted(none_init):
                acc = False
                for n in walk_no_nested(fn):
                    if isinstance(n, ast.Call) and isinstance(n.func, ast.Attribute) and isinstance(n.func.value, ast.Name) and n.func.value.id == x and n.func.attr in SET_OPS:
                        acc = True
                    if isinstance(n, ast.AugAssign) and isinstance(n.target, ast.Name) and n.target.id == x:
                        acc = True
                if not acc:
                    continue
                total += 1
                for n in walk_no_nested(fn):
                    if not isinstance(n, ast.If):
                        continue
                    ts = n.test.values if isinstance(n.test, ast.BoolOp) else [n.test]
                    hit = False
                    for u in ts:
                        if isinstance(u, ast.UnaryOp) and isinstance(u.op, ast.Not):
                            u = u.operand
                        if isinstance(u, ast.Name) and u.id == x:
                            hit = True
                    if hit and any(isinstance(s, ast.Assign) and any(norm(t) == x for t in s.targets) for s in n.body + n.orelse):
                        bad.append(f"{q}: `if {norm(n.test)}` (re)initialises {x}")
        if total:
            ctx.ob(rule, f"{rel}:<module>", f"{total} None-initialised accumulators are initialised under `is None`", not bad, "" if not bad else "; ".join(bad))


def _loads(n):
    return {x.id for x in ast.walk(n) if isinstance(x, ast.Name) and isinstance(x.ctx, ast.Load)}


def _trivial(v):
    return isinstance(v, ast.Constant) or isinstance(v, (ast.List, ast.Tuple, ast.Set)) and not v.elts or isinstance(v, ast.Dict) and not v.keys


def _blocks(node):
    for fld in ("body", "orelse", "finalbody"):
        b = getattr(node, fld, None)
        if isinstance(b, list) and b and isinstance(b[0], ast.stmt):
            yield b
            for s in b:
                if not isinstance(s, (ast.FunctionDef, ast.AsyncFunctionDef, ast.ClassDef)):
                    yield from _blocks(s)
    for h in getattr(node, "handlers", []) or []:
        yield from _blocks(h)


def acc_reset(ctx, repo, scope=("",), rule="ACC-RESET", _self=False):
    ctx.rule(rule, "a variable given a non-trivial initial value and then handled by an if whose one arm extends it (`v += ...`) is not overwritten (`v = <expr without v>`) as the first thing in the other arm: there the initial part is silently lost", floor=1)
    if not _self:
        _selfcheck(ctx, rule, acc_reset)
    for rel in sorted(repo.rels()):
        if not _in_scope(rel, scope):
            continue
        m = repo.mod(rel)
        total = 0
        bad = []
        for q, f in sorted(m.funcs.items()):
            for blk in _blocks(f.node):
                for i, st in enumerate(blk[:-1]):
                    if not (isinstance(st, ast.Assign) and len(st.targets) == 1 and isinstance(st.targets[0], ast.Name) and not _trivial(st.value)):
                        continue
                    v = st.targets[0].id
                    nxt = blk[i + 1]
                    if not isinstance(nxt, ast.If) or v in _loads(nxt.test) or not nxt.orelse:
                        continue

                    def first_touch(stmts):
                        for s in stmts:
                            if isinstance(s, ast.AugAssign) and isinstance(s.target, ast.Name) and s.target.id == v:
                                return "aug"
                            if isinstance(s, ast.Assign) and any(isinstance(t, ast.Name) and t.id == v for t in s.targets):
                                return "read" if v in _loads(s.value) else "kill"
                            if v in _loads(s):
                                return "read"
                        return None

                    a, b = first_touch(nxt.body), first_touch(nxt.orelse)
                    total += 1
                    if "kill" in (a, b) and "aug" in (a, b):
                        bad.append(f"{q}: `{norm(st)[:50]}` is extended in one arm of `if {norm(nxt.test)[:40]}` and overwritten in the other")
        if total:
            ctx.ob(rule, f"{rel}:<module>", f"{total} initialise-then-branch sites keep the initial value on both arms", not bad, "" if not bad else "; ".join(bad))


def presence_kind(ctx, repo, scope=("",), rule="PRESENCE-KIND", _self=False):
    ctx.rule(rule, "within one class the presence of an optional attribute is decided one way: hasattr(self, 'a') and the truthiness of getattr(self, 'a', None) disagree when the attribute is present but empty (an empty program, 0, '')", floor=1)
    if not _self:
        _selfcheck(ctx, rule, presence_kind)
    for rel in sorted(repo.rels()):
        if not _in_scope(rel, scope):
            continue
        m = repo.mod(rel)
        total = 0
        bad = []
        for q, c in sorted(m.classes.items()):
            has = set()
            get = set()
            for n in ast.walk(c.node):
                if isinstance(n, ast.Call) and isinstance(n.func, ast.Name) and len(n.args) >= 2 and isinstance(n.args[0], ast.Name) and n.args[0].id == "self" and isinstance(n.args[1], ast.Constant):
                    if n.func.id == "hasattr":
                        has.add(n.args[1].value)
                    elif n.func.id == "getattr" and len(n.args) == 3 and isinstance(n.args[2], ast.Constant) and n.args[2].value in (None, False, 0):
                        p = parent(n)
                        truth = isinstance(p, (ast.If, ast.While, ast.IfExp)) and p.test is n or isinstance(p, ast.UnaryOp) and isinstance(p.op, ast.Not) or isinstance(p, ast.BoolOp) or isinstance(p, ast.Call) and norm(p.func) == "bool"
                        if truth:
                            get.add(n.args[1].value)
            total += len(has)
            for a in sorted(has & get):
                bad.append(f"{q}: attribute {a!r} is tested with hasattr and with getattr-truthiness")
        if total:
            ctx.ob(rule, f"{rel}:<module>", f"{total} hasattr(self, ...) presence tests are not mixed with getattr-truthiness of the same attribute", not bad, "" if not bad else "; ".join(bad))


NUM_FORMATTERS = {"intOrFloat", "self.intOrFloat", "fl2str", "floatToFixedToStr", "floatToFixed"}


def num_fmt(ctx, repo, scope=("",), rule="NUM-FMT", _self=False):
    ctx.rule(rule, "a value that is written through a number formatter (intOrFloat, fl2str, floatToFixed...) is guarded by `is not None`, not by its truthiness: 0 / 0.0 are values and must be written", floor=1)
    if not _self:
        _selfcheck(ctx, rule, num_fmt)
    for rel in sorted(repo.rels()):
        if not _in_scope(rel, scope):
            continue
        m = repo.mod(rel)
        total = 0
        bad = []
        for n in ast.walk(m.tree):
            if not isinstance(n, ast.If):
                continue
            t = n.test
            if not isinstance(t, (ast.Name, ast.Attribute)):
                continue
            x = norm(t)
            # only plain stores / emitted attributes count: `total += f(x)` skipping a zero is harmless
            fm = [c for s in n.body for c in ast.walk(s) if isinstance(c, ast.Call) and norm(c.func) in NUM_FORMATTERS and len(c.args) >= 1 and norm(c.args[0]) == x and not isinstance(s, ast.AugAssign)]
            if fm:
                total += 1
                bad.append(f"`if {x}:` guards {norm(fm[0])[:50]}")
        # count the healthy form too so the obligation is not vacuous
        for n in ast.walk(m.tree):
            if isinstance(n, ast.If) and isinstance(n.test, ast.Compare) and len(n.test.ops) == 1 and isinstance(n.test.ops[0], ast.IsNot) and isinstance(n.test.comparators[0], ast.Constant) and n.test.comparators[0].value is None:
                x = norm(n.test.left)
                if any(isinstance(c, ast.Call) and norm(c.func) in NUM_FORMATTERS and c.args and norm(c.args[0]) == x for s in n.body for c in ast.walk(s)):
                    total += 1
        if total:
            ctx.ob(rule, f"{rel}:<module>", f"{total} optional numbers are written under `is not None`", not bad, "" if not bad else "; ".join(bad))




# ---------------------------------------------------------------------------
# UNBOUND: a local read on a path on which none of its bindings has run
# ---------------------------------------------------------------------------
_POSITIVE["UNBOUND"] = '''
def dump(self, writer, writeVersion=True, splitTables=False):
    if writeVersion:
        version = compute()
        writer.begintag("ttFont", ttLibVersion=version)
    else:
        writer.begintag("ttFont")
    for tag in self.tables:
        if splitTables:
            tableWriter = make(tag)
            tableWriter.begintag("ttFont", ttLibVersion=version)
'''

# (module, function, variable) -> why no path reaches the read without a binding (each confirmed by reading)
UNBOUND_AUDIT = {
    ("cffLib/__init__.py", "CharsetConverter._read", "charset"): "the else arm is entered only with value in {0, 1, 2} (value > 2 takes the other arm) and each of the three binds charset",
    ("cu2qu/ufo.py", "fonts_to_quadratic", "max_errors"): "the two TypeError guards above leave exactly one of max_err / max_err_em set; each non-None case binds max_errors",
    ("feaLib/parser.py", "Parser.parse_table_BASE_", "horiz_bases"): "bound by the HorizAxis.BaseTagList statement, which the grammar puts before BaseScriptList; a malformed file with the two swapped raises UnboundLocalError instead of FeatureLibError (input robustness, not a claimed clause)",
    ("feaLib/parser.py", "Parser.parse_table_BASE_", "vert_bases"): "as horiz_bases, for the vertical axis",
    ("ttLib/tables/_c_m_a_p.py", "cmap_format_14.fromXML", "uvsDict"): "latent only: the alias is bound when the object has no uvsDict yet, which is always the case for the fresh subtable XMLReader hands to fromXML",
    ("ttLib/tables/_c_m_a_p.py", "cmap_format_4.compile", "cmap"): "bound in the else arm of `if not charCodes`; the later loop that reads it iterates charCodes and does not run when it is empty",
    ("ttLib/ttFont.py", "TTFont._tableToXML", "table"): "bound under `if tag in self`; the function returns under `if tag not in self` before the read",
    ("ufoLib/validators.py", "colorValidator", "number"): "bound by the first successful conversion in the try chain; every failing chain returns False before the read",
    ("varLib/mutator.py", "instantiateVariableFont", "g"): "g is bound together with origCoords the first time origCoords is None, which dominates every read",
}


def _store_names(t):
    return [n.id for n in ast.walk(t) if isinstance(n, ast.Name) and isinstance(n.ctx, ast.Store)]


def _stmt_defs(st):
    """names certainly bound once the statement (header) has executed"""
    out = []
    if isinstance(st, ast.Assign):
        for t in st.targets:
            out += _store_names(t)
    elif isinstance(st, ast.AnnAssign) and st.value is not None:
        out += _store_names(st.target)
    elif isinstance(st, ast.AugAssign):
        out += _store_names(st.target)
    elif isinstance(st, (ast.For, ast.AsyncFor)):
        out += _store_names(st.target)  # bound in the body; after the loop only if it ran (idiomatic, not reported)
    elif isinstance(st, (ast.With, ast.AsyncWith)):
        for it in st.items:
            if it.optional_vars is not None:
                out += _store_names(it.optional_vars)
    elif isinstance(st, (ast.Import, ast.ImportFrom)):
        for a in st.names:
            out.append((a.asname or a.name).split(".")[0])
    elif isinstance(st, (ast.FunctionDef, ast.AsyncFunctionDef, ast.ClassDef)):
        out.append(st.name)
    elif isinstance(st, ast.ExceptHandler):
        if st.name:
            out.append(st.name)
    # walrus anywhere in the header
    for part in consistency._header_parts(st) if not isinstance(st, (ast.FunctionDef, ast.AsyncFunctionDef, ast.ClassDef)) else []:
        if part is None:
            continue
        for n in ast.walk(part):
            if isinstance(n, ast.NamedExpr) and isinstance(n.target, ast.Name):
                out.append(n.target.id)
    return out


def _header_loads(st):
    """(name, node) loaded when the statement header runs; nested defs / lambdas are deferred, comprehension targets are their own scope"""
    if isinstance(st, (ast.FunctionDef, ast.AsyncFunctionDef, ast.ClassDef)):
        parts = list(st.decorator_list)
        if not isinstance(st, ast.ClassDef):
            parts += [d for d in st.args.defaults + st.args.kw_defaults if d is not None]
    else:
        parts = [p for p in consistency._header_parts(st) if p is not None]
        if isinstance(st, (ast.For, ast.AsyncFor)):
            parts = [st.iter]
    out = []

    def walk(n, hidden):
        if isinstance(n, (ast.Lambda, ast.FunctionDef, ast.AsyncFunctionDef, ast.ClassDef)):
            return
        if isinstance(n, (ast.ListComp, ast.SetComp, ast.GeneratorExp, ast.DictComp)):
            h = set(hidden)
            for g in n.generators:
                walk(g.iter, h)
                h |= set(_store_names(g.target))
                for c in g.ifs:
                    walk(c, h)
            for e in ([n.key, n.value] if isinstance(n, ast.DictComp) else [n.elt]):
                walk(e, h)
            return
        if isinstance(n, ast.Name) and isinstance(n.ctx, (ast.Load, ast.Del)) and n.id not in hidden:
            out.append((n.id, n))
        for c in ast.iter_child_nodes(n):
            walk(c, hidden)

    for p in parts:
        walk(p, set())
    return out


def _guards(st):
    from ..cfg import guard_conditions

    out = set()
    for t, pol in guard_conditions(st):
        while isinstance(t, ast.UnaryOp) and isinstance(t.op, ast.Not):
            t, pol = t.operand, not pol
        if isinstance(t, ast.BoolOp) and isinstance(t.op, ast.Or) and not pol:
            # not (a or b)  ==  not a and not b
            for v in t.values:
                p2 = False
                while isinstance(v, ast.UnaryOp) and isinstance(v.op, ast.Not):
                    v, p2 = v.operand, not p2
                out.add((norm(v), p2))
        elif isinstance(t, ast.BoolOp) and isinstance(t.op, ast.And) and pol:
            for v in t.values:
                p2 = True
                while isinstance(v, ast.UnaryOp) and isinstance(v.op, ast.Not):
                    v, p2 = v.operand, not p2
                out.add((norm(v), p2))
        else:
            out.add((norm(t), pol))
    return out


def _expr_guards(node, st):
    """conditions that hold when ``node`` is evaluated inside its statement: earlier operands of and/or, ternary tests"""
    out = set()
    cur = node
    p = parent(cur)
    while p is not None and cur is not st:
        if isinstance(p, ast.BoolOp):
            k = next((i for i, v in enumerate(p.values) if v is cur), 0)
            for v in p.values[:k]:
                pol = isinstance(p.op, ast.And)
                while isinstance(v, ast.UnaryOp) and isinstance(v.op, ast.Not):
                    v, pol = v.operand, not pol
                out.add((norm(v), pol))
        elif isinstance(p, ast.IfExp) and cur is not p.test:
            t, pol = p.test, cur is p.body
            while isinstance(t, ast.UnaryOp) and isinstance(t.op, ast.Not):
                t, pol = t.operand, not pol
            out.add((norm(t), pol))
        cur, p = p, parent(p)
    return out


def _in_try_finally(d, use):
    p = parent(d)
    while p is not None:
        if isinstance(p, ast.Try) and p.finalbody and any(_inside(d, b) for b in p.body) and not _inside(use, p):
            return True
        p = parent(p)
    return False


def _inside(n, anc):
    p = n
    while p is not None:
        if p is anc:
            return True
        p = parent(p)
    return False


def _chain_root(st):
    """outermost If of the if/elif chain in whose arm ``st`` sits directly (else None)"""
    p = parent(st)
    while isinstance(p, (ast.With, ast.AsyncWith, ast.Try)):
        p = parent(p)
    if not isinstance(p, ast.If):
        return None
    root = p
    while isinstance(parent(root), ast.If) and len(parent(root).orelse) == 1 and parent(root).orelse[0] is root:
        root = parent(root)
    return root


def _chain_arms(root):
    arms = []
    cur = root
    while True:
        arms.append(cur.body)
        if len(cur.orelse) == 1 and isinstance(cur.orelse[0], ast.If):
            cur = cur.orelse[0]
        else:
            if cur.orelse:
                arms.append(cur.orelse)
            break
    return arms


def _same_chain(dsites):
    """every binding is an arm of one if/elif chain and every arm that can fall through binds the name (so the only
    binding-free way through the chain is 'no arm taken' of an else-less dispatch on a format / version value)"""
    rootset = {id(_chain_root(d)) for d in dsites}
    if len(rootset) != 1 or None in {_chain_root(d) for d in dsites}:
        return False
    root = _chain_root(dsites[0])
    arms = _chain_arms(root)
    if len(arms) < 2:
        return False
    for arm in arms:
        has_def = any(any(d is x for x in ast.walk(st)) for st in arm for d in dsites)
        exits = bool(arm) and isinstance(arm[-1], (ast.Raise, ast.Return, ast.Continue, ast.Break))
        if not has_def and not exits:
            return False
    return True


def unbound(ctx, repo, scope=("",), rule="UNBOUND", _self=False):
    from ..cfg import CFG, guard_conditions

    ctx.rule(rule, "no local variable is read on a path on which none of its bindings has executed (UnboundLocalError for one combination of options / inputs), unless a binding sits under the very conditions that guard the read or the site is audited", floor=1)
    if not _self:
        _selfcheck(ctx, rule, unbound)
    seen_audit = set()
    for rel in sorted(repo.rels()):
        if not _in_scope(rel, scope):
            continue
        m = repo.mod(rel)
        total = 0
        bad = []
        for q, f in sorted(m.funcs.items()):
            fn = f.node
            if isinstance(fn, ast.Lambda):
                continue
            a = fn.args
            params = {x.arg for x in a.posonlyargs + a.args + a.kwonlyargs}
            if a.vararg:
                params.add(a.vararg.arg)
            if a.kwarg:
                params.add(a.kwarg.arg)
            nonlocal_ = set()
            for n in walk_no_nested(fn):
                if isinstance(n, (ast.Global, ast.Nonlocal)):
                    nonlocal_.update(n.names)
            g = CFG(fn)
            defs_at = {}
            locals_ = set()
            def_sites = {}
            for i, st in g.stmt.items():
                if st is None:
                    continue
                ds = [d for d in _stmt_defs(st) if d not in nonlocal_]
                defs_at[i] = set(ds)
                locals_.update(ds)
                for d in ds:
                    def_sites.setdefault(d, []).append(st)
            locals_ -= params
            if not locals_:
                continue
            nodes = [i for i in g.stmt if i in g._reach(0, g.succ)]
            ALL = frozenset(locals_)
            IN = {i: ALL for i in nodes}
            IN[0] = frozenset()
            changed = True
            order = sorted(nodes)
            while changed:
                changed = False
                for i in order:
                    if i == 0:
                        continue
                    ps = [p for p in g.pred[i] if p in IN]
                    if not ps:
                        continue
                    new = None
                    for p in ps:
                        sp0 = g.stmt[p]
                        if isinstance(sp0, ast.Expr) and isinstance(sp0.value, ast.Call) and norm(sp0.value.func) in ("sys.exit", "exit", "os._exit", "parser.error", "self.fail"):
                            continue  # does not return
                        if isinstance(sp0, ast.Assert) and isinstance(sp0.test, ast.Constant) and not sp0.test.value:
                            continue  # assert 0 / assert False: raises (except under -O)
                        o = IN[p] | frozenset(defs_at.get(p, ()))
                        # `del x` un-binds
                        sp = g.stmt[p]
                        if isinstance(sp, ast.Delete):
                            o = o - frozenset(t.id for t in sp.targets if isinstance(t, ast.Name))
                        new = o if new is None else (new & o)
                    if new is None:
                        new = ALL  # only reached from non-returning statements
                    if new != IN[i]:
                        IN[i] = new
                        changed = True
            reported = set()
            for i in order:
                st = g.stmt[i]
                if st is None:
                    continue
                for name, node in _header_loads(st):
                    if name not in locals_ or name in IN[i]:
                        continue
                    if isinstance(st, ast.AugAssign) and isinstance(st.target, ast.Name) and st.target.id == name and node is st.target:
                        pass
                    total += 1
                    if name in reported:
                        continue
                    # correlated guards: a binding that sits under a subset of the conditions guarding this read
                    gu = _guards(st) | _expr_guards(node, st)
                    corr = False
                    dsites = [d for d in def_sites.get(name, []) if d is not st]
                    # bound by a walrus in the same statement (evaluation order inside one statement is not modelled)
                    if any(isinstance(x, ast.NamedExpr) and isinstance(x.target, ast.Name) and x.target.id == name for x in ast.walk(st) if not isinstance(st, (ast.FunctionDef, ast.AsyncFunctionDef, ast.ClassDef))):
                        continue
                    # every binding is in the body of a try ... finally and the read comes after it: the only binding-free way
                    # through the finally is the exceptional one, which does not continue to the read
                    if dsites and all(_in_try_finally(d, st) for d in dsites):
                        continue
                    for d in dsites:
                        gd = _guards(d)
                        if gd and gd <= gu:
                            corr = True
                        # for-loop variable read after its loop (idiom: the loop is known to run)
                        if isinstance(d, (ast.For, ast.AsyncFor)):
                            corr = True
                        # bound inside a loop body, read after that loop (idiom: the loop runs at least once)
                        lp = parent(d)
                        while lp is not None and lp is not fn:
                            if isinstance(lp, (ast.For, ast.AsyncFor, ast.While)) and not _inside(st, lp):
                                corr = True
                            lp = parent(lp)
                    # co-assigned flag: the read is guarded by a test on v, and a binding of the name sits in a block that also assigns v
                    if not corr:
                        gvars = set()
                        for t, pol in guard_conditions(st):
                            gvars |= {x.id for x in ast.walk(t) if isinstance(x, ast.Name)}
                        if isinstance(st, (ast.If, ast.While)):
                            pass
                        for d in dsites:
                            holder = parent(d)
                            for fld in ("body", "orelse", "finalbody"):
                                blk = getattr(holder, fld, None)
                                if isinstance(blk, list) and any(x is d for x in blk):
                                    for sib in blk:
                                        if set(_stmt_defs(sib)) & gvars and sib is not d or (sib is d and set(_stmt_defs(sib)) & gvars - {name}):
                                            corr = True
                    # dispatch chain: every binding sits in an arm of one if/elif chain without else (format / version / mode switch)
                    if not corr and dsites and _same_chain(dsites):
                        corr = True
                    if corr:
                        continue
                    reported.add(name)
                    key = (rel, q.split("#")[0], name)
                    if key not in UNBOUND_AUDIT:
                        # the audited code moved into another function of the module (extract function): same variable, same module
                        alt = [k for k in UNBOUND_AUDIT if k[0] == rel and k[2] == name]
                        if len(alt) == 1:
                            key = alt[0]
                    if key in UNBOUND_AUDIT:
                        seen_audit.add(key)
                        ctx.ob(rule, f"{rel}:{q}", f"{name} (audited: {UNBOUND_AUDIT[key]})", True)
                    else:
                        bad.append(f"{q}: `{name}` read in `{norm(st)[:50]}` with no binding on some path")
            total += 0
        ctx.ob(rule, f"{rel}:<module>", "every local read is preceded by a binding on all paths (or correlated / audited)", not bad, "; ".join(bad[:3]) + (f" (+{len(bad) - 3} more)" if len(bad) > 3 else ""))




NEW = [first_only, none_sentinel, acc_reset, presence_kind, num_fmt, unbound]
GENERIC.extend(NEW)


# ---------------------------------------------------------------------------
# ATTR-NEAR / DEAD-DEF / CACHE-KEY
# ---------------------------------------------------------------------------
_POSITIVE["ATTR-NEAR"] = '''
class Silf:
    def decompile(self, data):
        self.numCritFeatures = len(data)
    def compile(self):
        return self.numCritFeaturs * 2
'''
_POSITIVE["DEAD-DEF"] = '''
class T1:
    def getFixedEncoder(self):
        def encodeFixed(value):
            raise TypeError("no floats")
'''
_POSITIVE["CACHE-KEY"] = '''
_cache = {}
def getformat(fmt, keep_pad_byte=False):
    try:
        return _cache[fmt]
    except KeyError:
        names = [n for n in fmt.split(";") if keep_pad_byte or n != "x"]
        _cache[fmt] = names
    return names
'''
ATTR_NEAR_AUDIT = {
    ("misc/testTools.py", "TestCase", "assertRaisesRegexp"): "deliberate alias for the Python 2 spelling",
}


def attr_near(ctx, repo, scope=("",), rule="ATTR-NEAR", _self=False):
    from .pens import _lev1

    ctx.rule(rule, "a `self.x` that is read but never assigned anywhere in the class or its bases, while an attribute one edit away is assigned, is a misspelling (AttributeError on the path that reads it)", floor=1)
    if not _self:
        _selfcheck(ctx, rule, attr_near)
    for rel in sorted(repo.rels()):
        if not _in_scope(rel, scope):
            continue
        m = repo.mod(rel)
        total = 0
        bad = []
        for q, c in sorted(m.classes.items()):
            stored = set()
            for k in repo.mro(c) if hasattr(repo, "mro") and getattr(repo, "_mods", None) is not None else [c]:
                stored |= set(k.methods) | set(k.attrs)
                for n in ast.walk(k.node):
                    if isinstance(n, ast.Attribute) and isinstance(n.value, ast.Name) and n.value.id == "self" and isinstance(n.ctx, ast.Store):
                        stored.add(n.attr)
                    if isinstance(n, ast.Call) and isinstance(n.func, ast.Name) and n.func.id == "setattr" and len(n.args) >= 2 and isinstance(n.args[1], ast.Constant):
                        stored.add(n.args[1].value)
            loaded = {n.attr for n in ast.walk(c.node) if isinstance(n, ast.Attribute) and isinstance(n.value, ast.Name) and n.value.id == "self" and isinstance(n.ctx, ast.Load)}
            total += len(loaded)
            for y in sorted(loaded - stored):
                if len(y) < 6:
                    continue
                near = [x for x in stored if len(x) >= 6 and _lev1(x, y) <= 1 and x.lower() != y.lower() + "s" and y.lower() != x.lower() + "s"]
                if near and (rel, q, y) not in ATTR_NEAR_AUDIT:
                    bad.append(f"{q}: self.{y} is never assigned; self.{sorted(near)[0]} is")
        if total:
            ctx.ob(rule, f"{rel}:<module>", f"{total} distinct self attributes read: none is a near-miss of an assigned one", not bad, "; ".join(bad[:3]))


def dead_def(ctx, repo, scope=("",), rule="DEAD-DEF", _self=False):
    ctx.rule(rule, "a function defined inside another function is used there (called, returned, stored, passed on, decorated); one that is only defined was meant to be returned or registered", floor=1)
    if not _self:
        _selfcheck(ctx, rule, dead_def)
    for rel in sorted(repo.rels()):
        if not _in_scope(rel, scope):
            continue
        m = repo.mod(rel)
        total = 0
        bad = []
        for q, f in sorted(m.funcs.items()):
            inner = [n for n in f.node.body if isinstance(n, (ast.FunctionDef, ast.AsyncFunctionDef))] if isinstance(f.node, (ast.FunctionDef, ast.AsyncFunctionDef)) else []
            inner += [n for st in getattr(f.node, "body", []) if isinstance(st, (ast.If, ast.For, ast.While, ast.With, ast.Try)) for n in ast.walk(st) if isinstance(n, (ast.FunctionDef, ast.AsyncFunctionDef)) and parent(n) is not f.node and consistency.enclosing_func(n) is f.node] if hasattr(consistency, "enclosing_func") else []
            for d in inner:
                total += 1
                if d.decorator_list:
                    continue
                used = any(isinstance(n, ast.Name) and n.id == d.name and isinstance(n.ctx, ast.Load) for n in ast.walk(f.node))
                if not used:
                    bad.append(f"{q}: inner function {d.name} is defined and never used")
        if total:
            ctx.ob(rule, f"{rel}:<module>", f"{total} inner functions are all used by their enclosing function", not bad, "; ".join(bad[:3]))


def cache_key(ctx, repo, scope=("",), rule="CACHE-KEY", _self=False):
    ctx.rule(rule, "a function that memoises its result in a module-level dict keys the cache on every parameter the computed value depends on; a parameter read while computing but absent from the key makes the first caller's variant answer all later calls", floor=1)
    if not _self:
        _selfcheck(ctx, rule, cache_key)
    for rel in sorted(repo.rels()):
        if not _in_scope(rel, scope):
            continue
        m = repo.mod(rel)
        module_dicts = {k for k, v in m.assigns.items() if isinstance(v, ast.Dict) and not v.keys}
        total = 0
        bad = []
        for q, f in sorted(m.funcs.items()):
            if not isinstance(f.node, (ast.FunctionDef, ast.AsyncFunctionDef)) or f.cls is not None:
                continue
            stores = [n for n in walk_no_nested(f.node) if isinstance(n, ast.Assign) and isinstance(n.targets[0], ast.Subscript) and isinstance(n.targets[0].value, ast.Name) and n.targets[0].value.id in module_dicts]
            loads = [n for n in walk_no_nested(f.node) if isinstance(n, ast.Subscript) and isinstance(n.ctx, ast.Load) and isinstance(n.value, ast.Name) and n.value.id in module_dicts]
            if not stores or not loads:
                continue
            a = f.node.args
            params = [x.arg for x in a.posonlyargs + a.args + a.kwonlyargs]
            total += 1
            keynames = None
            for n in [st.targets[0] for st in stores] + loads:
                k_ = {x.id for x in ast.walk(n.slice) if isinstance(x, ast.Name)}
                keynames = k_ if keynames is None else (keynames & k_)  # a name must be in EVERY key expression
            keynames = keynames or set()
            # parameters read outside the key expressions
            carriers = set(keynames)
            changed = True
            while changed:  # names derived only from key names carry no extra information
                changed = False
                for n in walk_no_nested(f.node):
                    if isinstance(n, ast.Assign) and isinstance(n.targets[0], ast.Name) and n.targets[0].id not in carriers:
                        src = {x.id for x in ast.walk(n.value) if isinstance(x, ast.Name)} & set(params)
                        if src and src <= carriers:
                            carriers.add(n.targets[0].id)
                            changed = True
            used = set()
            for n in walk_no_nested(f.node):
                if isinstance(n, ast.Name) and isinstance(n.ctx, ast.Load) and n.id in params:
                    used.add(n.id)
            missing = sorted(p for p in used if p not in carriers)
            if missing:
                bad.append(f"{q}: cache {stores[0].targets[0].value.id} is keyed on {sorted(keynames)} but the value also depends on {missing}")
        if total:
            ctx.ob(rule, f"{rel}:<module>", f"{total} memoising functions key their cache on every parameter they read", not bad, "; ".join(bad[:3]))


NEW2 = [attr_near, dead_def, cache_key]
GENERIC.extend(NEW2)


# ---------------------------------------------------------------------------
# DEAD-STORE: a computed value bound to a local that no path reads again
# ---------------------------------------------------------------------------
_POSITIVE["DEAD-STORE"] = '''
def remap(privates, mapping):
    for private in privates:
        vsindex = getattr(private, "vsindex", None)
        if vsindex is None:
            continue
        if vsindex in mapping:
            vsindex = mapping[vsindex]
        else:
            del private.vsindex
'''
# (module, function, variable) -> why the dead store is harmless (each confirmed by reading)
DEAD_STORE_AUDIT = {
    ("ttLib/tables/S__i_l_f.py", "Pass.decompile", "data"): "cursor advance past the last block that is read (the debug block after it is deliberately not parsed)",
    ("varLib/instancer/names.py", "_updateNameTableStyleRecords", "currentStyleName"): "leftover conversion: the style name is only tested for presence above, the new style name is built from the axis values",
}


def enclosing_def(n):
    p = parent(n)
    while p is not None and not isinstance(p, (ast.FunctionDef, ast.AsyncFunctionDef, ast.Lambda, ast.ClassDef)):
        p = parent(p)
    return p


def _ds_candidate(st):
    """`name = <computed>`: a single plain local target and a right-hand side that does work worth keeping"""
    if not (isinstance(st, ast.Assign) and len(st.targets) == 1 and isinstance(st.targets[0], ast.Name)):
        return None
    v = st.value
    if isinstance(v, (ast.Constant, ast.Name)) or _empty_container(v):
        return None
    if isinstance(v, (ast.List, ast.Tuple, ast.Dict, ast.Set)) and not any(isinstance(x, (ast.Call, ast.Subscript)) for x in ast.walk(v)):
        return None
    # the rebinding form `x = f(x)` / `x = table[x]`: the new value replaces the old one under the same name, so it is meant to be used
    if not any(isinstance(x, ast.Name) and x.id == st.targets[0].id for x in ast.walk(v)):
        return None
    return st.targets[0].id


def dead_store(ctx, repo, scope=("",), rule="DEAD-STORE", _self=False):
    from ..cfg import CFG

    ctx.rule(rule, "a value computed from a lookup or a call and bound to a local is read on some path before the local is rebound or the function ends; a remapped / converted value that is never read means the update meant for an object went to a temporary (stale index, unit or reference left in place)", floor=1)
    if not _self:
        _selfcheck(ctx, rule, dead_store)
    for rel in sorted(repo.rels()):
        if not _in_scope(rel, scope):
            continue
        m = repo.mod(rel)
        total = 0
        bad = []
        for q, f in sorted(m.funcs.items()):
            fn = f.node
            if isinstance(fn, ast.Lambda):
                continue
            cands = [n for n in walk_no_nested(fn) if _ds_candidate(n)]
            if not cands:
                continue
            # names that escape the flow analysis: closures, globals, locals()/vars()/eval/exec users.  An inner function
            # that is only ever called directly reads its free variables at its call sites; one that is passed around,
            # stored or returned (and every lambda / class body) may read them at any time.
            escape = set()
            dyn = False
            inner = {}
            for n in ast.walk(fn):
                if n is fn:
                    continue
                if isinstance(n, (ast.FunctionDef, ast.AsyncFunctionDef)) and enclosing_def(n) is fn:
                    a_ = n.args
                    bound = {x.arg for x in a_.posonlyargs + a_.args + a_.kwonlyargs} | ({a_.vararg.arg} if a_.vararg else set()) | ({a_.kwarg.arg} if a_.kwarg else set())
                    nl = set()
                    for x in walk_no_nested(n):
                        if isinstance(x, ast.Name) and isinstance(x.ctx, ast.Store):
                            bound.add(x.id)
                        if isinstance(x, (ast.Global, ast.Nonlocal)):
                            nl |= set(x.names)
                    escape |= nl
                    if n.name in inner or n.decorator_list:
                        escape |= {x.id for x in ast.walk(n) if isinstance(x, ast.Name)} | (inner[n.name][1] if n.name in inner else set())
                    inner[n.name] = (n, {x.id for x in ast.walk(n) if isinstance(x, ast.Name) and isinstance(x.ctx, (ast.Load, ast.Del))} - (bound - nl))
                elif isinstance(n, (ast.Lambda, ast.ClassDef)) or (isinstance(n, (ast.FunctionDef, ast.AsyncFunctionDef)) and enclosing_def(n) is not fn):
                    if isinstance(n, (ast.Lambda, ast.ClassDef)):
                        escape |= {x.id for x in ast.walk(n) if isinstance(x, ast.Name)}
                if isinstance(n, (ast.Global, ast.Nonlocal)) and enclosing_def(n) is fn:
                    escape |= set(n.names)
                if isinstance(n, ast.Call) and isinstance(n.func, ast.Name) and n.func.id in ("locals", "vars", "eval", "exec"):
                    dyn = True
            direct = {nm: free for nm, (nd, free) in inner.items()}
            ch = True
            while ch:
                ch = False
                for nm in list(direct):
                    refs = [x for x in ast.walk(fn) if isinstance(x, ast.Name) and x.id == nm and isinstance(x.ctx, ast.Load)]
                    ok = True
                    for x in refs:
                        e = enclosing_def(x)
                        if not (isinstance(parent(x), ast.Call) and parent(x).func is x):
                            ok = False
                        elif e is not fn and not (isinstance(e, (ast.FunctionDef, ast.AsyncFunctionDef)) and direct.get(e.name) is not None and inner[e.name][0] is e):
                            ok = False  # called from a lambda / class body / an inner function that itself escapes
                    if not ok:
                        escape |= direct.pop(nm)
                        ch = True
            # free variables of a directly-called inner function include those of the inner functions it calls
            ch = True
            while ch:
                ch = False
                for nm in list(direct):
                    for other in list(direct):
                        if other in direct[nm] and not direct[other] <= direct[nm]:
                            direct[nm] = direct[nm] | direct[other]
                            ch = True
                    for other, (nd, free) in inner.items():
                        if other not in direct and other in direct[nm]:
                            pass  # already in escape
            if dyn:
                continue
            g = CFG(fn)
            succ = {i: set(s) for i, s in g.succ.items()}
            # exceptional edges: a statement in a try body may jump to that try's handlers / finally
            for i, st in g.stmt.items():
                if st is None:
                    continue
                p = parent(st)
                child = st
                while p is not None and p is not fn:
                    if (isinstance(p, ast.Try) or p.__class__.__name__ == "TryStar") and any(x is child for x in p.body):
                        for h in p.handlers:
                            if id(h) in g.node_of:
                                succ[i].add(g.node_of[id(h)])
                        if p.finalbody and id(p.finalbody[0]) in g.node_of:
                            succ[i].add(g.node_of[id(p.finalbody[0])])
                    child, p = p, parent(p)
            use = {}
            kill = {}
            for i, st in g.stmt.items():
                if st is None:
                    use[i], kill[i] = set(), set()
                    continue
                use[i] = {nm for nm, _ in _header_loads(st)}
                for nm in list(use[i]):
                    if nm in direct:
                        use[i] |= direct[nm]
                if isinstance(st, ast.AugAssign) and isinstance(st.target, ast.Name):
                    use[i].add(st.target.id)
                k = set()
                if isinstance(st, (ast.Assign, ast.AnnAssign)):
                    k = set(_stmt_defs(st))
                    # a[i] = ..., x.y = ...: the base name is read, not killed
                    k = {t.id for t in (st.targets if isinstance(st, ast.Assign) else [st.target]) if isinstance(t, ast.Name)} | {
                        e.id for t in (st.targets if isinstance(st, ast.Assign) else [st.target]) if isinstance(t, (ast.Tuple, ast.List)) for e in t.elts if isinstance(e, ast.Name)}
                kill[i] = k
            LIVE_OUT = {i: set() for i in g.stmt}
            changed = True
            order = sorted(g.stmt, reverse=True)
            while changed:
                changed = False
                for i in order:
                    out = set()
                    for s in succ.get(i, ()):
                        out |= use[s] | (LIVE_OUT[s] - kill[s])
                    if out != LIVE_OUT[i]:
                        LIVE_OUT[i] = out
                        changed = True
            reach = g._reach(0, g.succ)
            for st in cands:
                name = _ds_candidate(st)
                if name in escape or name.startswith("_") or name in ("dummy", "unused", "junk", "ignore", "ignored"):
                    continue
                i = g.node_of.get(id(st))
                if i is None or i not in reach:
                    continue
                total += 1
                if name in LIVE_OUT[i]:
                    continue
                key = (rel, q.split("#")[0], name)
                if key in DEAD_STORE_AUDIT:
                    ctx.ob(rule, f"{rel}:{q}", f"{name} (audited: {DEAD_STORE_AUDIT[key]})", True)
                    continue
                bad.append(f"{q}: `{norm(st)[:60]}` is never read afterwards")
        if total:
            ctx.ob(rule, f"{rel}:<module>", f"{total} computed local bindings are each read on some later path", not bad, "; ".join(bad[:4]) + (f" (+{len(bad) - 4} more)" if len(bad) > 4 else ""))


NEW3 = [dead_store]
GENERIC.extend(NEW3)


# ---------------------------------------------------------------------------
# TAG-LIT: string literals used as TTFont keys are table tags
# ---------------------------------------------------------------------------
_POSITIVE["TAG-LIT"] = '''
def fromXML(self, name, attrs, content, ttFont):
    hasGlyphNamedNone = "None" in ttFont
    cmap = ttFont["cmap"]
'''
# literal keys that are deliberately not a table module's tag
TAG_LIT_AUDIT = {}
_TTFONT_NAMES = {"ttFont", "ttfont", "varfont", "varFont", "otFont", "self.ttFont", "ttf"}


def tag_literals(ctx, repo, scope=("",), rule="TAG-LIT", _self=False):
    ctx.rule(rule, "a string literal used as a key of a TTFont (`'xxxx' in ttFont`, `ttFont['xxxx']`, `ttFont.get('xxxx')`) is a table tag: at most four characters, or the pseudo-table 'GlyphOrder'; TTFont membership tests table tags, not glyph names, so any other literal is a test against the wrong collection that is silently always false", floor=1)
    if not _self:
        _selfcheck(ctx, rule, tag_literals)
    known = set()
    if not _self:
        from .. import inject

        known = {t for t in inject.all_table_tags(repo)} | {t.strip() for t in inject.all_table_tags(repo)}
    else:
        known = {"cmap", "glyf", "head"}
    for rel in sorted(repo.rels()):
        if not _in_scope(rel, scope):
            continue
        m = repo.mod(rel)
        total = 0
        bad = []
        for n in ast.walk(m.tree):
            key = None
            if isinstance(n, ast.Compare) and len(n.ops) == 1 and isinstance(n.ops[0], (ast.In, ast.NotIn)) and norm(n.comparators[0]) in _TTFONT_NAMES and isinstance(n.left, ast.Constant) and isinstance(n.left.value, str):
                key = n.left.value
            elif isinstance(n, ast.Subscript) and norm(n.value) in _TTFONT_NAMES and isinstance(n.slice, ast.Constant) and isinstance(n.slice.value, str):
                key = n.slice.value
            elif isinstance(n, ast.Call) and isinstance(n.func, ast.Attribute) and n.func.attr in ("get", "has_key", "isLoaded") and norm(n.func.value) in _TTFONT_NAMES and n.args and isinstance(n.args[0], ast.Constant) and isinstance(n.args[0].value, str):
                key = n.args[0].value
            if key is None:
                continue
            total += 1
            if not (1 <= len(key) <= 4 or key == "GlyphOrder"):
                bad.append(f"line {n.lineno}: {norm(n)[:60]}")
            elif known and key != "GlyphOrder" and key.ljust(4) not in known and key not in known and key not in TAG_LIT_AUDIT:
                bad.append(f"line {n.lineno}: {norm(n)[:60]} ('{key}' is not a table the library has a module for)")
        if total:
            ctx.ob(rule, f"{rel}:<module>", f"{total} literal TTFont keys are table tags", not bad, "; ".join(bad[:3]))


NEW4 = [tag_literals]
GENERIC.extend(NEW4)


# ---------------------------------------------------------------------------
# EARLY-NEG: a search loop that gives up at the first candidate that does not match
# ---------------------------------------------------------------------------
_POSITIVE["EARLY-NEG"] = '''
def get_effective_value_pair(subtables, firstGlyph, secondGlyph):
    for self in subtables:
        if firstGlyph not in self.Coverage.glyphs:
            continue
        for rec in self.PairSet:
            if rec.SecondGlyph == secondGlyph:
                return rec
        return None
    return None
'''
EARLY_NEG_AUDIT = {
    ("feaLib/parser.py", "Parser.find_previous"): "deliberate and commented: only comments may sit between the statement and the one looked for",
}


def early_negative(ctx, repo, scope=("",), rule="EARLY-NEG", _self=False):
    ctx.rule(rule, "a function that ends with a search loop (a `return <found>` inside, `return None/False` or nothing after it) does not also return the negative result from inside the loop: that ends the search at the first candidate that fails, and later candidates (subtables, masters, records) are never looked at", floor=1)
    if not _self:
        _selfcheck(ctx, rule, early_negative)

    def is_neg(v):
        return v is None or (isinstance(v, ast.Constant) and v.value in (None, False))

    for rel in sorted(repo.rels()):
        if not _in_scope(rel, scope):
            continue
        m = repo.mod(rel)
        total = 0
        bad = []
        for q, f in sorted(m.funcs.items()):
            fn = f.node
            if isinstance(fn, ast.Lambda):
                continue
            for i, st in enumerate(fn.body):
                if not isinstance(st, (ast.For, ast.While)):
                    continue
                rest = fn.body[i + 1:]
                if not (not rest or (len(rest) == 1 and isinstance(rest[0], ast.Return) and is_neg(rest[0].value))):
                    continue
                rets = [n for n in walk_no_nested(st) if isinstance(n, ast.Return)]
                pos = [n for n in rets if not is_neg(n.value)]
                neg = [n for n in rets if is_neg(n.value)]
                if not pos:
                    continue
                total += 1
                if neg and (rel, q.split("#")[0]) not in EARLY_NEG_AUDIT:
                    bad.append(f"{q}: `return {norm(neg[0].value) if neg[0].value is not None else ''}` at line {neg[0].lineno} inside the search loop")
        if total:
            ctx.ob(rule, f"{rel}:<module>", f"{total} trailing search loops return their negative result only after the loop", not bad, "; ".join(bad[:3]))


NEW5 = [early_negative]
GENERIC.extend(NEW5)


# ---------------------------------------------------------------------------
# OPT-UNUSED: an optional parameter that the function never reads
# ---------------------------------------------------------------------------
_POSITIVE["OPT-UNUSED"] = '''
def _add_gvar(font, masterModel, master_ttfs, tolerance=0.5, optimize=True):
    for glyph in font.getGlyphOrder():
        build(glyph, masterModel, master_ttfs, optimize=optimize)
'''
# (module, function, parameter) -> why ignoring the option is accepted (each read)
OPT_UNUSED_AUDIT = {
    ("colorLib/geometry.py", "Circle.inside", "tolerance"): "the body uses the module constant the default comes from; a caller-supplied tolerance is ignored (not in a claimed property's anchors)",
    ("designspaceLib/__init__.py", "BaseDocReader._readSingleInstanceElement", "makeGlyphs"): "legacy switches kept for signature compatibility; the reader always reads everything",
    ("designspaceLib/__init__.py", "BaseDocReader._readSingleInstanceElement", "makeKerning"): "as makeGlyphs",
    ("designspaceLib/__init__.py", "BaseDocReader._readSingleInstanceElement", "makeInfo"): "as makeGlyphs",
    ("misc/psCharStrings.py", "getIntEncoder.encodeInt", "unpack"): "default-argument binding of globals for speed; unpack is simply not needed by the encoder",
    ("otlLib/optimize/gpos.py", "_classDef_bytes", "coverage"): "size estimate does not distinguish coverage from class definitions; estimate only, never written",
    ("ttLib/tables/_a_v_a_r.py", "table__a_v_a_r.renormalizeAxisLimits", "font"): "kept for API compatibility (the segment maps live on the table itself)",
    ("ufoLib/__init__.py", "UFOWriter.removeImage", "validate"): "marked `XXX remove unused 'validate'?` upstream; nothing to validate when removing",
    ("ufoLib/glifLib.py", "_readGlyphFromTreeFormat2", "formatMinor"): "no minor-version-specific behaviour exists yet for GLIF 2",
    ("ufoLib/glifLib.py", "_writeGlyphToBytes", "writer"): "legacy parameter of the XMLWriter-based implementation; the etree writer ignores it",
    ("varLib/avar/plan.py", "planOpticalSizeAxis", "sanitize"): "sibling planners sanitize; the opsz planner does not (upstream behaviour, not in a claimed property's anchors)",
    ("varLib/models.py", "VariationModel.interpolateFromMasters", "round"): "this path applies master scalars to master values and never forms deltas, so there is nothing to round; the keyword is accepted for symmetry with interpolateFromMastersAndScalars",
}


def opt_unused(ctx, repo, scope=("",), rule="OPT-UNUSED", _self=False):
    ctx.rule(rule, "an optional parameter (one with a default) of a function that is not an interface stub or one of several same-named methods is read somewhere in the body; an option that is accepted and ignored silently drops what the caller asked for (the usual way a forwarded keyword gets lost)", floor=1)
    if not _self:
        _selfcheck(ctx, rule, opt_unused)
    method_names = {}
    for rel in repo.rels():
        for q, c in repo.mod(rel).classes.items():
            for mn in c.methods:
                method_names[mn] = method_names.get(mn, 0) + 1
    for rel in sorted(repo.rels()):
        if not _in_scope(rel, scope):
            continue
        m = repo.mod(rel)
        total = 0
        bad = []
        for q, f in sorted(m.funcs.items()):
            fn = f.node
            if not isinstance(fn, ast.FunctionDef) or fn.decorator_list or fn.name.startswith("__"):
                continue
            if f.cls is not None and method_names.get(fn.name, 0) > 1:
                continue  # one of several same-named methods: the signature is an interface
            a = fn.args
            nd = len(a.defaults)
            opts = [x.arg for x in a.args[len(a.args) - nd:]] + [x.arg for x, d in zip(a.kwonlyargs, a.kw_defaults) if d is not None]
            if not opts:
                continue
            if all(isinstance(s, (ast.Pass, ast.Raise)) or (isinstance(s, ast.Expr) and isinstance(s.value, ast.Constant)) for s in fn.body):
                continue
            if any(isinstance(n, ast.Call) and isinstance(n.func, ast.Name) and n.func.id in ("locals", "vars") for n in ast.walk(fn)):
                continue
            # a read that only validates the option (`if tolerance < 0: raise ...`, `assert ...`) does not put it to use
            validating = set()
            for st in ast.walk(fn):
                # only a range / type test of the option's own value: one name, compared with constants
                if isinstance(st, ast.If) and st.body and all(isinstance(b, ast.Raise) for b in st.body) and not st.orelse:
                    names = {x.id for x in ast.walk(st.test) if isinstance(x, ast.Name)} - {"isinstance", "int", "float", "str", "bool", "bytes", "tuple", "list"}
                    if len(names) == 1 and any(isinstance(x, ast.Compare) and isinstance(x.ops[0], (ast.Lt, ast.LtE, ast.Gt, ast.GtE)) for x in ast.walk(st.test)) or len(names) == 1 and any(isinstance(x, ast.Call) and isinstance(x.func, ast.Name) and x.func.id == "isinstance" for x in ast.walk(st.test)):
                        validating |= {id(x) for x in ast.walk(st.test)}
                        validating |= {id(x) for b in st.body for x in ast.walk(b)}
            used = {n.id for n in ast.walk(fn) if isinstance(n, ast.Name) and isinstance(n.ctx, (ast.Load, ast.Del)) and id(n) not in validating}
            for o in opts:
                if o.startswith("_"):
                    continue
                total += 1
                if o in used:
                    continue
                key = (rel, q.split("#")[0], o)
                if key in OPT_UNUSED_AUDIT:
                    ctx.ob(rule, f"{rel}:{q}", f"{o} (audited: {OPT_UNUSED_AUDIT[key]})", True)
                else:
                    bad.append(f"{q}: option `{o}` is never read")
        if total:
            ctx.ob(rule, f"{rel}:<module>", f"{total} optional parameters are each read by their function", not bad, "; ".join(bad[:3]))


NEW6 = [opt_unused]
GENERIC.extend(NEW6)


# ---------------------------------------------------------------------------
# KW-FWD: an option the caller itself received is not handed on to a callee that takes the same option
# ---------------------------------------------------------------------------
_POSITIVE["KW-FWD"] = '''
class GLIFPointPen:
    def __init__(self, element, formatVersion=None, identifiers=None, validate=True):
        self.formatVersion = formatVersion

def _writeGlyphToBytes(glyphName, glyphObject=None, drawPointsFunc=None, formatVersion=None, validate=True):
    outline = make(formatVersion)
    pen = GLIFPointPen(outline, identifiers=set(), validate=validate)
    drawPointsFunc(pen)
'''
# (module, caller, callee, option) -> why the option is deliberately not handed on (each read)
KW_FWD_AUDIT = {
    ("cffLib/__init__.py", "CFFFontSet.compile", "Index", "isCFF2"): "the font-name INDEX exists only in CFF 1 (the call sits under `if not isCFF2`), where the default layout is right",
    ("misc/psLib.py", "PSTokenizer.__init__", "tobytes", "encoding"): "the buffer is forced to bytes with the default ascii; `encoding` is the tokenizer's decoding of tokens, stored on self",
    ("ttLib/tables/TupleVariation.py", "TupleVariation.compileDeltaValues_", "TupleVariation.encodeDeltaRunAsBytes_", "optimizeSize"): "called only in the optimizeSize arm, where the callee's default True is the value",
    ("ttLib/tables/TupleVariation.py", "TupleVariation.compileDeltaValues_", "TupleVariation.encodeDeltaRunAsWords_", "optimizeSize"): "as encodeDeltaRunAsBytes_",
    ("ttLib/tables/TupleVariation.py", "TupleVariation.compileDeltaValues_", "TupleVariation.encodeDeltaRunAsLongs_", "optimizeSize"): "as encodeDeltaRunAsBytes_",
    ("ttLib/tables/_n_a_m_e.py", "table__n_a_m_e.addMultilingualName", "self._findUnusedNameID", "minNameID"): "latent: the documented lower bound is not honoured for minNameID > 256 (the callee's default); every in-tree caller passes 0 or 256 (cross-reference in DESIGN §5, not in a claimed property's anchors)",
    ("ttLib/tables/otConverters.py", "AATLookup.__init__", "Table", "description"): "the inner Value converter is synthetic and has no description of its own",
    ("ttLib/tables/otConverters.py", "STXHeader.__init__", "AATLookup", "description"): "synthetic inner lookups, no description of their own",
    ("ttLib/ttFont.py", "TTFont._saveXML", "self._tableToXML", "quiet"): "`quiet` is deprecated and only triggers a deprecation warning at the outermost call",
    ("ttLib/ttFont.py", "TTFont.importXML", "xmlReader.XMLReader", "quiet"): "as _saveXML: deprecated no-op, warned about once",
    ("ufoLib/glifLib.py", "GlyphSet.__init__", "self.rebuildContents", "validateRead"): "latent: rebuildContents defaults to False instead of None, so the constructor never validates contents.plist even with validateRead=True (upstream behaviour; validation is not a claimed clause; cross-reference in DESIGN §5)",
    ("varLib/interpolatablePlot.py", "InterpolatablePlot.draw_glyph", "self.draw_dot", "x"): "x / y of draw_glyph are the page origin, applied by a cairo translate; the helpers draw in glyph space",
    ("varLib/interpolatablePlot.py", "InterpolatablePlot.draw_glyph", "self.draw_dot", "y"): "as x",
    ("varLib/interpolatablePlot.py", "InterpolatablePlot.draw_glyph", "self.draw_arrow", "x"): "as draw_dot",
    ("varLib/interpolatablePlot.py", "InterpolatablePlot.draw_glyph", "self.draw_arrow", "y"): "as draw_dot",
    ("varLib/interpolatablePlot.py", "InterpolatablePlot.draw_glyph", "self.draw_circle", "x"): "as draw_dot",
    ("varLib/interpolatablePlot.py", "InterpolatablePlot.draw_glyph", "self.draw_circle", "y"): "as draw_dot",
}


def _optional_params(a):
    allp = [x.arg for x in a.posonlyargs + a.args]
    nd = len(a.defaults)
    return set(allp[len(allp) - nd:] if nd else []) | {x.arg for x, d in zip(a.kwonlyargs, a.kw_defaults) if d is not None}


def kw_forward(ctx, repo, scope=("",), rule="KW-FWD", _self=False):
    ctx.rule(rule, "when a function takes an option (a parameter with a default) and calls a function or constructor of this code base that takes an option of the same name, it hands its own value on (positionally or by keyword); otherwise the callee silently runs with its default whatever the caller asked for -- the dropped-keyword slip", floor=1)
    if not _self:
        _selfcheck(ctx, rule, kw_forward)

    def callee_sig(mod, call, f):
        fn = call.func
        if isinstance(fn, ast.Attribute) and isinstance(fn.value, ast.Name) and fn.value.id in ("self", "cls") and f.cls is not None:
            m_ = repo.lookup_method(f.cls, fn.attr) if hasattr(repo, "lookup_method") else f.cls.methods.get(fn.attr)
            return m_.node if m_ else None
        if isinstance(fn, ast.Name) and not hasattr(repo, "resolve_expr"):
            c_ = mod.classes.get(fn.id)
            if c_ is not None:
                i_ = c_.methods.get("__init__")
                return i_.node if i_ else None
            f_ = mod.funcs.get(fn.id)
            return f_.node if f_ else None
        if not hasattr(repo, "resolve_expr"):
            return None
        r = repo.resolve_expr(mod, fn)
        if r is None:
            return None
        kind, obj = r
        if kind == "func":
            return obj.node
        if kind == "class":
            i_ = repo.lookup_method(obj, "__init__")
            return i_.node if i_ else None
        return None

    for rel in sorted(repo.rels()):
        if not _in_scope(rel, scope):
            continue
        m = repo.mod(rel)
        total = 0
        bad = []
        for q, f in sorted(m.funcs.items()):
            fn = f.node
            if not isinstance(fn, ast.FunctionDef):
                continue
            params = {p for p in _optional_params(fn.args) if not p.startswith("_")}
            if not params:
                continue
            for c in calls_in(fn, nested=False):
                if any(isinstance(x, ast.Starred) for x in c.args) or any(k.arg is None for k in c.keywords):
                    continue
                sig = callee_sig(m, c, f)
                if sig is None or sig is fn or not isinstance(sig, ast.FunctionDef):
                    continue
                allp = [x.arg for x in sig.args.posonlyargs + sig.args.args]
                if allp and allp[0] in ("self", "cls"):
                    allp = allp[1:]
                shared = _optional_params(sig.args) & params
                if not shared:
                    continue
                passed = set(allp[: len(c.args)]) | {k.arg for k in c.keywords}
                for o in sorted(shared):
                    total += 1
                    if o in passed:
                        continue
                    key = (rel, q.split("#")[0], norm(c.func), o)
                    if key in KW_FWD_AUDIT:
                        ctx.ob(rule, f"{rel}:{q}", f"{norm(c.func)}(... {o} not forwarded; audited: {KW_FWD_AUDIT[key]})", True)
                    else:
                        bad.append(f"{q}: {norm(c.func)}(...) at line {c.lineno} does not receive the caller's `{o}`")
        if total:
            ctx.ob(rule, f"{rel}:<module>", f"{total} same-named options are handed on to the callee", not bad, "; ".join(bad[:3]))


NEW7 = [kw_forward]
GENERIC.extend(NEW7)


# ---------------------------------------------------------------------------
# EMPTY-COLL: a work-list's "seen" set that is tested but never filled
# ---------------------------------------------------------------------------
_POSITIVE["EMPTY-COLL"] = '''
def closure_glyphs(self, s):
    glyphs = s.glyphs
    covered = set()
    new = set(glyphs)
    while new:
        oldNew = new
        new = set()
        for glyphName in oldNew:
            if glyphName in covered:
                continue
            for comp in self.records[glyphName].components:
                glyphs.add(comp.glyphName)
                if comp.glyphName not in covered:
                    new.add(comp.glyphName)
'''
EMPTY_COLL_AUDIT = {}


def empty_collection(ctx, repo, scope=("",), rule="EMPTY-COLL", _self=False):
    ctx.rule(rule, "a local bound once to an empty set / list / dict and then only tested (`x in c`, `not in`, iteration, len, truthiness) is filled somewhere: by a mutating method, a subscript store, an augmented assignment, or by being handed to a call / stored / returned; a 'seen' set that nothing adds to makes every membership test vacuous (a closure loop over a cyclic graph then never terminates, a de-duplication never de-duplicates)", floor=1)
    if not _self:
        _selfcheck(ctx, rule, empty_collection)
    for rel in sorted(repo.rels()):
        if not _in_scope(rel, scope):
            continue
        m = repo.mod(rel)
        total = 0
        bad = []
        for q, f in sorted(m.funcs.items()):
            fn = f.node
            if isinstance(fn, ast.Lambda):
                continue
            binds = {}
            for n in walk_no_nested(fn):
                if isinstance(n, ast.Assign) and len(n.targets) == 1 and isinstance(n.targets[0], ast.Name):
                    binds.setdefault(n.targets[0].id, []).append(n.value)
                elif isinstance(n, (ast.Assign, ast.AugAssign, ast.AnnAssign, ast.For, ast.With, ast.comprehension, ast.NamedExpr)):
                    tg = n.targets if isinstance(n, ast.Assign) else [getattr(n, "target", None)] if not isinstance(n, ast.With) else [i.optional_vars for i in n.items]
                    for t in tg:
                        if t is not None:
                            for x in ast.walk(t):
                                if isinstance(x, ast.Name) and isinstance(x.ctx, ast.Store):
                                    binds.setdefault(x.id, []).append(None)
            cands = [k for k, v in binds.items() if len(v) == 1 and v[0] is not None and _empty_container(v[0])]
            if not cands:
                continue
            # any use that could fill the container or let it escape; nested functions count (closures may fill it)
            for name in cands:
                reads = [x for x in ast.walk(fn) if isinstance(x, ast.Name) and x.id == name and isinstance(x.ctx, ast.Load)]
                if not reads:
                    continue
                total += 1
                passive = True
                tested = False
                for x in reads:
                    p = parent(x)
                    if isinstance(p, ast.Compare) and any(c is x for c in p.comparators) and all(isinstance(o, (ast.In, ast.NotIn)) for o in p.ops):
                        tested = True
                        continue
                    if isinstance(p, (ast.For, ast.comprehension)) and p.iter is x:
                        continue
                    if isinstance(p, ast.Call) and isinstance(p.func, ast.Name) and p.func.id in ("len", "bool", "sorted", "list", "tuple", "set", "frozenset", "any", "all") and x in p.args:
                        gp = parent(p)
                        if isinstance(gp, (ast.Return, ast.Assign, ast.Call, ast.Yield)) and p.func.id not in ("len", "bool", "any", "all"):
                            passive = False  # a copy escapes; irrelevant for emptiness but keep conservative
                        continue
                    if isinstance(p, (ast.If, ast.While, ast.IfExp)) and p.test is x or isinstance(p, ast.UnaryOp) and isinstance(p.op, ast.Not) or isinstance(p, ast.BoolOp):
                        continue
                    passive = False
                    break
                if passive and tested:
                    key = (rel, q.split("#")[0], name)
                    if key in EMPTY_COLL_AUDIT:
                        ctx.ob(rule, f"{rel}:{q}", f"{name} (audited: {EMPTY_COLL_AUDIT[key]})", True)
                    else:
                        bad.append(f"{q}: `{name}` starts empty, is tested for membership, and nothing ever adds to it")
        if total:
            ctx.ob(rule, f"{rel}:<module>", f"{total} locals that start as empty containers are filled or handed on somewhere", not bad, "; ".join(bad[:3]))


NEW8 = [empty_collection]
GENERIC.extend(NEW8)


# ---------------------------------------------------------------------------
# OVERWRITE: two consecutive stores to the same target
# ---------------------------------------------------------------------------
_POSITIVE["OVERWRITE"] = '''
class FlavorData:
    def __init__(self, data):
        self.majorVersion = data.majorVersion
        self.majorVersion = data.minorVersion
        self.metaData = data.metaData
'''
OVERWRITE_AUDIT = {}


def overwrite(ctx, repo, scope=("",), rule="OVERWRITE", _self=False):
    ctx.rule(rule, "two consecutive assignments never store to the same target unless the second reads it: the first value is lost before anything can see it, and the field the second line was meant for (the next one of a block of field copies) is never set", floor=1)
    if not _self:
        _selfcheck(ctx, rule, overwrite)
    for rel in sorted(repo.rels()):
        if not _in_scope(rel, scope):
            continue
        m = repo.mod(rel)
        total = 0
        bad = []
        for node in ast.walk(m.tree):
            for fld in ("body", "orelse", "finalbody"):
                blk = getattr(node, fld, None)
                if not isinstance(blk, list):
                    continue
                for a, b in zip(blk, blk[1:]):
                    if isinstance(a, ast.Assign) and isinstance(b, ast.Assign) and len(a.targets) == 1 and len(b.targets) == 1 and isinstance(a.targets[0], (ast.Attribute, ast.Subscript, ast.Name)):
                        total += 1
                        t = norm(a.targets[0])
                        if t != norm(b.targets[0]) or t in norm(b.value):
                            continue
                        if (rel, t) in OVERWRITE_AUDIT:
                            continue
                        bad.append(f"line {a.lineno}: `{norm(a)[:50]}` is overwritten by `{norm(b)[:50]}`")
        if total:
            ctx.ob(rule, f"{rel}:<module>", f"{total} pairs of consecutive assignments store to different targets", not bad, "; ".join(bad[:3]))


NEW9 = [overwrite]
GENERIC.extend(NEW9)


# ---------------------------------------------------------------------------
# GUARD-OTHER: `a is None or <something about b>` next to `b is None or ...`
# ---------------------------------------------------------------------------
_POSITIVE["GUARD-OTHER"] = '''
def is_really_zero(rec):
    v1, v2 = rec.Value1, rec.Value2
    return (v1 is None or v1.getEffectiveFormat() == 0) and (
        v2 is None or v1.getEffectiveFormat() == 0
    )
'''


def guard_other(ctx, repo, scope=("",), rule="GUARD-OTHER", _self=False):
    ctx.rule(rule, "in `x is None or <test>` (or `x is not None and <test>`) the guarded test is about x; when it never mentions x but dereferences another name that has its own None-guard in the same expression, the second clause is a copy of the first with only half of it renamed", floor=1)
    if not _self:
        _selfcheck(ctx, rule, guard_other)
    for rel in sorted(repo.rels()):
        if not _in_scope(rel, scope):
            continue
        m = repo.mod(rel)
        total = 0
        bad = []
        for top in ast.walk(m.tree):
            if not isinstance(top, ast.BoolOp) or isinstance(parent(top), ast.BoolOp):
                continue
            guards = []  # (guarded name text, rest expressions)
            for b in ast.walk(top):
                if not isinstance(b, ast.BoolOp) or len(b.values) < 2:
                    continue
                first = b.values[0]
                if isinstance(first, ast.Compare) and len(first.ops) == 1 and isinstance(first.comparators[0], ast.Constant) and first.comparators[0].value is None and (isinstance(b.op, ast.Or) and isinstance(first.ops[0], ast.Is) or isinstance(b.op, ast.And) and isinstance(first.ops[0], ast.IsNot)) and isinstance(first.left, (ast.Name, ast.Attribute)):
                    guards.append((norm(first.left), b.values[1:], b))
            if len(guards) < 2:
                continue
            names = {g[0] for g in guards}
            for gname, rest, b in guards:
                total += 1
                txt = [norm(r) for r in rest]
                mentions_self = any(isinstance(x, (ast.Name, ast.Attribute)) and norm(x) == gname for r in rest for x in ast.walk(r))
                others = {o for o in names - {gname} if any(isinstance(x, ast.Attribute) and norm(x.value) == o for r in rest for x in ast.walk(r))}
                if not mentions_self and others:
                    bad.append(f"line {b.lineno}: `{norm(b)[:70]}` guards {gname} but tests {sorted(others)[0]}")
        if total:
            ctx.ob(rule, f"{rel}:<module>", f"{total} None-guarded clauses test the name they guard", not bad, "; ".join(bad[:3]))


NEW10 = [guard_other]
GENERIC.extend(NEW10)


# ---------------------------------------------------------------------------
# THRESH-MIX: one function tests the same value against the same threshold with >= in one place and > in another
# ---------------------------------------------------------------------------
_POSITIVE["THRESH-MIX"] = '''
def decompile(self, data, version):
    if version >= 3.0:
        head = data[:8]
    body = data
    if version > 3.0:
        body = data[8:]
'''
THRESH_MIX_AUDIT = {
    ("pens/basePen.py", "BasePen.qCurveTo", "n", 0): "`assert n >= 0` states the precondition, `if n > 0` separates the empty case: different questions",
    ("tfmLib.py", "TFM._read", "cmd.skip_byte", 128): "TFM lig/kern programs: skip_byte > 128 marks an indirect start / boundary entry, >= 128 ends a program (TeX: The Program, sections 545, 573)",
}


def thresh_mix(ctx, repo, scope=("",), rule="THRESH-MIX", _self=False):
    ctx.rule(rule, "within one function a value is compared with one numeric threshold consistently: `x >= k` in one place and `x > k` in another (or `<` and `<=`) treat the boundary value k differently at two sites that are meant to cooperate (a header read under `version >= 3.0` and the matching skip under `version > 3.0`)", floor=1)
    if not _self:
        _selfcheck(ctx, rule, thresh_mix)
    from ..consteval import try_fold

    for rel in sorted(repo.rels()):
        if not _in_scope(rel, scope):
            continue
        m = repo.mod(rel)
        total = 0
        bad = []
        for q, f in sorted(m.funcs.items()):
            if isinstance(f.node, ast.Lambda):
                continue
            seen = {}
            for c in walk_no_nested(f.node):
                if isinstance(c, ast.Compare) and len(c.ops) == 1 and isinstance(c.ops[0], (ast.Gt, ast.GtE, ast.Lt, ast.LtE)):
                    k = try_fold(c.comparators[0]) if not _self else (c.comparators[0].value if isinstance(c.comparators[0], ast.Constant) else None)
                    if isinstance(k, (int, float)) and not isinstance(k, bool):
                        seen.setdefault((norm(c.left), k), set()).add(type(c.ops[0]).__name__)
            for (l, k), ops in sorted(seen.items(), key=str):
                total += 1
                if ({"Gt", "GtE"} <= ops or {"Lt", "LtE"} <= ops) and (rel, q.split("#")[0], l, k) not in THRESH_MIX_AUDIT:
                    bad.append(f"{q}: `{l}` is compared with {k} using {sorted(ops)}")
        if total:
            ctx.ob(rule, f"{rel}:<module>", f"{total} (value, threshold) pairs are compared with one boundary convention per function", not bad, "; ".join(bad[:3]))


NEW11 = [thresh_mix]
GENERIC.extend(NEW11)


# ---------------------------------------------------------------------------
# ELIF-OVERLAP / RSTRIP-SET
# ---------------------------------------------------------------------------
_POSITIVE["ELIF-OVERLAP"] = '''
_round = {"ascender", "winDescent", "lowestRecPPEM"}
_nonNegative = {"winDescent", "lowestRecPPEM", "weightClass"}
def convert(attr, value):
    if attr in _round:
        value = round(value)
    elif attr in _nonNegative:
        value = abs(value)
    return value
'''
_POSITIVE["RSTRIP-SET"] = '''
def intOrFloat(num):
    if int(num) == num:
        return "%d" % num
    return ("%f" % num).rstrip("0.")
'''


def elif_overlap(ctx, repo, scope=("",), rule="ELIF-OVERLAP", _self=False):
    ctx.rule(rule, "when successive arms of one if / elif chain test membership of the same value in two module-level constant collections that share members, the shared members only ever take the first arm; conversions that are meant to stack (round, then make non-negative) must be separate `if` statements", floor=1)
    if not _self:
        _selfcheck(ctx, rule, elif_overlap)
    from ..consteval import try_fold

    for rel in sorted(repo.rels()):
        if not _in_scope(rel, scope):
            continue
        m = repo.mod(rel)
        total = 0
        bad = []

        def coll(e):
            if isinstance(e, ast.Name) and e.id in m.assigns:
                v = m.assigns[e.id]
                if isinstance(v, (ast.Set, ast.List, ast.Tuple)) and all(isinstance(x, ast.Constant) for x in v.elts):
                    return {x.value for x in v.elts}
                if isinstance(v, ast.Call) and isinstance(v.func, ast.Name) and v.func.id in ("set", "frozenset") and v.args and isinstance(v.args[0], (ast.Set, ast.List, ast.Tuple)) and all(isinstance(x, ast.Constant) for x in v.args[0].elts):
                    return {x.value for x in v.args[0].elts}
                if isinstance(v, ast.Dict) and all(isinstance(k, ast.Constant) for k in v.keys):
                    return {k.value for k in v.keys}
            return None

        for node in ast.walk(m.tree):
            if not isinstance(node, ast.If) or (isinstance(parent(node), ast.If) and parent(node).orelse == [node]):
                continue
            arms = []
            cur = node
            while isinstance(cur, ast.If):
                t = cur.test
                if isinstance(t, ast.Compare) and len(t.ops) == 1 and isinstance(t.ops[0], ast.In):
                    arms.append((norm(t.left), norm(t.comparators[0]), coll(t.comparators[0]), cur))
                else:
                    arms.append((None, None, None, cur))
                cur = cur.orelse[0] if len(cur.orelse) == 1 else None
            for i in range(len(arms)):
                for j in range(i + 1, len(arms)):
                    a, b = arms[i], arms[j]
                    if a[0] is None or a[0] != b[0] or a[2] is None or b[2] is None:
                        continue
                    total += 1
                    common = a[2] & b[2]
                    # an arm that returns / raises ends the matter for its members: overlap is then a priority order
                    ends = all(isinstance(s, (ast.Return, ast.Raise, ast.Continue, ast.Break)) for s in a[3].body[-1:])
                    if common and not ends:
                        bad.append(f"line {b[3].lineno}: `{b[0]} in {b[1]}` is an elif of `in {a[1]}`; {sorted(map(str, common))[:3]} are in both and never reach it")
        if total:
            ctx.ob(rule, f"{rel}:<module>", f"{total} pairs of membership arms over constant collections are disjoint", not bad, "; ".join(bad[:3]))


def rstrip_set(ctx, repo, scope=("",), rule="RSTRIP-SET", _self=False):
    ctx.rule(rule, "a formatted number is trimmed with `.rstrip('0').rstrip('.')`, never with a character set that holds both '0' and '.': rstrip('0.') keeps stripping past the decimal point and turns 490.000000 into 49", floor=1)
    if not _self:
        _selfcheck(ctx, rule, rstrip_set)
    for rel in sorted(repo.rels()):
        if not _in_scope(rel, scope):
            continue
        m = repo.mod(rel)
        total = 0
        bad = []
        for c in ast.walk(m.tree):
            if isinstance(c, ast.Call) and isinstance(c.func, ast.Attribute) and c.func.attr in ("rstrip", "strip") and c.args and isinstance(c.args[0], ast.Constant) and isinstance(c.args[0].value, str):
                total += 1
                sset = c.args[0].value
                if "0" in sset and "." in sset:
                    bad.append(f"line {c.lineno}: {norm(c)[:60]}")
        if total:
            ctx.ob(rule, f"{rel}:<module>", f"{total} strip calls with a literal character set: none mixes '0' and '.'", not bad, "; ".join(bad[:3]))


NEW12 = [elif_overlap, rstrip_set]
GENERIC.extend(NEW12)


# ---------------------------------------------------------------------------
# FAMILY-ALL: a conjunction of `is None` tests over a family of sibling locals covers the whole family
# ---------------------------------------------------------------------------
_POSITIVE["FAMILY-ALL"] = '''
def asFea(self):
    xPlaDevice, yPlaDevice = self.xPlaDevice, self.yPlaDevice
    xAdvDevice, yAdvDevice = self.xAdvDevice, self.yAdvDevice
    if xPlaDevice is None and yPlaDevice is None and xAdvDevice is None:
        return "<%s %s>" % (self.x, self.y)
    return "<%s %s %s %s %s %s>" % (self.x, self.y, xPlaDevice, yPlaDevice, xAdvDevice, yAdvDevice)
'''


def _family(name):
    import re

    parts = re.findall(r"[A-Z][a-z0-9]+|[a-z0-9]+", name)
    return parts[-1].lower() if len(parts) >= 2 and len(parts[-1]) >= 4 else None


def family_all(ctx, repo, scope=("",), rule="FAMILY-ALL", _self=False):
    ctx.rule(rule, "a conjunction of three or more `x is None` / `x is not None` tests that names at least two locals of one family (same last name component: xPlaDevice, yPlaDevice, xAdvDevice, yAdvDevice) names every local of that family the function has; a short form chosen because 'all devices are absent' must look at all of them", floor=1)
    if not _self:
        _selfcheck(ctx, rule, family_all)
    for rel in sorted(repo.rels()):
        if not _in_scope(rel, scope):
            continue
        m = repo.mod(rel)
        total = 0
        bad = []
        for q, f in sorted(m.funcs.items()):
            fn = f.node
            if isinstance(fn, ast.Lambda):
                continue
            locals_ = None
            for b in walk_no_nested(fn):
                if not (isinstance(b, ast.BoolOp) and isinstance(b.op, ast.And) and len(b.values) >= 3):
                    continue
                names = [v.left.id for v in b.values if isinstance(v, ast.Compare) and len(v.ops) == 1 and isinstance(v.ops[0], (ast.Is, ast.IsNot)) and isinstance(v.left, ast.Name) and isinstance(v.comparators[0], ast.Constant) and v.comparators[0].value is None]
                fams = {}
                for nm in names:
                    if _family(nm):
                        fams.setdefault(_family(nm), set()).add(nm)
                for k, have in sorted(fams.items()):
                    if len(have) < 2:
                        continue
                    if locals_ is None:
                        locals_ = {x.id for x in walk_no_nested(fn) if isinstance(x, ast.Name) and isinstance(x.ctx, ast.Store)} | {a.arg for a in fn.args.args}
                    total += 1
                    missing = {nm for nm in locals_ if _family(nm) == k} - have
                    if missing:
                        bad.append(f"{q}: the test over {sorted(have)} leaves out {sorted(missing)}")
        if total:
            ctx.ob(rule, f"{rel}:<module>", f"{total} None-conjunctions over a family of locals cover the family", not bad, "; ".join(bad[:3]))


NEW13 = [family_all]
GENERIC.extend(NEW13)

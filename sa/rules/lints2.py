"""Generic lints added in the third build session (after seed round 4).  Each has an expected count of
zero on a healthy tree and carries a built-in positive example the detector must report on every run.

FIRST-ONLY     `if k not in d: d[k] = []` whose append sits inside the if: only the first item per key is kept
NONE-SENT      an accumulator initialised to None and later combined in place (set algebra / arithmetic) is
               (re)initialised under a truthiness test: an empty / zero accumulator is mistaken for 'unset'
ACC-RESET      `v = <non-trivial prefix>` followed by an if whose one arm extends v (`v += ...`) and whose
               other arm overwrites it (`v = <expr without v>`): the prefix is lost on that arm
PRESENCE-KIND  one class tests the presence of the same attribute with hasattr(self, "a") in one place and
               with the truthiness of getattr(self, "a", None) in another: empty-but-present differs
NUM-FMT        `if x:` guarding the serialisation of x through a number formatter: 0 is a value
"""

from __future__ import annotations

import ast

from ..core import norm, parent, walk_no_nested
from . import consistency
from .consistency import _selfcheck, _POSITIVE, GENERIC

_POSITIVE["FIRST-ONLY"] = '''
def collect(records):
    by_tag = {}
    for r in records:
        if r.tag not in by_tag:
            by_tag[r.tag] = []
            by_tag[r.tag].append(r.value)
    return by_tag
'''
_POSITIVE["NONE-SENT"] = '''
def common(sets):
    acc = None
    for s in sets:
        if not acc:
            acc = set(s)
        else:
            acc.intersection_update(s)
    return acc
'''
_POSITIVE["ACC-RESET"] = '''
def show(self):
    res = "enum " if self.enumerated else ""
    if self.second:
        res = "pos {} {}".format(self.a, self.b)
    else:
        res += "pos {}".format(self.a)
    return res
'''
_POSITIVE["PRESENCE-KIND"] = '''
class G:
    def compile(self):
        have = hasattr(self, "program")
        return have
    def toXML(self, writer):
        have = bool(getattr(self, "program", None))
        return have
'''
_POSITIVE["NUM-FMT"] = '''
def write(label, el):
    if label.linkedUserValue:
        el.attrib["linkeduservalue"] = intOrFloat(label.linkedUserValue)
'''

MUT = ("append", "add", "extend", "update", "insert")


def _in_scope(rel, scope):
    return rel.startswith(tuple(scope))


def _mutations(stmts, target):
    out = []
    for st in stmts:
        for n in ast.walk(st):
            if isinstance(n, ast.Call) and isinstance(n.func, ast.Attribute) and n.func.attr in MUT and norm(n.func.value) == target:
                out.append(n)
            if isinstance(n, (ast.Assign, ast.AugAssign)):
                for t in n.targets if isinstance(n, ast.Assign) else [n.target]:
                    if isinstance(t, ast.Subscript) and norm(t.value) == target:
                        out.append(n)
                    if isinstance(n, ast.AugAssign) and norm(t) == target:
                        out.append(n)
    return out


def _empty_container(v):
    if isinstance(v, (ast.List, ast.Set)) and not v.elts or isinstance(v, ast.Dict) and not v.keys:
        return True
    return isinstance(v, ast.Call) and norm(v.func) in ("set", "list", "dict", "OrderedDict", "collections.OrderedDict") and not v.args and not v.keywords


def first_only(ctx, repo, scope=("",), rule="FIRST-ONLY", _self=False):
    ctx.rule(rule, "the create-on-first-use idiom `if k not in d: d[k] = []` is followed by the insertion for every item; an insertion that sits only inside the `if` keeps just the first item per key", floor=1)
    if not _self:
        _selfcheck(ctx, rule, first_only)
    for rel in sorted(repo.rels()):
        if not _in_scope(rel, scope):
            continue
        m = repo.mod(rel)
        total = 0
        bad = []
        for n in ast.walk(m.tree):
            if not (isinstance(n, ast.If) and isinstance(n.test, ast.Compare) and len(n.test.ops) == 1 and isinstance(n.test.ops[0], ast.NotIn) and not n.orelse):
                continue
            tgt = f"{norm(n.test.comparators[0])}[{norm(n.test.left)}]"
            if not any(isinstance(s, ast.Assign) and norm(s.targets[0]) == tgt and _empty_container(s.value) for s in n.body):
                continue
            total += 1
            inside = _mutations(n.body, tgt)
            p = parent(n)
            after = []
            for fld in ("body", "orelse", "finalbody"):
                blk = getattr(p, fld, None)
                if isinstance(blk, list) and any(x is n for x in blk):
                    i = next(k for k, x in enumerate(blk) if x is n)
                    after = blk[i + 1 :]
            if inside and not _mutations(after, tgt):
                bad.append(f"{tgt} (line of `if {norm(n.test)}`)")
        if total:
            ctx.ob(rule, f"{rel}:<module>", f"{total} create-on-first-use sites insert for every item", not bad, "" if not bad else "insertion only under the `not in` test: " + "; ".join(bad))


SET_OPS = ("intersection_update", "difference_update", "update", "intersection", "difference", "add", "discard", "append", "extend")


def none_sentinel(ctx, repo, scope=("",), rule="NONE-SENT", _self=False):
    ctx.rule(rule, "an accumulator that starts as None and is later combined in place (set algebra, list growth, arithmetic) is initialised under `is None`, never under a truthiness test: an empty set / zero is a legitimate accumulated value, not 'unset'", floor=1)
    if not _self:
        _selfcheck(ctx, rule, none_sentinel)
    for rel in sorted(repo.rels()):
        if not _in_scope(rel, scope):
            continue
        m = repo.mod(rel)
        total = 0
        bad = []
        for q, f in sorted(m.funcs.items()):
            fn = f.node
            none_init = {n.targets[0].id for n in walk_no_nested(fn) if isinstance(n, ast.Assign) and len(n.targets) == 1 and isinstance(n.targets[0], ast.Name) and isinstance(n.value, ast.Constant) and n.value.value is None}
            for x in sorted(none_init):
                acc = False
                for n in walk_no_nested(fn):
                    if isinstance(n, ast.Call) and isinstance(n.func, ast.Attribute) and isinstance(n.func.value, ast.Name) and n.func.value.id == x and n.func.attr in SET_OPS:
                        acc = True
                    if isinstance(n, ast.AugAssign) and isinstance(n.target, ast.Name) and n.target.id == x:
                        acc = True
                if not acc:
                    continue
                total += 1
                for n in walk_no_nested(fn):
                    if not isinstance(n, ast.If):
                        continue
                    ts = n.test.values if isinstance(n.test, ast.BoolOp) else [n.test]
                    hit = False
                    for u in ts:
                        if isinstance(u, ast.UnaryOp) and isinstance(u.op, ast.Not):
                            u = u.operand
                        if isinstance(u, ast.Name) and u.id == x:
                            hit = True
                    if hit and any(isinstance(s, ast.Assign) and any(norm(t) == x for t in s.targets) for s in n.body + n.orelse):
                        bad.append(f"{q}: `if {norm(n.test)}` (re)initialises {x}")
        if total:
            ctx.ob(rule, f"{rel}:<module>", f"{total} None-initialised accumulators are initialised under `is None`", not bad, "" if not bad else "; ".join(bad))


def _loads(n):
    return {x.id for x in ast.walk(n) if isinstance(x, ast.Name) and isinstance(x.ctx, ast.Load)}


def _trivial(v):
    return isinstance(v, ast.Constant) or isinstance(v, (ast.List, ast.Tuple, ast.Set)) and not v.elts or isinstance(v, ast.Dict) and not v.keys


def _blocks(node):
    for fld in ("body", "orelse", "finalbody"):
        b = getattr(node, fld, None)
        if isinstance(b, list) and b and isinstance(b[0], ast.stmt):
            yield b
            for s in b:
                if not isinstance(s, (ast.FunctionDef, ast.AsyncFunctionDef, ast.ClassDef)):
                    yield from _blocks(s)
    for h in getattr(node, "handlers", []) or []:
        yield from _blocks(h)


def acc_reset(ctx, repo, scope=("",), rule="ACC-RESET", _self=False):
    ctx.rule(rule, "a variable given a non-trivial initial value and then handled by an if whose one arm extends it (`v += ...`) is not overwritten (`v = <expr without v>`) as the first thing in the other arm: there the initial part is silently lost", floor=1)
    if not _self:
        _selfcheck(ctx, rule, acc_reset)
    for rel in sorted(repo.rels()):
        if not _in_scope(rel, scope):
            continue
        m = repo.mod(rel)
        total = 0
        bad = []
        for q, f in sorted(m.funcs.items()):
            for blk in _blocks(f.node):
                for i, st in enumerate(blk[:-1]):
                    if not (isinstance(st, ast.Assign) and len(st.targets) == 1 and isinstance(st.targets[0], ast.Name) and not _trivial(st.value)):
                        continue
                    v = st.targets[0].id
                    nxt = blk[i + 1]
                    if not isinstance(nxt, ast.If) or v in _loads(nxt.test) or not nxt.orelse:
                        continue

                    def first_touch(stmts):
                        for s in stmts:
                            if isinstance(s, ast.AugAssign) and isinstance(s.target, ast.Name) and s.target.id == v:
                                return "aug"
                            if isinstance(s, ast.Assign) and any(isinstance(t, ast.Name) and t.id == v for t in s.targets):
                                return "read" if v in _loads(s.value) else "kill"
                            if v in _loads(s):
                                return "read"
                        return None

                    a, b = first_touch(nxt.body), first_touch(nxt.orelse)
                    total += 1
                    if "kill" in (a, b) and "aug" in (a, b):
                        bad.append(f"{q}: `{norm(st)[:50]}` is extended in one arm of `if {norm(nxt.test)[:40]}` and overwritten in the other")
        if total:
            ctx.ob(rule, f"{rel}:<module>", f"{total} initialise-then-branch sites keep the initial value on both arms", not bad, "" if not bad else "; ".join(bad))


def presence_kind(ctx, repo, scope=("",), rule="PRESENCE-KIND", _self=False):
    ctx.rule(rule, "within one class the presence of an optional attribute is decided one way: hasattr(self, 'a') and the truthiness of getattr(self, 'a', None) disagree when the attribute is present but empty (an empty program, 0, '')", floor=1)
    if not _self:
        _selfcheck(ctx, rule, presence_kind)
    for rel in sorted(repo.rels()):
        if not _in_scope(rel, scope):
            continue
        m = repo.mod(rel)
        total = 0
        bad = []
        for q, c in sorted(m.classes.items()):
            has = set()
            get = set()
            for n in ast.walk(c.node):
                if isinstance(n, ast.Call) and isinstance(n.func, ast.Name) and len(n.args) >= 2 and isinstance(n.args[0], ast.Name) and n.args[0].id == "self" and isinstance(n.args[1], ast.Constant):
                    if n.func.id == "hasattr":
                        has.add(n.args[1].value)
                    elif n.func.id == "getattr" and len(n.args) == 3 and isinstance(n.args[2], ast.Constant) and n.args[2].value in (None, False, 0):
                        p = parent(n)
                        truth = isinstance(p, (ast.If, ast.While, ast.IfExp)) and p.test is n or isinstance(p, ast.UnaryOp) and isinstance(p.op, ast.Not) or isinstance(p, ast.BoolOp) or isinstance(p, ast.Call) and norm(p.func) == "bool"
                        if truth:
                            get.add(n.args[1].value)
            total += len(has)
            for a in sorted(has & get):
                bad.append(f"{q}: attribute {a!r} is tested with hasattr and with getattr-truthiness")
        if total:
            ctx.ob(rule, f"{rel}:<module>", f"{total} hasattr(self, ...) presence tests are not mixed with getattr-truthiness of the same attribute", not bad, "" if not bad else "; ".join(bad))


NUM_FORMATTERS = {"intOrFloat", "self.intOrFloat", "fl2str", "floatToFixedToStr", "floatToFixed"}


def num_fmt(ctx, repo, scope=("",), rule="NUM-FMT", _self=False):
    ctx.rule(rule, "a value that is written through a number formatter (intOrFloat, fl2str, floatToFixed...) is guarded by `is not None`, not by its truthiness: 0 / 0.0 are values and must be written", floor=1)
    if not _self:
        _selfcheck(ctx, rule, num_fmt)
    for rel in sorted(repo.rels()):
        if not _in_scope(rel, scope):
            continue
        m = repo.mod(rel)
        total = 0
        bad = []
        for n in ast.walk(m.tree):
            if not isinstance(n, ast.If):
                continue
            t = n.test
            if not isinstance(t, (ast.Name, ast.Attribute)):
                continue
            x = norm(t)
            # only plain stores / emitted attributes count: `total += f(x)` skipping a zero is harmless
            fm = [c for s in n.body for c in ast.walk(s) if isinstance(c, ast.Call) and norm(c.func) in NUM_FORMATTERS and len(c.args) >= 1 and norm(c.args[0]) == x and not isinstance(s, ast.AugAssign)]
            if fm:
                total += 1
                bad.append(f"`if {x}:` guards {norm(fm[0])[:50]}")
        # count the healthy form too so the obligation is not vacuous
        for n in ast.walk(m.tree):
            if isinstance(n, ast.If) and isinstance(n.test, ast.Compare) and len(n.test.ops) == 1 and isinstance(n.test.ops[0], ast.IsNot) and isinstance(n.test.comparators[0], ast.Constant) and n.test.comparators[0].value is None:
                x = norm(n.test.left)
                if any(isinstance(c, ast.Call) and norm(c.func) in NUM_FORMATTERS and c.args and norm(c.args[0]) == x for s in n.body for c in ast.walk(s)):
                    total += 1
        if total:
            ctx.ob(rule, f"{rel}:<module>", f"{total} optional numbers are written under `is not None`", not bad, "" if not bad else "; ".join(bad))


NEW = [first_only, none_sentinel, acc_reset, presence_kind, num_fmt]
GENERIC.extend(NEW)

"""C19 (designspace / UFO / plist / filenames) and C10 (variable-font build wiring)."""

from __future__ import annotations

import ast
import re

from ..core import AnalysisError, norm, calls_in, call_name, last_attr, walk_no_nested, parent
from ..consteval import fold, try_fold, module_env, fold_module_sequence, Unknown
from ..cfg import CFG, guard_conditions

DS = "designspaceLib/__init__.py"


def _fold_with_loops(e, env, fnode):
    """fold an expression; if it depends on a loop variable bound over a literal tuple/list, return all values"""
    v = try_fold(e, env)
    if v is not None:
        return {v}
    names = {n.id for n in ast.walk(e) if isinstance(n, ast.Name)}
    out = set()
    for loop in ast.walk(fnode):
        if isinstance(loop, ast.For) and isinstance(loop.target, ast.Name) and loop.target.id in names:
            it = try_fold(loop.iter, env)
            if isinstance(it, (tuple, list)):
                for item in it:
                    x = try_fold(e, env.child({loop.target.id: item}))
                    if x is not None:
                        out.add(x)
    return out


def _et_vocab(repo, mod, wfuncs, rfuncs):
    env = module_env(repo, mod)
    we, wa, re_, ram, rao = set(), set(), set(), {}, set()
    wgen = []
    for f in wfuncs:
        for n in ast.walk(f.node):
            if isinstance(n, ast.Call):
                cn = call_name(n) or ""
                short = cn.rsplit(".", 1)[-1]
                if short in ("Element", "SubElement") and n.args:
                    a = n.args[0] if short == "Element" else (n.args[1] if len(n.args) > 1 else None)
                    vals = _fold_with_loops(a, env, f.node) if a is not None else set()
                    vals = {v for v in vals if isinstance(v, str)}
                    if vals:
                        we |= vals
                    else:
                        wgen.append(f"{f.where}: {norm(n)[:50]}")
                    for extra in n.args[(1 if short == "Element" else 2):]:
                        if isinstance(extra, ast.Dict):
                            for k in extra.keys:
                                s = try_fold(k, env) if k is not None else None
                                if isinstance(s, str):
                                    wa.add(s)
                    for k in n.keywords:
                        if k.arg and k.arg not in ("nsmap", "attrib"):
                            wa.add(k.arg)
                if short in ("dict", "OrderedDict"):
                    for k in n.keywords:
                        if k.arg:
                            wa.add(k.arg)
            if isinstance(n, ast.Subscript) and isinstance(n.ctx, ast.Store) and ((isinstance(n.value, ast.Attribute) and n.value.attr == "attrib") or (isinstance(n.value, ast.Name) and n.value.id in ("attrs", "attributes", "attrib"))):
                vals = {v for v in _fold_with_loops(n.slice, env, f.node) if isinstance(v, str)}
                wa |= vals
            if isinstance(n, ast.Dict):
                for k in n.keys:
                    s = try_fold(k, env) if k is not None else None
                    if isinstance(s, str):
                        wa.add(s)
            if isinstance(n, (ast.List, ast.Tuple)):
                for e in n.elts:
                    if isinstance(e, ast.Tuple) and len(e.elts) == 2:
                        s = try_fold(e.elts[0], env)
                        if isinstance(s, str):
                            wa.add(s)
    for f in rfuncs:
        for n in ast.walk(f.node):
            if isinstance(n, ast.Call) and last_attr(n) in ("findall", "find", "iterfind", "iter") and n.args:
                v = try_fold(n.args[0], env)
                if isinstance(v, str):
                    for part in re.split(r"[/.\[\]@='\"*]+", v):
                        if part:
                            re_.add(part)
            if isinstance(n, ast.Call) and last_attr(n) == "get" and isinstance(n.func, ast.Attribute) and n.args:
                base = norm(n.func.value)
                v = try_fold(n.args[0], env)
                if isinstance(v, str) and (base.endswith("attrib") or base.endswith("Element") or base in ("element", "elt", "attrs", "attrib", "root", "point", "component", "anchor", "guideline", "image", "advance", "node")):
                    rao.add(v)
            if isinstance(n, ast.Subscript) and isinstance(n.ctx, ast.Load) and ((isinstance(n.value, ast.Attribute) and n.value.attr == "attrib") or (isinstance(n.value, ast.Name) and n.value.id in ("attrs", "attrib"))):
                v = try_fold(n.slice, env)
                if isinstance(v, str):
                    guarded = any(f"'{v}' in" in norm(t) for t, pol in guard_conditions(n) if pol)
                    if guarded:
                        rao.add(v)
                    else:
                        ram.setdefault(v, f)
            if isinstance(n, ast.Compare) and (norm(n.left).endswith(".tag") or norm(n.left) in ("tag", "name", "element.tag")) and len(n.ops) == 1:
                for c in n.comparators:
                    v = try_fold(c, env)
                    if isinstance(v, str):
                        re_.add(v)
                    elif isinstance(v, (tuple, list, set, frozenset)):
                        re_.update(x for x in v if isinstance(x, str))
    return we, wa, re_, ram, rao, wgen


def designspace_vocab(ctx, repo):
    ctx.rule("F7-ds", "designspace: every element the reader looks for and every attribute it requires is written by the writer (and every element/attribute the writer emits is one the reader consumes, apart from audited ones)", floor=70)
    m = repo.mod(DS)
    W, R = m.cls("BaseDocWriter"), m.cls("BaseDocReader")
    we, wa, re_, ram, rao, wgen = _et_vocab(repo, m, list(W.methods.values()), list(R.methods.values()))
    AUD_W_ONLY_ELEMS = {"designspace": "root element (reader starts from it)", "lib": "read through plistlib.fromtree on the element found by path './/lib'"}
    for e in sorted(re_):
        if e in ("lib", "designspace", "xml", "lang"):
            continue
        ok = e in we
        ctx.ob("F7-ds", R.where, f"element <{e}> looked for by the reader is emitted by the writer", ok, "" if ok else "reader and writer disagree on an element name")
    for k, f in sorted(ram.items()):
        ok = k in wa
        ctx.ob("F7-ds", f.where, f"required attribute '{k}' is written", ok, "" if ok else "reader requires an attribute the writer never sets")
    for k in sorted(rao):
        ok = k in wa
        ctx.ob("F7-ds", R.where, f"optional attribute '{k}' read by the reader is one the writer can set", ok, "" if ok else "attribute is read but never written: it cannot survive a round trip")
    for e in sorted(we):
        ok = e in re_ or e in AUD_W_ONLY_ELEMS
        ctx.ob("F7-ds", W.where, f"element <{e}> emitted by the writer is consumed by the reader", ok, "" if ok else "data written under this element is dropped on reading")
    XML_LANG = "{http://www.w3.org/XML/1998/namespace}lang"
    for k in sorted(wa):
        if k == XML_LANG:
            continue
        ok = k in ram or k in rao
        ctx.ob("F7-ds", W.where, f"attribute '{k}' set by the writer is read by the reader", ok, "" if ok else "attribute is written but never read back")
    ctx.info["designspace_vocab"] = {"elements": len(we), "attributes": len(wa), "writer_generic": wgen}


def axis_maps(ctx, repo):
    ctx.rule("F22-axis", "axis maps: the continuous inverse table is built from the same validated map with pairs swapped and sorted by design value; the discrete forward/backward lookups are mirror images; design-location defaults pass through map_forward", floor=6)
    m = repo.mod(DS)
    mb = m.func("AxisDescriptor.map_backward")
    mf = m.func("AxisDescriptor.map_forward")
    bk = [n for n in walk_no_nested(mb.node) if isinstance(n, ast.Assign) and norm(n.targets[0]) == "backward"]
    ok = len(bk) == 1 and norm(bk[0].value) == "sorted(((design, user) for user, design in axis_map))"
    ctx.ob("F22-axis", mb.where, f"backward = {norm(bk[0].value) if bk else None}", ok, "" if ok else "inverse table is not (design, user) pairs sorted by design value: decreasing maps invert wrongly")
    src = [norm(n.value) for f in (mb, mf) for n in walk_no_nested(f.node) if isinstance(n, ast.Assign) and norm(n.targets[0]) == "axis_map"]
    ok = src == ["self.get_validated_map()", "self.get_validated_map()"]
    ctx.ob("F22-axis", mb.where, "forward and backward both start from self.get_validated_map()", ok)
    df, db = m.func("DiscreteAxisDescriptor.map_forward"), m.func("DiscreteAxisDescriptor.map_backward")
    rf = [norm(n.value) for n in walk_no_nested(df.node) if isinstance(n, ast.Return)]
    rb = [norm(n.value) for n in walk_no_nested(db.node) if isinstance(n, ast.Return)]
    ok = rf == ["next((v for k, v in self.get_validated_map() if k == value), value)"] and rb == ["next((k for k, v in self.get_validated_map() if v == value), value)"]
    ctx.ob("F22-axis", df.where, f"discrete forward {rf} / backward {rb} are k<->v mirrors", ok)
    # design locations: a missing axis defaults to map_forward(default); user locations to default
    for q, f in sorted(m.funcs.items()):
        nm = f.node.name
        if "DesignLocation" in nm or nm == "map_forward" and f.cls is not None and f.cls.name == "DesignSpaceDocument":
            for n in ast.walk(f.node):
                if isinstance(n, ast.Attribute) and n.attr == "default" and isinstance(n.value, ast.Name) and n.value.id == "axis" and isinstance(n.ctx, ast.Load):
                    # must sit inside axis.map_forward(...)
                    p = n
                    inside = False
                    while p is not None and p is not f.node:
                        if isinstance(p, ast.Call) and norm(p.func) == "axis.map_forward":
                            inside = True
                        p = parent(p)
                    ctx.ob("F22-axis", f.where, f"axis.default used as a design coordinate passes through axis.map_forward", inside, "" if inside else "the user-space default is used where a design-space coordinate is expected (wrong when the axis map moves the default)")
        if "UserLocation" in nm:
            for n in ast.walk(f.node):
                if isinstance(n, ast.Call) and norm(n.func) == "axis.map_forward" and any("axis.default" in norm(a) for a in n.args):
                    ctx.ob("F22-axis", f.where, "user-location default is not mapped forward", False, "design-space value used as a user coordinate")


def filename_rules(ctx, repo):
    ctx.rule("F28", "file-name safety constants: illegal characters contain every path separator, NUL, the control range, the quote and the Windows-reserved punctuation in both filename modules; the length limit is 255; reserved device names present; every entry is a single character", floor=10)
    ctx.rule("F25-name", "userNameToFileName / handleClash1 / handleClash2 only return a name that was tested absent from `existing` (compared lower-cased) or raise; clipping subtracts prefix and suffix; every caller records the lower-cased result and seeds `existing` with lower-cased names", floor=10)
    MUST = set('/\\:*?"<>|') | {"\0"} | {chr(i) for i in range(1, 32)} | {chr(0x7F)}
    for rel in ("misc/filenames.py", "ufoLib/filenames.py"):
        m = repo.mod(rel)
        try:
            ill = fold_module_sequence(repo, m, "illegalCharacters")
            res = fold_module_sequence(repo, m, "reservedFileNames")
            mx = fold_module_sequence(repo, m, "maxFileNameLength")
        except Unknown as ex:
            raise AnalysisError(f"cannot fold filename constants of {rel}: {ex}")
        ill = set(ill)
        missing = sorted(MUST - ill)
        ctx.ob("F28", rel + ":<module>", f"illegalCharacters ({len(ill)} entries) contains separators, NUL, controls, quote and Windows punctuation", not missing, "" if not missing else f"missing {[repr(c) for c in missing[:6]]}")
        multi = sorted(c for c in ill if len(c) != 1)
        ctx.ob("F28", rel + ":<module>", "every illegalCharacters entry is a single character", not multi, "" if not multi else f"multi-character entries can never match: {multi}")
        ctx.ob("F28", rel + ":<module>", f"maxFileNameLength = {mx}", mx == 255)
        resl = {r.lower() for r in res}
        need = {"con", "prn", "aux", "nul", "com1", "lpt1"}
        ctx.ob("F28", rel + ":<module>", f"reservedFileNames ({len(resl)}) contains the device names", need <= resl, "" if need <= resl else f"missing {sorted(need - resl)}")
        ctx.ob("F28", rel + ":<module>", "reservedFileNames are lower case (compared with part.lower())", all(r == r.lower() for r in res))
        # algorithm
        u = m.func("userNameToFileName")
        from ..core import private_callees, inline_locals
        from ..cfg import implied_conditions
        from ..consteval import cnorm

        # text of the function together with the private helpers it delegates to (extract-function refactorings)
        txt = norm(u.node) + "\n" + "\n".join(norm(h.node) for h in private_callees(repo, u))
        ok = "sliceLength = maxFileNameLength - prefixLength - suffixLength" in txt and "userName = userName[:sliceLength]" in txt
        ctx.ob("F25-name", u.where, "clip to maxFileNameLength - len(prefix) - len(suffix)", ok, "" if ok else "result can exceed the length limit")
        rets = [n for n in walk_no_nested(u.node) if isinstance(n, ast.Return)]
        g = CFG(u.node)
        chk = [n for n in walk_no_nested(u.node) if isinstance(n, ast.If) and norm(n.test) == "fullName.lower() in existing"]
        ok = len(rets) == 1 and norm(rets[0].value) == "fullName" and len(chk) == 1 and g.dominates(g.id_of(chk[0]), g.id_of(rets[0])) and any(isinstance(s, ast.Assign) and norm(s.targets[0]) == "fullName" and "handleClash1(" in norm(s.value) for s in chk[0].body)
        ctx.ob("F25-name", u.where, "the returned name passed `fullName.lower() in existing` (else handleClash1)", ok, "" if ok else "a clashing name can be returned")
        ok = "if part.lower() in reservedFileNames" in txt and "character != character.lower()" in txt and "if character in illegalCharacters" in txt
        ctx.ob("F25-name", u.where, "illegal characters replaced, upper case marked, reserved parts prefixed", ok)
        for hn in ("handleClash1", "handleClash2"):
            h = m.func(hn)
            hg = CFG(h.node)
            # every place where the candidate becomes the result: `finalName = fullName` or `return fullName`
            accepts = [n for n in walk_no_nested(h.node) if isinstance(n, ast.Assign) and norm(n.value) == "fullName" and isinstance(n.targets[0], ast.Name)]
            accepts += [n for n in walk_no_nested(h.node) if isinstance(n, ast.Return) and n.value is not None and norm(n.value) == "fullName"]
            ok = bool(accepts) and all(("fullName.lower() in existing", False) in implied_conditions(hg, a) for a in accepts)
            ctx.ob("F25-name", h.where, "finalName = fullName only under `fullName.lower() not in existing`", ok, "" if ok else "a candidate is accepted without the uniqueness test")
        h2 = m.func("handleClash2")
        last = h2.node.body[-1]
        ok = any(isinstance(n, ast.Raise) and "NameTranslationError" in norm(n) for n in walk_no_nested(h2.node)) and (norm(last) == "return finalName" or isinstance(last, ast.Raise) and "NameTranslationError" in norm(last))
        ctx.ob("F25-name", h2.where, "exhaustion raises NameTranslationError", ok)
        h1 = m.func("handleClash1")
        from ..consteval import env_of

        tests = [cnorm(inline_locals(h1.node, n.test), env_of(h1.node)) for n in walk_no_nested(h1.node) if isinstance(n, ast.If)]
        ok = any(t in ("len(prefix) + len(userName) + len(suffix) + 15 > 255", "prefixLength + len(userName) + suffixLength + 15 > 255") for t in tests) and "zfill(15)" in norm(h1.node)
        ctx.ob("F25-name", h1.where, "room for the 15-digit counter is reserved before it is appended", ok)
    # callers: every function that passes a set of existing names to the translators
    n_callers = 0
    for rel in sorted(repo.rels()):
        if rel in ("misc/filenames.py", "ufoLib/filenames.py"):
            continue
        mod = repo.mod(rel)
        for q, f in sorted(mod.funcs.items()):
            for c in calls_in(f.node, nested=False):
                la = last_attr(c)
                var = None
                if la == "userNameToFileName":
                    kw = [k.value for k in c.keywords if k.arg == "existing"]
                    var = kw[0] if kw else (c.args[1] if len(c.args) > 1 else None)
                elif la == "glyphNameToFileName" and len(c.args) > 1:
                    var = c.args[1]
                if var is None or norm(var) in {a.arg for a in f.node.args.args}:
                    continue  # pass-through wrapper: its caller is checked instead
                n_callers += 1
                _caller_discipline(ctx, f, norm(var))
    ctx.ob("F25-name", "ufoLib/glifLib.py:<module>", f"{n_callers} callers of the file-name translators found", n_callers >= 4)


def _caller_discipline(ctx, f, var):
    seeds = [n for n in walk_no_nested(f.node) if isinstance(n, ast.Assign) and norm(n.targets[0]) == var]
    adds = [c for c in calls_in(f.node, nested=False) if isinstance(c.func, ast.Attribute) and c.func.attr == "add" and norm(c.func.value) == var]
    for s in seeds:
        v = s.value
        ok = norm(v) in ("set()", "None") or (isinstance(v, ast.SetComp) and norm(v.elt).endswith(".lower()"))
        ctx.ob("F25-name", f.where, f"{var} = {norm(v)[:70]}", ok, "" if ok else "names already on disk are recorded with their case: a new name differing only in case is not seen as a clash")
        if isinstance(v, ast.SetComp):
            it = norm(v.generators[0].iter)
            # the names to avoid are file/directory names: the *values* of a contents mapping (layer name -> directory, glyph name -> file)
            if "ontents" in it and not it.endswith((".keys()",)) and "(" not in it.replace(".values()", ""):
                okv = it.endswith(".values()")
                ctx.ob("F25-name", f.where, f"{var} is built from {it} (file/directory names are the mapping's values)", okv, "" if okv else "the set holds the user-facing names (keys), not the names that exist on disk: clashes with existing directories go unnoticed")
    for a in adds:
        ok = norm(a.args[0]).endswith(".lower()")
        ctx.ob("F25-name", f.where, f"{var}.add({norm(a.args[0])})", ok, "" if ok else "generated name recorded with its case: later clashes ignoring case go unnoticed")
    if not seeds and not adds:
        ctx.ob("F25-name", f.where, f"{var} is maintained in this function", False, "caller no longer records generated names")


def plist_and_glif(ctx, repo):
    ctx.rule("F7-plist", "plistlib: every element tag the writer creates has an end handler in the reader target and every Python type the reader produces has a writer; glifLib: element and attribute names written are the ones read", floor=20)
    pm = repo.mod("misc/plistlib/__init__.py")
    env = module_env(repo, pm)
    wtags = set()
    for q, f in pm.funcs.items():
        if f.node.name.endswith("_element") or f.node.name == "totree":
            for c in calls_in(f.node):
                if (call_name(c) or "").endswith(("etree.Element", "etree.SubElement", "Element", "SubElement")) and c.args:
                    a = c.args[0] if (call_name(c) or "").endswith("Element") and not (call_name(c) or "").endswith("SubElement") else (c.args[1] if len(c.args) > 1 else None)
                    if a is not None:
                        for v in _fold_with_loops(a, env, f.node):
                            if isinstance(v, str):
                                wtags.add(v)
    handlers = set()
    for name in ("_TARGET_START_HANDLERS", "_TARGET_END_HANDLERS"):
        d = pm.assigns.get(name)
        if isinstance(d, ast.Dict):
            handlers |= {try_fold(k, env) for k in d.keys}
    if not handlers:
        raise AnalysisError("plistlib target handler tables not found")
    for t in sorted(wtags):
        ok = t in handlers or t == "plist"
        ctx.ob("F7-plist", pm.rel + ":<module>", f"<{t}> written has a reader handler", ok, "" if ok else "the reader has no handler for an element the writer emits")
    for t in sorted(x for x in handlers if isinstance(x, str)):
        ok = t in wtags
        ctx.ob("F7-plist", pm.rel + ":<module>", f"<{t}> handled by the reader can be produced by the writer", ok, "" if ok else "a value kind that can be read cannot be written back")
    # type dispatch: _make_element registrations
    regs = set()
    for q, f in pm.funcs.items():
        for d in f.node.decorator_list:
            if isinstance(d, ast.Call) and "register" in norm(d.func):
                for a in d.args:
                    regs.add(norm(a))
    for st in pm.tree.body:
        if isinstance(st, ast.Expr) and isinstance(st.value, ast.Call) and isinstance(st.value.func, ast.Call) and norm(st.value.func.func) == "_make_element.register":
            for a in st.value.func.args:
                regs.add(norm(a))
    me = pm.funcs.get("_make_element")
    need = {"str", "bool", "Integral", "float", "collections.abc.Mapping", "list", "tuple", "datetime", "bytes", "bytearray", "Data"}
    have_txt = " ".join(sorted(regs)) + " " + (norm(me.node) if me else "")
    for t in sorted(need):
        ok = t.rsplit(".", 1)[-1] in have_txt
        ctx.ob("F7-plist", pm.rel + ":<module>", f"writer handles values of type {t}", ok, "" if ok else "a value type the reader produces has no writer registration")
    # glifLib
    gm = repo.mod("ufoLib/glifLib.py")
    wf = [f for q, f in gm.funcs.items() if f.node.name.startswith(("_write", "writeGlyph")) or (f.cls is not None and f.cls.name == "GLIFPointPen")]
    rf = [f for q, f in gm.funcs.items() if f.node.name.startswith(("_read", "_build", "buildOutline", "readGlyph")) or (f.cls is not None and f.cls.name.startswith("_Fetch"))]
    we, wa, re_, ram, rao, wgen = _et_vocab(repo, gm, wf, rf)
    ctx.info["glif_vocab"] = {"w_elems": sorted(we), "r_elems": sorted(re_), "w_attrs": sorted(wa), "r_attrs": sorted(set(ram) | rao), "writer_generic": wgen}
    for e in sorted(re_):
        if e in ("lib", "glyph"):
            ok = e in we or e == "lib"
        else:
            ok = e in we
        ctx.ob("F7-plist", gm.rel + ":<module>", f"GLIF element <{e}> read is written", ok, "" if ok else "GLIF reader and writer disagree on an element name")
    for k, f in sorted(ram.items()):
        ok = k in wa
        ctx.ob("F7-plist", f.where, f"GLIF attribute '{k}' required by the reader is written", ok)
    for k in sorted(rao):
        ok = k in wa
        ctx.ob("F7-plist", gm.rel + ":<module>", f"GLIF attribute '{k}' read is one the writer can set", ok, "" if ok else "attribute read but never written")


def fontinfo_tables(ctx, repo):
    ctx.rule("UFO-info", "fontinfo attribute sets and version maps are consistent: version 3 attributes derive from the validator table; conversion maps are injective and stay inside their version sets", floor=4)
    um = repo.mod("ufoLib/__init__.py")
    src = norm(um.const("fontInfoAttributesVersion3"))
    ok = "fontInfoAttributesVersion3ValueData" in src
    ctx.ob("UFO-info", um.rel + ":<module>", f"fontInfoAttributesVersion3 = {src[:70]}", ok, "" if ok else "attribute list no longer derived from the validator table")
    env = module_env(repo, um)
    m12 = try_fold(um.const("fontInfoAttributesVersion1To2"), env)
    if isinstance(m12, dict):
        vals = list(m12.values())
        ctx.ob("UFO-info", um.rel + ":<module>", f"fontInfoAttributesVersion1To2: {len(m12)} entries, injective", len(set(vals)) == len(vals), "" if len(set(vals)) == len(vals) else "two version-1 attributes map to the same version-2 attribute: the flipped map loses one")
    else:
        raise AnalysisError("fontInfoAttributesVersion1To2 is not a foldable dict")
    m21 = norm(um.const("fontInfoAttributesVersion2To1"))
    ctx.ob("UFO-info", um.rel + ":<module>", f"fontInfoAttributesVersion2To1 = {m21}", m21 == "_flipDict(fontInfoAttributesVersion1To2)")
    fd = um.func("_flipDict")
    ok = "dict([(v, k) for k, v in d.items()])" in norm(fd.node) or "{v: k for k, v in d.items()}" in norm(fd.node) or ("for key, value in list(d.items())" in norm(fd.node) and "flipped[value] = key" in norm(fd.node))
    ctx.ob("UFO-info", fd.where, "_flipDict swaps keys and values", ok)


C19 = [designspace_vocab, axis_maps, filename_rules, plist_and_glif, fontinfo_tables]


# ---------------------------------------------------------------------------
# C10
# ---------------------------------------------------------------------------

# OpenType specification, MVAR "Value tags" registry (tag -> table, field as named in fontTools).
MVAR_REGISTRY = {
    "hasc": ("OS/2", "sTypoAscender"), "hdsc": ("OS/2", "sTypoDescender"), "hlgp": ("OS/2", "sTypoLineGap"),
    "hcla": ("OS/2", "usWinAscent"), "hcld": ("OS/2", "usWinDescent"),
    "vasc": ("vhea", "ascent"), "vdsc": ("vhea", "descent"), "vlgp": ("vhea", "lineGap"),
    "hcrs": ("hhea", "caretSlopeRise"), "hcrn": ("hhea", "caretSlopeRun"), "hcof": ("hhea", "caretOffset"),
    "vcrs": ("vhea", "caretSlopeRise"), "vcrn": ("vhea", "caretSlopeRun"), "vcof": ("vhea", "caretOffset"),
    "xhgt": ("OS/2", "sxHeight"), "cpht": ("OS/2", "sCapHeight"),
    "sbxs": ("OS/2", "ySubscriptXSize"), "sbys": ("OS/2", "ySubscriptYSize"), "sbxo": ("OS/2", "ySubscriptXOffset"), "sbyo": ("OS/2", "ySubscriptYOffset"),
    "spxs": ("OS/2", "ySuperscriptXSize"), "spys": ("OS/2", "ySuperscriptYSize"), "spxo": ("OS/2", "ySuperscriptXOffset"), "spyo": ("OS/2", "ySuperscriptYOffset"),
    "strs": ("OS/2", "yStrikeoutSize"), "stro": ("OS/2", "yStrikeoutPosition"),
    "unds": ("post", "underlineThickness"), "undo": ("post", "underlinePosition"),
}


def mvar_registry(ctx, repo):
    from .exhaust import _struct_fields

    ctx.rule("MVAR", "every MVAR value tag maps to the table field the OpenType registry assigns to it, and that field exists in the table's struct format", floor=50)
    m = repo.mod("varLib/mvar.py")
    ent = try_fold(m.const("MVAR_ENTRIES"), module_env(repo, m))
    if not isinstance(ent, dict):
        raise AnalysisError("MVAR_ENTRIES is not a foldable dict literal")
    fields = {t: set(_struct_fields(repo, t)) for t in ("OS/2", "hhea", "vhea", "post")}
    for tag, pair in sorted(ent.items()):
        want = MVAR_REGISTRY.get(tag)
        ok = want is not None and tuple(pair) == want
        ctx.ob("MVAR", m.rel + ":MVAR_ENTRIES", f"'{tag}' -> {tuple(pair)}", ok, "" if ok else f"OpenType registry assigns '{tag}' to {want}")
        t, f = pair
        ok = f in fields.get(t, ())
        ctx.ob("MVAR", m.rel + ":MVAR_ENTRIES", f"{t}.{f} is a field of the table", ok, "" if ok else "no such field: the value is silently never varied")
    vals = [tuple(v) for v in ent.values()]
    ctx.ob("MVAR", m.rel + ":MVAR_ENTRIES", f"{len(ent)} entries, no two tags share a field", len(set(vals)) == len(vals))
    missing = sorted(set(MVAR_REGISTRY) - set(ent))
    ctx.ob("MVAR", m.rel + ":MVAR_ENTRIES", "all 28 metric tags of the registry are present", not missing, "" if not missing else f"missing {missing}")


def build_wiring(ctx, repo):
    ctx.rule("BUILD", "every table builder of varLib (_add_*/_merge_*) is reached from build(), guarded by the exclude list entry of the table it writes", floor=12)
    m = repo.mod("varLib/__init__.py")
    b = m.func("build")
    called = {}
    for c in calls_in(b.node, nested=False):
        nm = call_name(c)
        if nm and (nm.startswith("_add_") or nm.startswith("_merge_")):
            called[nm] = c
    builders = sorted(q for q in m.funcs if "." not in q and (q.startswith("_add_") or q.startswith("_merge_")))
    helper_of = {}
    for q in builders:
        for c in calls_in(m.funcs[q].node):
            nm = call_name(c)
            if nm in builders and nm != q:
                helper_of.setdefault(nm, set()).add(q)
    GUARD_TAG = {"_add_stat": "STAT", "_add_avar": "avar", "_add_BASE": "BASE", "_add_MVAR": "MVAR", "_add_HVAR": "HVAR", "_add_VVAR": "VVAR", "_merge_OTL": "GDEF", "_add_gvar": "gvar", "_merge_TTHinting": "cvar", "_add_GSUB_feature_variations": "GSUB", "_add_CFF2": "CFF2", "_add_COLR": "COLR"}
    for q in builders:
        if q in called:
            conds = [norm(t) for t, pol in guard_conditions(called[q]) if pol]
            tag = GUARD_TAG.get(q)
            if q == "_add_fvar":
                ctx.ob("BUILD", b.where, "_add_fvar called unconditionally", not conds, "" if not conds else f"fvar is only built under {conds}")
                continue
            ok = tag is not None and any(f"'{tag}' not in exclude" in c for c in conds)
            ctx.ob("BUILD", b.where, f"{q} called under {conds}", ok, "" if ok else f"builder is not guarded by the exclude entry of the table it writes ({tag})")
        else:
            via = helper_of.get(q, set()) & (set(called) | {x for x in helper_of if helper_of[x] & set(called)})
            ok = bool(via)
            ctx.ob("BUILD", b.where, f"{q} reached through {sorted(via)}", ok, "" if ok else "table builder is defined but never called from build(): the table is missing from built fonts")
    # masters and model travel together
    for q in ("_add_gvar", "_add_MVAR", "_add_HVAR", "_add_VVAR", "_add_BASE", "_merge_OTL", "_add_CFF2", "_add_COLR", "_merge_TTHinting"):
        c = called.get(q)
        if c is None:
            continue
        args = [norm(a) for a in c.args]
        ok = "model" in args and "master_fonts" in args and args.index("model") < args.index("master_fonts")
        ctx.ob("BUILD", b.where, f"{q}({', '.join(args[:4])}) receives the model and the master list it was built from", ok, "" if ok else "a builder is given a master list that is not the one the model was computed from")
    mdl = [n for n in walk_no_nested(b.node) if isinstance(n, ast.Assign) and norm(n.targets[0]) == "model"]
    from ..slicer import Slicer

    ok = False
    detail = ""
    if len(mdl) == 1 and isinstance(mdl[0].value, ast.Call) and mdl[0].value.args:
        lv = Slicer(b.node).leaves(mdl[0].value.args[0])
        src = {l.text for l in lv if l.kind == "attr"}
        # the master-location list must come from ds.normalized_master_locs through order-preserving list comprehensions only
        defs = [n for n in walk_no_nested(b.node) if isinstance(n, ast.Assign) and norm(n.targets[0]) == norm(mdl[0].value.args[0])]
        shape = all(isinstance(n.value, ast.ListComp) and not any(call_name(c) in ("sorted", "set", "reversed") for c in calls_in(n.value)) for n in defs)
        ok = "ds.normalized_master_locs" in src and shape
        detail = "" if ok else f"model locations derive from {sorted(src)} (order-preserving: {shape})"
    ctx.ob("BUILD", b.where, "VariationModel is built from ds.normalized_master_locs in source order", ok, detail or ("" if ok else "model master order no longer follows the designspace source order that master_fonts uses"))
    mf = [n for n in walk_no_nested(b.node) if isinstance(n, ast.Assign) and norm(n.targets[0]) == "master_fonts"]
    ok = bool(mf) and all("load_masters" in norm(n.value) or "master_fonts" in norm(n.value) for n in mf)
    ctx.ob("BUILD", b.where, f"master_fonts = {[norm(n.value)[:50] for n in mf]}", ok)


C10 = [mvar_registry, build_wiring, axis_maps]


# ---------------------------------------------------------------------------
# VGATE: data written only in a newer document format forces that format
# ---------------------------------------------------------------------------
V5_FEATURES = {"values", "axisOrdering", "axisLabels", "locationLabels", "localisedFamilyName", "variableFonts", "locationLabel", "userLocation"}
V51_FEATURES = {"axisMappings"}
V4_ALIASES = {"designLocation": "location"}  # designLocation is the v5 name of the same field


def version_gate(ctx, repo):
    ctx.rule("VGATE", "designspace writer: every descriptor field that is only written on the format >= 5.0 arm of a version test is one of the conditions that raise the effective format to 5.0 (otherwise a 4.x document silently drops it); the trigger list covers the version 5.0 / 5.1 feature set", floor=4)
    mod = repo.mod("designspaceLib/__init__.py")
    eff = mod.func("BaseDocWriter._getEffectiveFormatTuple")
    trig5, trig51 = set(), set()
    for n in walk_no_nested(eff.node):
        if isinstance(n, ast.If):
            sets = [norm(b) for b in ast.walk(n) if isinstance(b, ast.Assign) and norm(b.targets[0]) == "minVersion"]
            names = {a.attr for a in ast.walk(n.test) if isinstance(a, ast.Attribute)} | {try_fold(c.args[1]) for c in calls_in(n.test) if call_name(c) in ("hasattr", "getattr") and len(c.args) >= 2}
            names.discard("documentObject")
            if any("(5, 0)" in s for s in sets):
                trig5 |= names
            elif any("(5, 1)" in s for s in sets):
                trig51 |= names
    ok = V5_FEATURES <= trig5
    ctx.ob("VGATE", eff.where, f"format 5.0 triggers {sorted(x for x in trig5 if x in V5_FEATURES)}", ok, "" if ok else f"missing: {sorted(V5_FEATURES - trig5)}")
    ok = V51_FEATURES <= trig51
    ctx.ob("VGATE", eff.where, f"format 5.1 triggers {sorted(trig51)}", ok, "" if ok else f"missing: {sorted(V51_FEATURES - trig51)}")
    # the value must be stored before anything is written
    ne = 0
    for q, f in sorted(mod.funcs.items()):
        if not q.startswith("BaseDocWriter."):
            continue
        for n in walk_no_nested(f.node):
            if not (isinstance(n, ast.If) and isinstance(n.test, ast.Compare) and norm(n.test.left) == "self.effectiveFormatTuple"):
                continue
            lim = try_fold(n.test.comparators[0])
            op = n.test.ops[0]
            if lim != (5, 0) or not isinstance(op, (ast.GtE, ast.Lt)):
                continue
            new_arm, old_arm = (n.body, n.orelse) if isinstance(op, ast.GtE) else (n.orelse, n.body)
            objs = {a.arg for a in f.node.args.args if a.arg.endswith("Object")}

            def reads(stmts):
                out = set()
                for st in stmts:
                    for a in ast.walk(st):
                        if isinstance(a, ast.Attribute) and isinstance(a.value, ast.Name) and a.value.id in objs:
                            out.add(V4_ALIASES.get(a.attr, a.attr))
                return out

            only_new = reads(new_arm) - reads(old_arm)
            if not new_arm:
                continue
            ne += 1
            ok = only_new <= trig5
            ctx.ob("VGATE", f.where, f"fields written only when format >= 5.0: {sorted(only_new)}", ok, "" if ok else f"{sorted(only_new - trig5)} do not raise the format: written documents in 4.x lose them")
    if ne < 2:
        raise AnalysisError("VGATE: fewer than 2 version-gated writer arms found")


C19.append(version_gate)


# ---------------------------------------------------------------------------
# CACHE-INV: VariationModel's sub-model memo is dropped whenever its inputs change
# ---------------------------------------------------------------------------
def submodel_cache(ctx, repo):
    ctx.rule("CACHE-INV", "VariationModel.getSubModel memoises sub-models built from the model's own fields; every other method that reassigns one of those fields also resets the memo (a stale sub-model applies the old master order to the new one)", floor=2)
    mod = repo.mod("varLib/models.py")
    g = mod.func("VariationModel.getSubModel")
    memo = None
    for n in ast.walk(g.node):
        if isinstance(n, ast.Assign) and isinstance(n.targets[0], ast.Subscript) and norm(n.targets[0].value).startswith("self._"):
            memo = n.targets[0].value.attr
    if memo is None:
        raise AnalysisError("VariationModel.getSubModel no longer fills a memo dict")
    deps = {n.attr for n in ast.walk(g.node) if isinstance(n, ast.Attribute) and norm(n.value) == "self" and isinstance(n.ctx, ast.Load)} - {memo}
    deps = {d for d in deps if ("VariationModel." + d) not in mod.funcs}
    init = mod.func("VariationModel.__init__")
    ok = any(isinstance(st, ast.Assign) and norm(st.targets[0]) == f"self.{memo}" and norm(st.value) == "{}" for st in walk_no_nested(init.node))
    ctx.ob("CACHE-INV", init.where, f"self.{memo} = {{}} (memo over fields {sorted(deps)})", ok)
    n = 0
    for q, f in sorted(mod.funcs.items()):
        if not q.startswith("VariationModel.") or q in ("VariationModel.__init__", "VariationModel.getSubModel"):
            continue
        stores = {st.targets[0].attr: st for st in walk_no_nested(f.node) if isinstance(st, ast.Assign) and isinstance(st.targets[0], ast.Attribute) and norm(st.targets[0].value) == "self"}
        hit = sorted(set(stores) & deps)
        if not hit:
            continue
        n += 1
        reset = (memo in stores and norm(stores[memo].value) == "{}" and not list(guard_conditions(stores[memo]))) or any(norm(c.func) == f"self.{memo}.clear" for c in calls_in(f.node))
        ctx.ob("CACHE-INV", f.where, f"reassigns {hit}: memo reset", reset, "" if reset else f"self.{memo} keeps sub-models computed from the previous {hit}")
    if n == 0:
        raise AnalysisError("CACHE-INV: no mutator of the memo's inputs found (reorderMasters vanished?)")


C10.append(submodel_cache)


# ---------------------------------------------------------------------------
# TRANSP: a consumer that skips None cells needs the producer mode that emits them
# ---------------------------------------------------------------------------
def transparent_flatten(ctx, repo):
    ctx.rule("TRANSP", "PairPos format 2 flattening: the caller that picks the first non-None cell of the aligned matrices asks _PairPosFormat2_align_matrices for transparent rows (None for glyphs a subtable does not cover); with the default opaque rows the first subtable's zero records hide every later subtable", floor=2)
    mod = repo.mod("varLib/merger.py")
    prod = mod.func("_PairPosFormat2_align_matrices")
    dflt = {a.arg: try_fold(d) for a, d in zip(prod.node.args.args[len(prod.node.args.args) - len(prod.node.args.defaults):], prod.node.args.defaults)}
    emits_none = any(isinstance(st, ast.If) and norm(st.test) == "transparent" and any(isinstance(b, ast.Assign) and isinstance(b.value, ast.Constant) and b.value.value is None for b in st.body) for st in ast.walk(prod.node))
    ctx.ob("TRANSP", prod.where, f"transparent defaults to {dflt.get('transparent')}; None cells only when it is true", dflt.get("transparent") is False and emits_none)
    n = 0
    for q, f in sorted(mod.funcs.items()):
        calls = [c for c in calls_in(f.node) if call_name(c) == "_PairPosFormat2_align_matrices"]
        if not calls:
            continue
        filters_none = any(isinstance(x, ast.Compare) and isinstance(x.ops[0], ast.IsNot) and isinstance(x.comparators[0], ast.Constant) and x.comparators[0].value is None and isinstance(parent(x), ast.comprehension) for x in ast.walk(f.node))
        for c in calls:
            tr = next((try_fold(k.value) for k in c.keywords if k.arg == "transparent"), try_fold(c.args[3]) if len(c.args) > 3 else dflt.get("transparent"))
            n += 1
            ok = (tr is True) == filters_none
            ctx.ob("TRANSP", f.where, f"{norm(c)[:80]}: transparent={tr}, consumer skips None cells: {filters_none}", ok, "" if ok else "the consumer expects None placeholders but the producer fills explicit zero records (or the reverse)")
    if n < 2:
        raise AnalysisError("TRANSP: expected two callers of _PairPosFormat2_align_matrices")


C10.append(transparent_flatten)


# ---------------------------------------------------------------------------
# PERM: the two master permutations are used in the right direction
# ---------------------------------------------------------------------------
def master_permutations(ctx, repo):
    ctx.rule("PERM", "VariationModel keeps mapping (caller's master index -> sorted index) and reverseMapping (sorted index -> caller's index); values given in the caller's order are read through reverseMapping when walking sorted slots, results in sorted order are returned through mapping, and masters are put into sorted order with reverseMapping", floor=6)
    mod = repo.mod("varLib/models.py")
    for fn in ("VariationModel.__init__", "VariationModel.reorderMasters"):
        f = mod.func(fn)
        d = {}
        for st in walk_no_nested(f.node):
            if isinstance(st, ast.Assign) and isinstance(st.targets[0], ast.Attribute) and st.targets[0].attr in ("mapping", "reverseMapping"):
                v = st.value
                if isinstance(v, ast.ListComp) and isinstance(v.elt, ast.Call) and isinstance(v.elt.func, ast.Attribute) and v.elt.func.attr == "index" and len(v.generators) == 1 and len(v.elt.args) == 1 and norm(v.elt.args[0]) == norm(v.generators[0].target):
                    d[st.targets[0].attr] = f"index in {norm(v.elt.func.value)} of each item of {norm(v.generators[0].iter)}"
                else:
                    d[st.targets[0].attr] = norm(v)
        ok = d.get("mapping") == "index in self.locations of each item of locations" and d.get("reverseMapping") == "index in locations of each item of self.locations"
        ctx.ob("PERM", f.where, f"mapping = {d.get('mapping')}; reverseMapping = {d.get('reverseMapping')}", ok, "" if ok else "the two permutations are no longer inverse tables built from the same pair of location lists")
    gd = mod.func("VariationModel.getDeltas")
    al = {st.targets[0].id: norm(st.value) for st in walk_no_nested(gd.node) if isinstance(st, ast.Assign) and isinstance(st.targets[0], ast.Name) and norm(st.value) in ("self.mapping", "self.reverseMapping")}
    subs = [n for n in ast.walk(gd.node) if isinstance(n, ast.Subscript) and norm(n.value) == "masterValues"]
    used = set()
    for s_ in subs:
        for x in ast.walk(s_.slice):
            if isinstance(x, ast.Name) and x.id in al:
                used.add(al[x.id])
            elif isinstance(x, ast.Attribute) and norm(x) in ("self.mapping", "self.reverseMapping"):
                used.add(norm(x))
    ctx.ob("PERM", gd.where, f"masterValues (caller's order) indexed through {sorted(used)} in the loop over sorted delta weights", used == {"self.reverseMapping"}, "" if used == {"self.reverseMapping"} else "each sorted slot must fetch the caller's master with reverseMapping")
    ms = mod.func("VariationModel.getMasterScalars")
    used = {norm(x) for n in ast.walk(ms.node) if isinstance(n, ast.Subscript) and norm(n.value) == "out" for x in ast.walk(n.slice) if isinstance(x, ast.Attribute) and norm(x) in ("self.mapping", "self.reverseMapping")}
    ctx.ob("PERM", ms.where, f"scalars (sorted order) returned in the caller's order through {sorted(used)}", used == {"self.mapping"})
    n = 0
    for rel in ("varLib/__init__.py", "varLib/cff.py", "varLib/merger.py", "varLib/featureVars.py"):
        m = repo.mod(rel)
        for q, f in sorted(m.funcs.items()):
            for c in calls_in(f.node, nested=False):
                if last_attr(c) == "reorderMasters" and len(c.args) == 2:
                    n += 1
                    recv = norm(c.func.value)
                    ok = norm(c.args[1]) == recv + ".reverseMapping"
                    ctx.ob("PERM", f.where, norm(c)[:90], ok, "" if ok else f"masters are moved into sorted order with {recv}.reverseMapping (sorted slot -> caller's index); the inverse table sends them to the wrong slots for cyclic orders")
            for s_ in ast.walk(f.node):
                if isinstance(s_, ast.Subscript) and isinstance(s_.value, ast.Attribute) and s_.value.attr in ("mapping", "reverseMapping") and "odel" in norm(s_.value.value):
                    n += 1
                    zero = norm(s_.slice) == "0"
                    ok = (s_.value.attr == "reverseMapping") == zero
                    ctx.ob("PERM", f.where, norm(s_), ok, "" if ok else "sorted slot 0 (the default master) maps to the caller's index through reverseMapping; a caller's index maps to its slot through mapping")
    if n < 3:
        raise AnalysisError("PERM: fewer than 3 uses of the model permutations found in varLib")


C10.append(master_permutations)


# ---------------------------------------------------------------------------
# MAP-dir: user-space values go through map_forward, design-space values through map_backward
# ---------------------------------------------------------------------------
def map_direction(ctx, repo):
    from ..cfg import CFG as _CFG, implied_conditions
    from ..core import inline_locals

    ctx.rule("MAP-dir", "an axis's map_forward takes user-space values (axis.minimum / default / maximum, a location the caller declared unmapped) to design space, map_backward takes design-space values (source / instance design locations) back; wherever the space of the argument or of the result is evident from the code, the direction matches it", floor=5)
    USER_ATTRS = ("minimum", "maximum", "default")
    n = 0
    for rel in ("varLib/__init__.py", "varLib/interpolate_layout.py", "feaLib/variableScalar.py", "designspaceLib/types.py", "designspaceLib/split.py"):
        m = repo.mod(rel)
        for q, f in sorted(m.funcs.items()):
            if isinstance(f.node, ast.Lambda):
                continue
            g = None
            for c in walk_no_nested(f.node):
                if not (isinstance(c, ast.Call) and isinstance(c.func, ast.Attribute) and c.func.attr in ("map_forward", "map_backward") and c.args):
                    continue
                arg = c.args[0]
                # a comprehension variable stands for the elements of what it iterates (one step, locals inlined)
                p = parent(c)
                while p is not None and not isinstance(p, (ast.ListComp, ast.GeneratorExp, ast.DictComp, ast.SetComp, ast.stmt)):
                    p = parent(p)
                texts = [norm(arg)]
                if isinstance(p, (ast.ListComp, ast.GeneratorExp, ast.DictComp, ast.SetComp)) and isinstance(arg, ast.Name):
                    for gen in p.generators:
                        if any(isinstance(x, ast.Name) and x.id == arg.id for x in ast.walk(gen.target)):
                            texts.append(norm(inline_locals(f.node, gen.iter)))
                want = None
                why = ""
                if any(("." + a) in t for t in texts for a in USER_ATTRS) and "designLocation" not in " ".join(texts):
                    want, why = "map_forward", "the argument is an axis's user-space minimum / default / maximum"
                elif "designLocation" in " ".join(texts):
                    want, why = "map_backward", "the argument is a design location"
                else:
                    g = g or _CFG(f.node)
                    conds = implied_conditions(g, c)
                    if ("mapped", False) in conds:
                        want, why = "map_forward", "the caller declared the location unmapped (user space)"
                    elif ("mapped", True) in conds:
                        want, why = "map_backward", "the location is already in design space"
                    else:
                        st = c
                        while not isinstance(st, ast.stmt):
                            st = parent(st)
                        if isinstance(st, ast.Assign) and isinstance(st.targets[0], ast.Attribute) and st.targets[0].attr == "coordinates":
                            want, why = "map_backward", "fvar instance coordinates are user-space values computed from design locations"
                        elif isinstance(st, ast.Assign) and isinstance(st.targets[0], ast.Name):
                            v = st.targets[0].id
                            cmp_user = any(isinstance(x, ast.Compare) and any(isinstance(y, ast.Name) and y.id == v for y in ast.walk(x)) and any(isinstance(y, ast.Attribute) and y.attr in USER_ATTRS for y in ast.walk(x)) for x in ast.walk(f.node))
                            if cmp_user:
                                want, why = "map_backward", "the result is compared with the axis's user-space minimum / maximum"
                if want is None:
                    continue
                n += 1
                ctx.consult(rel)
                ok = c.func.attr == want
                ctx.ob("MAP-dir", f.where, f"{norm(c)[:60]}: {why}", ok, "" if ok else f"{want} is the conversion for that space; this call converts the other way")
    if n < 5:
        raise AnalysisError(f"MAP-dir: only {n} map_forward / map_backward sites with an evident space found")


C10.append(map_direction)

"""Contradiction / copy-paste rules (Engler et al. style beliefs):
UNPACK  - one named-tuple type destructured into the same local names in different orders;
TWIN    - numbered twin assignments (x1 = E; x2 = E) whose right-hand sides are identical although
          they mention the first twin's number;
KEYFLD  - an identity tuple built from the fields of an otData record leaves out a field."""

from __future__ import annotations

import ast
import re

from ..core import norm, calls_in, call_name, last_attr, walk_no_nested, parent
from ..consteval import try_fold, module_env
from ..schema import load_schema


def _namedtuple_returns(repo, mod):
    """function/method name -> (namedtuple type name, fields) when every return constructs that type"""
    nts = {}
    for name, val in mod.assigns.items():
        if isinstance(val, ast.Call) and (call_name(val) or "").endswith("namedtuple") and len(val.args) >= 2:
            f = try_fold(val.args[1])
            if isinstance(f, str):
                f = f.replace(",", " ").split()
            if isinstance(f, (list, tuple)):
                nts[name] = list(f)
    for q, c in mod.classes.items():
        if any(norm(b).endswith("NamedTuple") for b in c.node.bases):
            nts[q] = [s.target.id for s in c.node.body if isinstance(s, ast.AnnAssign) and isinstance(s.target, ast.Name)]
    out = {}
    for q, f in mod.funcs.items():
        rets = [n for n in walk_no_nested(f.node) if isinstance(n, ast.Return) and n.value is not None]
        if not rets:
            continue
        types = set()
        for r in rets:
            if isinstance(r.value, ast.Call) and call_name(r.value) in nts:
                types.add(call_name(r.value))
            else:
                types.add(None)
        if len(types) == 1 and None not in types:
            t = types.pop()
            out[f.node.name] = (t, nts[t])
    return out


def unpack_order(ctx, repo, scope=("ttLib/tables/",), rule="UNPACK"):
    ctx.rule(rule, "results of functions returning the same named-tuple type are destructured into the same local names in the same positions throughout a function", floor=1)
    n = 0
    for rel in sorted(repo.rels()):
        if not rel.startswith(scope):
            continue
        mod = repo.mod(rel)
        rets = _namedtuple_returns(repo, mod)
        for q, f in sorted(mod.funcs.items()):
            by_type = {}
            sites_all = []
            for st in walk_no_nested(f.node):
                if isinstance(st, ast.Assign) and isinstance(st.targets[0], ast.Tuple) and isinstance(st.value, ast.Call):
                    callee = last_attr(st.value)
                    names = [norm(e) for e in st.targets[0].elts]
                    if callee in rets:
                        t, fields = rets[callee]
                        by_type.setdefault(t, []).append((callee, names))
                    elif callee:
                        sites_all.append((callee, names))
            # sibling callees: same name suffix (get*MaxpValues / getCompositeMaxpValues) count as one family
            for t, sites in list(by_type.items()):
                for callee, names in sites_all:
                    for c0, _ in sites:
                        k = 0
                        while k < min(len(callee), len(c0)) and callee[-1 - k] == c0[-1 - k]:
                            k += 1
                        if k >= 8 and (callee, names) not in sites:
                            sites.append((callee, names))
            for t in list(by_type):
                if t not in rets.values() and not by_type[t]:
                    del by_type[t]
            for t, sites in by_type.items():
                pos = {}
                bad = []
                for callee, names in sites:
                    for i, nm in enumerate(names):
                        if nm in pos and pos[nm] != i:
                            bad.append(f"`{nm}` receives field {i} from {callee}() but field {pos[nm]} elsewhere")
                        pos.setdefault(nm, i)
                n += 1
                ctx.ob(rule, f.where, f"{t} destructured at {len(sites)} sites as {[s[1] for s in sites]}", not bad, "" if not bad else bad[0])
    ctx.info.setdefault("unpack_sites", {})[rule] = n


_TWIN = re.compile(r"^(.*?)([12])$")


def numbered_twins(ctx, repo, scope=("otlLib/", "ttLib/tables/otTables.py"), rule="TWIN"):
    ctx.rule(rule, "numbered twin assignments (a1 = f('..1'); a2 = f('..2')) differ in the number on both sides; an identical right-hand side that names the first twin's number is a copy-paste slip", floor=1)
    n = 0
    for rel in sorted(repo.rels()):
        if not rel.startswith(scope):
            continue
        mod = repo.mod(rel)
        for q, f in sorted(mod.funcs.items()):
            body_lists = [f.node.body] + [getattr(x, fld) for x in walk_no_nested(f.node) for fld in ("body", "orelse") if isinstance(getattr(x, fld, None), list)]
            for body in body_lists:
                for a, b in zip(body, body[1:]):
                    if not (isinstance(a, ast.Assign) and isinstance(b, ast.Assign) and isinstance(a.targets[0], ast.Name) and isinstance(b.targets[0], ast.Name)):
                        continue
                    ma, mb = _TWIN.match(a.targets[0].id), _TWIN.match(b.targets[0].id)
                    if not (ma and mb and ma.group(1) == mb.group(1) and ma.group(2) == "1" and mb.group(2) == "2"):
                        continue
                    ra, rb = norm(a.value), norm(b.value)
                    # the number must occur in an identifier or a string literal of the right-hand side (Value1, "ClassDef1"), not in arithmetic
                    if not re.search(r"[A-Za-z_]\w*1\b|1['\"]", ra):
                        continue
                    if any(isinstance(x, ast.Call) and last_attr(x) in ("pop", "next", "read", "readline") for x in ast.walk(a.value)):
                        continue  # stateful producers legitimately repeat
                    n += 1
                    expected = re.sub(r"1(?!\d)", "2", ra)
                    ok = ra != rb
                    ctx.ob(rule, f.where, f"{a.targets[0].id} = {ra[:50]} ; {b.targets[0].id} = {rb[:50]}", ok, "" if ok else f"second twin repeats the first (expected something like `{expected[:60]}`)")
    ctx.info.setdefault("twin_sites", {})[rule] = n


def key_fields(ctx, repo, scope=("varLib/instancer/", "subset/", "varLib/featureVars.py"), rule="KEYFLD"):
    ctx.rule(rule, "a tuple built only from fields of one otData record (used as its identity key) names every field of that record except the format", floor=1)
    sc = load_schema(repo)
    n = 0
    for rel in sorted(repo.rels()):
        if not rel.startswith(scope):
            continue
        mod = repo.mod(rel)
        for q, f in sorted(mod.funcs.items()):
            # loop variables over `<expr>.<SchemaClassListField>`
            typed = {}
            for st in walk_no_nested(f.node):
                it, tgt = None, None
                if isinstance(st, ast.For) and isinstance(st.target, ast.Name):
                    it, tgt = st.iter, st.target.id
                elif isinstance(st, ast.comprehension) and isinstance(st.target, ast.Name):
                    it, tgt = st.iter, st.target.id
                if it is not None and isinstance(it, ast.Name):
                    # one level through a local assignment: x = a.b.Cls if cond else []
                    defs = [n.value for n in walk_no_nested(f.node) if isinstance(n, ast.Assign) and norm(n.targets[0]) == it.id]
                    cands = []
                    for d in defs:
                        cands += [d.body, d.orelse] if isinstance(d, ast.IfExp) else [d]
                    attrs = {c.attr for c in cands if isinstance(c, ast.Attribute) and c.attr in sc.by_class}
                    if len(attrs) == 1:
                        typed[tgt] = attrs.pop()
                if it is not None and isinstance(it, ast.Attribute) and it.attr in sc.by_class:
                    typed[tgt] = it.attr
            if not typed:
                continue
            for t in walk_no_nested(f.node):
                if isinstance(t, ast.Tuple) and len(t.elts) >= 2 and all(isinstance(e, ast.Attribute) and isinstance(e.value, ast.Name) for e in t.elts):
                    bases = {e.value.id for e in t.elts}
                    if len(bases) != 1:
                        continue
                    var = bases.pop()
                    cls = typed.get(var)
                    if cls is None or isinstance(t.ctx, ast.Store):
                        continue
                    # identity use only: appended/added to a collection, used as a dict key or subscript, or compared
                    p = parent(t)
                    ident = (isinstance(p, ast.Call) and last_attr(p) in ("append", "add") and t in p.args) or (isinstance(p, ast.Dict) and any(k is t for k in p.keys)) or (isinstance(p, ast.DictComp) and p.key is t) or (isinstance(p, ast.Subscript) and p.slice is t) or isinstance(p, ast.Compare) or (isinstance(p, (ast.Set, ast.SetComp)))
                    if not ident:
                        continue
                    got = {e.attr for e in t.elts}
                    fmts = sc.formats_of(cls)
                    # the format in force: from an enclosing `var.Format != k: return` / `== k` test, else all formats
                    fields = set()
                    for full, fmt in fmts:
                        fields |= {x.name for x in sc.tables[full]}
                    fmt_tests = [try_fold(c.comparators[0]) for c in ast.walk(f.node) if isinstance(c, ast.Compare) and norm(c.left) == f"{var}.Format"]
                    if fmt_tests and all(isinstance(k, int) for k in fmt_tests):
                        fields = set()
                        for full, fmt in fmts:
                            if fmt in fmt_tests:
                                fields |= {x.name for x in sc.tables[full]}
                    if not got <= fields:
                        continue
                    want = {x for x in fields if not x.endswith("Format") and x != "Format"}
                    n += 1
                    missing = sorted(want - got)
                    ctx.ob(rule, f.where, f"key of {cls}: ({', '.join(sorted(got))})", not missing, "" if not missing else f"identity key omits {missing}: records differing only there are treated as duplicates")
    ctx.info.setdefault("key_sites", {})[rule] = n



# ---------------------------------------------------------------------------
# built-in positive examples for lints whose expected count on a healthy tree is zero
# ---------------------------------------------------------------------------
class _OneModuleRepo:
    def __init__(self, src):
        from ..core import Module

        self._m = Module(None, "_selfcheck.py", "fontTools._selfcheck", src)

    def rels(self):
        return ["_selfcheck.py"]

    def mod(self, rel):
        return self._m

    def has(self, rel):
        return rel == "_selfcheck.py"


_POSITIVE = {
    "LOST-UPD": "def f(o):\n    lst = o.items\n    lst = sorted(lst)\n",
    "NUM-TRUTH": "def f(a):\n    y = a.get('y')\n    if y is not None:\n        y = float(y)\n    if y:\n        return y\n",
    "LEN-1": "def f(xs):\n    for i in range(len(xs) - 1):\n        print(xs[i])\n",
    "LOOP-LEAK": "def f(fds, gs):\n    for fd in fds:\n        best = fd.w\n    for g in gs:\n        g.w = best\n",
}


def _selfcheck(ctx, rule, fn):
    from ..report import Ctx

    sub = Ctx("SELF")
    fn(sub, _OneModuleRepo(_POSITIVE[rule]), scope=("",), rule=rule, _self=True)
    fired = any(not o.ok for o in sub.obs)
    ctx.ob(rule, "<built-in example>", "the detector reports the built-in positive example", fired, "" if fired else "the lint no longer recognises its own pattern: a pass on the tree would be vacuous")


# ---------------------------------------------------------------------------
# LOST-UPDATE: `x = f(x)` whose result is never read (an in-place update replaced by a rebinding)
# ---------------------------------------------------------------------------
LOST_UPDATE_AUDIT = {
    ("ttLib/tables/S__i_l_f.py", "Pass.decompile", "data = data[oActions[-1]:]"): "trailing cursor advance after the last field; nothing follows",
    ("varLib/instancer/names.py", "_updateNameTableStyleRecords", "currentStyleName = currentStyleName.toUnicode()"): "unused twin of currentFamilyName; toUnicode() has no effect on the record",
}


def _loads(node):
    return {n.id for n in ast.walk(node) if isinstance(n, ast.Name) and isinstance(n.ctx, (ast.Load, ast.Del))}


def _free_loads(n):
    """names a nested function / lambda reads from the enclosing scope (its own parameters and plain local
    bindings are not free)"""
    if isinstance(n, ast.ClassDef):
        return _loads(n)
    a = n.args
    own = {x.arg for x in a.posonlyargs + a.args + a.kwonlyargs}
    if a.vararg:
        own.add(a.vararg.arg)
    if a.kwarg:
        own.add(a.kwarg.arg)
    body = n.body if isinstance(n.body, list) else [n.body]
    nonlocal_ = set()
    for st in body:
        for m in ast.walk(st):
            if isinstance(m, (ast.Global, ast.Nonlocal)):
                nonlocal_.update(m.names)
            if isinstance(m, ast.Name) and isinstance(m.ctx, ast.Store):
                own.add(m.id)
    own -= nonlocal_
    out = set()
    for st in body:
        out |= _loads(st)
    return out - own


def _kills(sn, x):
    """statement re-binds the plain name x without reading it (reads were checked before)"""
    if isinstance(sn, ast.Assign):
        return any(isinstance(t, ast.Name) and t.id == x for t in sn.targets)
    if isinstance(sn, ast.AnnAssign):
        return isinstance(sn.target, ast.Name) and sn.target.id == x and sn.value is not None
    if isinstance(sn, (ast.For, ast.AsyncFor)):
        return False  # the target is only bound when the loop body runs
    return False


def _header_parts(sn):
    if isinstance(sn, (ast.If, ast.While)):
        return [sn.test]
    if isinstance(sn, (ast.For, ast.AsyncFor)):
        return [sn.iter, sn.target]
    if isinstance(sn, (ast.With, ast.AsyncWith)):
        return [it.context_expr for it in sn.items]
    if isinstance(sn, ast.Try):
        return []
    if isinstance(sn, ast.ExceptHandler):
        return [sn.type] if sn.type else []
    if isinstance(sn, ast.Match):
        return [sn.subject]
    return [sn]


def lost_update(ctx, repo, scope=("",), rule="LOST-UPD", _self=False):
    from ..cfg import CFG

    ctx.rule(rule, "a local rebinding computed from the variable's own value (x = sorted(x), x = x[...], x = f(x)) is read afterwards; a dead one means an in-place update of shared data was replaced by a discarded copy", floor=1)
    if not _self:
        _selfcheck(ctx, rule, lost_update)
    seen_audit = set()
    for rel in sorted(repo.rels()):
        if not rel.startswith(tuple(scope)):
            continue
        mod = repo.mod(rel)
        total = 0
        dead = []
        for q, f in sorted(mod.funcs.items()):
            fn = f.node
            cands = [st for st in walk_no_nested(fn) if isinstance(st, ast.Assign) and len(st.targets) == 1 and isinstance(st.targets[0], ast.Name) and st.targets[0].id in _loads(st.value)]
            if not cands:
                continue
            skip = set()
            for n in ast.walk(fn):
                if isinstance(n, (ast.Global, ast.Nonlocal)):
                    skip.update(n.names)
                if n is not fn and isinstance(n, (ast.FunctionDef, ast.AsyncFunctionDef, ast.Lambda, ast.ClassDef)):
                    skip |= _free_loads(n)
            g = None
            for st in cands:
                x = st.targets[0].id
                if x in skip:
                    continue
                if g is None:
                    g = CFG(fn)
                i = g.id_of(st)
                if i is None:
                    continue
                total += 1
                # liveness: is x read on some path before it is re-bound?
                used = False
                seen_n = set()
                stack = list(g.succ[i])
                while stack and not used:
                    j = stack.pop()
                    if j in seen_n:
                        continue
                    seen_n.add(j)
                    sj = g.stmt[j]
                    if sj is not None:
                        if any(x in _loads(p) for p in _header_parts(sj)):
                            used = True
                            break
                        if _kills(sj, x):
                            continue
                    stack.extend(g.succ[j])
                if not used:
                    key = (rel, q, norm(st))
                    if key in LOST_UPDATE_AUDIT:
                        seen_audit.add(key)
                        ctx.ob(rule, f"{rel}:{q}", f"{norm(st)} (audited: {LOST_UPDATE_AUDIT[key]})", True)
                    else:
                        dead.append((q, st))
        if total:
            ctx.ob(rule, f"{rel}:<module>", f"{total} self-updating rebindings are all read afterwards", not dead, "" if not dead else "; ".join(f"{q}: `{norm(st)}` is never read" for q, st in dead[:3]))
    for key in LOST_UPDATE_AUDIT:
        if key[0].startswith(tuple(scope)) and key not in seen_audit and repo.has(key[0]):
            ctx.note(f"{rule}: audited exception no longer present: {key}")


# ---------------------------------------------------------------------------
# SAVE-RESTORE: orig = obj.attr; obj.attr = <temp>; ...; obj.attr = orig
# ---------------------------------------------------------------------------
def save_restore(ctx, repo, scope=("",), rule="SAVE-REST"):
    from ..cfg import CFG

    ctx.rule(rule, "where a function saves a field (v = o.f), overwrites it and later restores it (o.f = v), the save happens before any overwrite on every path and the saved variable is not reassigned in between", floor=1)
    for rel in sorted(repo.rels()):
        if not rel.startswith(tuple(scope)):
            continue
        mod = repo.mod(rel)
        for q, f in sorted(mod.funcs.items()):
            fn = f.node
            sts = [s for s in walk_no_nested(fn) if isinstance(s, (ast.Assign, ast.AugAssign))]
            saves = {}
            for st in sts:
                if isinstance(st, ast.Assign) and len(st.targets) == 1 and isinstance(st.targets[0], ast.Name) and isinstance(st.value, (ast.Attribute, ast.Subscript)):
                    saves.setdefault((st.targets[0].id, norm(st.value)), []).append(st)
            if not saves:
                continue
            # cross restore: o.f = v where v was saved from o.g and o.f has its own saved copy
            saved_exprs = {e: v for (v, e) in saves}
            for st in sts:
                if isinstance(st, ast.Assign) and len(st.targets) == 1 and isinstance(st.targets[0], ast.Attribute) and isinstance(st.value, ast.Name):
                    tgt = norm(st.targets[0])
                    src = [e for (v, e) in saves if v == st.value.id]
                    if tgt in saved_exprs and src and tgt not in src and len([n for n in ast.walk(fn) if isinstance(n, ast.Name) and n.id == st.value.id and isinstance(n.ctx, ast.Store)]) == 1 and saves[(st.value.id, src[0])][0].lineno < st.lineno:
                        ctx.ob(rule, f"{rel}:{q}", f"{norm(st)} (restore)", False, f"`{st.value.id}` holds the saved `{src[0]}`; `{tgt}` was saved in `{saved_exprs[tgt]}`")
            g = None
            for st in sts:
                if not (isinstance(st, ast.Assign) and len(st.targets) == 1 and isinstance(st.targets[0], (ast.Attribute, ast.Subscript)) and isinstance(st.value, ast.Name)):
                    continue
                k = (st.value.id, norm(st.targets[0]))
                if k not in saves:
                    continue
                sv = saves[k][0]
                if sv.lineno >= st.lineno:
                    continue
                others = [s for s in sts if s is not st and s is not sv and any(norm(t) == k[1] for t in (s.targets if isinstance(s, ast.Assign) else [s.target]))]
                if not others:
                    continue  # not a save/overwrite/restore triple (a cache fill or similar)
                vstores = [n for n in ast.walk(fn) if isinstance(n, ast.Name) and n.id == k[0] and isinstance(n.ctx, ast.Store)]
                if len(vstores) != len(saves[k]):
                    continue  # the variable is a working copy that is updated and written back, not a saved original
                if g is None:
                    g = CFG(fn)
                isv, ire = g.id_of(sv), g.id_of(st)
                if isv is None or ire is None:
                    continue
                ids = [(s, g.id_of(s)) for s in others if g.id_of(s) is not None]
                # a triple needs an overwrite that can run before the restore
                if not any(g.reachable(i, ire) for s, i in ids):
                    continue
                early = []
                for one in saves[k]:
                    io = g.id_of(one)
                    if io is None or one.lineno >= st.lineno:
                        continue
                    early += [s for s, i in ids if i != io and g.paths_avoiding(i, io, {ire}) and not g.dominates(io, i)]
                reassigned = []
                ok = not early and not reassigned
                ctx.ob(rule, f"{rel}:{q}", f"{norm(sv)} ... {norm(st)}", ok, "" if ok else (f"`{norm(early[0])}` overwrites the field before it is saved: the restore writes back the temporary value" if early else f"saved variable reassigned by `{norm(reassigned[0])}`"))


# ---------------------------------------------------------------------------
# NUM-TRUTH: optional numbers are tested with `is None`, not by truthiness
# ---------------------------------------------------------------------------
def num_truth(ctx, repo, scope=("",), rule="NUM-TRUTH", _self=False):
    ctx.rule(rule, "a variable that holds a parsed number (x = float(..)/int(..)) and is elsewhere in the same function compared with None is never tested by truthiness: 0 is a value, not 'absent'", floor=1)
    if not _self:
        _selfcheck(ctx, rule, num_truth)
    CONV = {"float", "int", "otRound", "round", "safeEval", "str2fl", "strToFixedToFloat"}
    for rel in sorted(repo.rels()):
        if not rel.startswith(tuple(scope)):
            continue
        mod = repo.mod(rel)
        total = 0
        bad = []
        for q, f in sorted(mod.funcs.items()):
            nonetest, numeric, truth = set(), set(), []
            for n in walk_no_nested(f.node):
                if isinstance(n, ast.Compare) and len(n.ops) == 1 and isinstance(n.ops[0], (ast.Is, ast.IsNot)) and isinstance(n.comparators[0], ast.Constant) and n.comparators[0].value is None and isinstance(n.left, ast.Name):
                    nonetest.add(n.left.id)
                elif isinstance(n, (ast.If, ast.While, ast.IfExp)):
                    ts = n.test.values if isinstance(n.test, ast.BoolOp) else [n.test]
                    for x in ts:
                        if isinstance(x, ast.UnaryOp) and isinstance(x.op, ast.Not):
                            x = x.operand
                        if isinstance(x, ast.Name):
                            truth.append((x.id, n))
                elif isinstance(n, ast.Assign) and ((isinstance(n.value, ast.Call) and (call_name(n.value) or "").split(".")[-1] in CONV) or (isinstance(n.value, ast.BinOp) and isinstance(n.value.op, (ast.Sub, ast.Mod, ast.FloorDiv, ast.LShift, ast.RShift, ast.BitAnd)) and not (isinstance(n.value.left, ast.Constant) and isinstance(n.value.left.value, (str, bytes))))):
                    # a difference, remainder, quotient, shift or mask is a number (0 is a legitimate result)
                    for t in n.targets:
                        if isinstance(t, ast.Name):
                            numeric.add(t.id)
            opt = nonetest & numeric
            total += len(opt)
            for v, n in truth:
                if v in opt:
                    bad.append(f"{q}: `{norm(n.test)[:50]}` tests `{v}` by truthiness")
        if total:
            ctx.ob(rule, f"{rel}:<module>", f"{total} optional numeric variables: none truth-tested", not bad, "; ".join(bad[:2]))


# ---------------------------------------------------------------------------
# LEN-1: loops that stop one short of a sequence they only index with the loop variable
# ---------------------------------------------------------------------------
LEN1_AUDIT = {
    ("ttLib/tables/_c_m_a_p.py", "cmap_format_4.compile", "endCode"): "the last segment is the mandatory 0xFFFF terminator, handled after the loop",
    ("ttLib/tables/_c_m_a_p.py", "cmap_format_4.decompile", "startCode"): "the last segment is the 0xFFFF terminator and maps nothing",
    # (removed in session 3: the entry for _DehintingT2Decompiler.execute claimed "the last token is the operator being
    #  executed"; it is the program's final return/endchar only in CFF1 -- CFF2 has neither: genuine defect K31)
}


def len_minus_one(ctx, repo, scope=("",), rule="LEN-1", _self=False):
    ctx.rule(rule, "a loop `for i in range(len(X) - 1)` whose body reads X only as X[i] skips the last element; each such loop is an audited case (otherwise the last record is silently dropped)", floor=1)
    if not _self:
        _selfcheck(ctx, rule, len_minus_one)
    for rel in sorted(repo.rels()):
        if not rel.startswith(tuple(scope)):
            continue
        mod = repo.mod(rel)
        nloops = 0
        bad = []
        for q, f in sorted(mod.funcs.items()):
            for n in walk_no_nested(f.node):
                if not (isinstance(n, ast.For) and isinstance(n.iter, ast.Call) and norm(n.iter.func) == "range" and isinstance(n.target, ast.Name)):
                    continue
                nloops += 1
                a = n.iter.args[-1] if len(n.iter.args) <= 2 else n.iter.args[1]
                if not (isinstance(a, ast.BinOp) and isinstance(a.op, ast.Sub) and isinstance(a.right, ast.Constant) and a.right.value == 1 and isinstance(a.left, ast.Call) and norm(a.left.func) == "len" and a.left.args):
                    continue
                X = norm(a.left.args[0])
                idx = [norm(s.slice) for b in n.body for s in ast.walk(b) if isinstance(s, ast.Subscript) and norm(s.value) == X]
                if idx and all(x == n.target.id for x in idx):
                    key = (rel, q, X)
                    if key in LEN1_AUDIT:
                        ctx.ob(rule, f"{rel}:{q}", f"range(len({X}) - 1) (audited: {LEN1_AUDIT[key]})", True)
                    else:
                        bad.append(f"{q}: range(len({X}) - 1) indexes only {X}[{n.target.id}]")
        if nloops:
            ctx.ob(rule, f"{rel}:<module>", f"{nloops} range() loops: none stops one short of the sequence it indexes", not bad, "; ".join(bad[:2]))


# ---------------------------------------------------------------------------
# LOOP-LEAK: a value bound only inside one loop is read inside a later loop
# ---------------------------------------------------------------------------
LOOP_LEAK_AUDIT = {
    ("ttLib/tables/D_S_I_G_.py", "table_D_S_I_G_.decompile", "n"): "stale record number in an assertion message only",
}


def loop_leak(ctx, repo, scope=("",), rule="LOOP-LEAK", _self=False):
    ctx.rule(rule, "a variable whose only bindings are inside one for-loop is not read inside a later sibling loop (there it holds whatever the last iteration of the earlier loop left, e.g. the last font dict's value for every glyph)", floor=1)
    if not _self:
        _selfcheck(ctx, rule, loop_leak)
    for rel in sorted(repo.rels()):
        if not rel.startswith(tuple(scope)):
            continue
        mod = repo.mod(rel)
        nl = 0
        bad = []
        for q, f in sorted(mod.funcs.items()):
            fn = f.node
            a = fn.args
            params = {x.arg for x in a.args + a.kwonlyargs + a.posonlyargs} | ({a.vararg.arg} if a.vararg else set()) | ({a.kwarg.arg} if a.kwarg else set())
            loops = [l for l in walk_no_nested(fn) if isinstance(l, ast.For)]
            if len(loops) < 2:
                continue
            allstores = {}
            for x in ast.walk(fn):
                if isinstance(x, ast.Name) and isinstance(x.ctx, ast.Store):
                    allstores.setdefault(x.id, []).append(x)
            for l in loops:
                nl += 1
                inner = {id(x) for x in ast.walk(l)}
                only = {name for name, ss in allstores.items() if all(id(s) in inner for s in ss)} - params
                if not only:
                    continue
                p = parent(l)
                for fld in ("body", "orelse", "finalbody"):
                    b = getattr(p, fld, None)
                    if isinstance(b, list) and l in b:
                        for st in b[b.index(l) + 1 :]:
                            if isinstance(st, (ast.For, ast.While)):
                                for x in ast.walk(st):
                                    if isinstance(x, ast.Name) and isinstance(x.ctx, ast.Load) and x.id in only:
                                        only = only - {x.id}
                                        key = (rel, q, x.id)
                                        if key in LOOP_LEAK_AUDIT:
                                            ctx.ob(rule, f"{rel}:{q}", f"`{x.id}` (audited: {LOOP_LEAK_AUDIT[key]})", True)
                                        else:
                                            bad.append(f"{q}: `{x.id}` is bound only in the loop over `{norm(l.iter)[:40]}` but read in the later loop over `{norm(getattr(st, 'iter', getattr(st, 'test', None)))[:40]}`")
        if nl:
            ctx.ob(rule, f"{rel}:<module>", f"{nl} loops in multi-loop functions: no value leaks from one loop into a later one", not bad, "; ".join(bad[:2]))


GENERIC = [lost_update, num_truth, len_minus_one, loop_leak]


# ---------------------------------------------------------------------------
# CLONE: deliberate copies of one routine in two modules stay identical
# ---------------------------------------------------------------------------
class _Canon(ast.NodeTransformer):
    def __init__(self):
        self.m = {}

    def k(self, s):
        return self.m.setdefault(s, f"v{len(self.m)}")

    def visit_Name(self, n):
        return ast.copy_location(ast.Name(id=self.k(n.id), ctx=n.ctx), n)

    def visit_arg(self, n):
        n.arg = self.k(n.arg)
        n.annotation = None
        return n


class _FoldConsts(ast.NodeTransformer):
    """replace sub-expressions that fold to a number / string through the module environment by the literal"""

    def __init__(self, env, local_names):
        self.env = env
        self.local = local_names

    def generic_visit(self, n):
        from ..consteval import fold, Unknown

        if isinstance(n, (ast.Name, ast.Attribute, ast.BinOp, ast.UnaryOp)) and not isinstance(getattr(n, "ctx", None), (ast.Store, ast.Del)):
            if not (isinstance(n, ast.Name) and n.id in self.local):
                try:
                    v = fold(n, self.env)
                    if isinstance(v, (int, float, str, bytes)) and not isinstance(v, bool):
                        return ast.copy_location(ast.Constant(value=v), n)
                except (Unknown, RecursionError, ZeroDivisionError, TypeError, ValueError):
                    pass
        return super().generic_visit(n)


class _Shape(ast.NodeTransformer):
    """erase names, constants and operators: what is left is the statement / expression structure"""

    def visit_Name(self, n):
        return ast.copy_location(ast.Name(id="_", ctx=n.ctx), n)

    def visit_Constant(self, n):
        return ast.copy_location(ast.Constant(value=0), n)

    def visit_Attribute(self, n):
        self.generic_visit(n)
        n.attr = "_"
        return n

    def visit_BinOp(self, n):
        self.generic_visit(n)
        n.op = ast.Add()
        return n

    def visit_Compare(self, n):
        self.generic_visit(n)
        n.ops = [ast.Eq() for _ in n.ops]
        return n

    def visit_arg(self, n):
        n.arg = "_"
        n.annotation = None
        return n


def _canon_dump(fnode, shape=False):
    import copy
    from ..consteval import env_of

    env = env_of(fnode)
    fn = ast.parse(norm(fnode)).body[0]  # clone without parent links
    local_names = {a.arg for a in fn.args.posonlyargs + fn.args.args + fn.args.kwonlyargs} | {x.id for x in ast.walk(fn) if isinstance(x, ast.Name) and isinstance(x.ctx, ast.Store)}
    if env is not None:
        fn = _FoldConsts(env, local_names).visit(fn)
        ast.fix_missing_locations(fn)
    if shape:
        fn = _Shape().visit(fn)
    fn.body = [s for s in fn.body if not (isinstance(s, ast.Expr) and isinstance(s.value, ast.Constant) and isinstance(s.value.value, str))]
    fn.decorator_list = []
    fn.returns = None
    for n in ast.walk(fn):
        if isinstance(n, ast.AnnAssign):
            n.annotation = ast.Constant(value=None)
    fn.name = "f"
    return _dump_stmts(fn)


def _dump_stmts(fn):
    c = _Canon()
    c.visit(fn.args)
    return [ast.dump(c.visit(s)) for s in fn.body]


CLONES = {
    "C13": [("cu2qu/cu2qu.py", "cubic_farthest_fit_inside", "qu2cu/qu2cu.py", "cubic_farthest_fit_inside")],
    "C19": [
        ("misc/filenames.py", "handleClash1", "ufoLib/filenames.py", "handleClash1"),
        ("misc/filenames.py", "handleClash2", "ufoLib/filenames.py", "handleClash2"),
    ],
}


def clones(ctx, repo, prop="C13", rule="CLONE"):
    ctx.rule(rule, "routines that exist as deliberate copies in two modules are still the same program up to renaming of local names (a change made to one copy only leaves the other with the old behaviour, or is itself the slip)", floor=1)
    for ra, qa, rb, qb in CLONES[prop]:
        fa, fb = repo.mod(ra).func(qa), repo.mod(rb).func(qb)
        da, db = _canon_dump(fa.node), _canon_dump(fb.node)
        ok = da == db
        detail = ""
        if not ok and _canon_dump(fa.node, shape=True) != _canon_dump(fb.node, shape=True):
            # the copies no longer have the same statement structure: one of them was restructured (guard clauses, helper
            # extraction, loops rewritten).  That is not copy-paste drift and the two cannot be compared statement by statement.
            ctx.note(f"{rule}: {ra}:{qa} and {rb}:{qb} differ in structure; not compared (only same-shape copies are held to agree)")
            ctx.ob(rule, fa.where, f"{ra}:{qa} vs {rb}:{qb}: restructured copies, not compared", True)
            continue
        if not ok:
            i = next((i for i, (x, y) in enumerate(zip(da, db)) if x != y), min(len(da), len(db)))
            sa = [s for s in fa.node.body if not (isinstance(s, ast.Expr) and isinstance(s.value, ast.Constant))]
            sb = [s for s in fb.node.body if not (isinstance(s, ast.Expr) and isinstance(s.value, ast.Constant))]
            detail = f"first difference at statement {i + 1}: `{norm(sa[i])[:70] if i < len(sa) else '<end>'}` vs `{norm(sb[i])[:70] if i < len(sb) else '<end>'}`"
        ctx.ob(rule, fa.where, f"{ra}:{qa} == {rb}:{qb} (up to local names, annotations, docstrings)", ok, detail)


# ---------------------------------------------------------------------------
# XY-TWIN: adjacent compound statements that are x/y mirror images stay mirror images
# ---------------------------------------------------------------------------
_XNAME = re.compile(r"(^|_)[xX]($|_|\d)|[a-z]X[A-Z]?|^x[A-Z]|X$|Xs$")


def _swap_xy(name):
    return re.sub(r"[xyXY]", lambda m: {"x": "y", "y": "x", "X": "Y", "Y": "X"}[m.group(0)], name)


def _idents(node):
    return {n.id for n in ast.walk(node) if isinstance(n, ast.Name)} | {n.attr for n in ast.walk(node) if isinstance(n, ast.Attribute)}


def xy_twins(ctx, repo, scope=("",), rule="XY-TWIN", _self=False):
    import copy

    ctx.rule(rule, "two adjacent if/for/while statements whose identifiers are x/y mirror images of each other (x <-> y, flagXShort <-> flagYShort, ...) are the same statement after that renaming: boundaries, operators and constants agree between the two coordinates", floor=1)
    if not _self:
        _selfcheck(ctx, rule, xy_twins)
    for rel in sorted(repo.rels()):
        if not rel.startswith(tuple(scope)):
            continue
        mod = repo.mod(rel)
        tot = 0
        bad = []
        for node in ast.walk(mod.tree):
            for fld in ("body", "orelse"):
                b = getattr(node, fld, None)
                if not isinstance(b, list):
                    continue
                for s1, s2 in zip(b, b[1:]):
                    if type(s1) is not type(s2) or not isinstance(s1, (ast.If, ast.For, ast.While)):
                        continue
                    i1, i2 = _idents(s1), _idents(s2)
                    if i1 == i2:
                        continue
                    xi = {n for n in i1 if _XNAME.search(n)}
                    if not xi or {(_swap_xy(n) if n in xi else n) for n in i1} != i2:
                        continue

                    class Sw(ast.NodeTransformer):
                        def visit_Name(self, n):
                            return ast.copy_location(ast.Name(id=_swap_xy(n.id) if n.id in xi else n.id, ctx=n.ctx), n)

                        def visit_Attribute(self, n):
                            self.generic_visit(n)
                            if n.attr in xi:
                                n.attr = _swap_xy(n.attr)
                            return n

                    tot += 1
                    if ast.dump(Sw().visit(ast.parse(norm(s1)).body[0])) != ast.dump(ast.parse(norm(s2)).body[0]):
                        bad.append(f"`{norm(s1)[:60]}` vs `{norm(s2)[:60]}`")
        if tot:
            ctx.ob(rule, f"{rel}:<module>", f"{tot} x/y twin statement pairs are mirror images", not bad, "; ".join(bad[:2]))


_POSITIVE["XY-TWIN"] = "def f(x, y, out):\n    if -255 <= x <= 255:\n        out.append(x)\n    if -255 <= y <= 256:\n        out.append(y)\n"
GENERIC.append(xy_twins)


# ---------------------------------------------------------------------------
# SIGN-EXT: manual two's-complement sign extension
# ---------------------------------------------------------------------------
def sign_extension(ctx, repo, scope=("",), rule="SIGN-EXT", _self=False):
    from ..consteval import module_env

    ctx.rule(rule, "a manual sign extension `if v >= T: v -= M` subtracts M = 2*T with T a power of two (the first value with the sign bit set); `> T` or another modulus maps exactly one value (or half the range) to the wrong sign", floor=1)
    if not _self:
        _selfcheck(ctx, rule, sign_extension)
    for rel in sorted(repo.rels()):
        if not rel.startswith(tuple(scope)):
            continue
        mod = repo.mod(rel)
        env = module_env(repo, mod) if getattr(mod, "repo", None) is not None else None
        for n in ast.walk(mod.tree):
            if not (isinstance(n, ast.If) and isinstance(n.test, ast.Compare) and len(n.test.ops) == 1 and len(n.body) == 1 and not n.orelse):
                continue
            b = n.body[0]
            sub = None
            if isinstance(b, ast.AugAssign) and isinstance(b.op, ast.Sub):
                sub = (norm(b.target), try_fold(b.value, env))
            elif isinstance(b, ast.Assign) and isinstance(b.value, ast.BinOp) and isinstance(b.value.op, ast.Sub) and norm(b.targets[0]) == norm(b.value.left):
                sub = (norm(b.targets[0]), try_fold(b.value.right, env))
            if not sub or not isinstance(sub[1], int) or sub[1] < 256 or sub[1] & (sub[1] - 1) or norm(n.test.left) != sub[0]:
                continue
            k = try_fold(n.test.comparators[0], env)
            op = n.test.ops[0]
            first = k if isinstance(op, ast.GtE) else k + 1 if isinstance(op, ast.Gt) and isinstance(k, int) else None
            ok = isinstance(first, int) and 2 * first == sub[1]
            from .safety import _func_qual_of
            where = f"{rel}:{_func_qual_of(mod, n)}" if getattr(mod, "repo", None) is not None else f"{rel}:f"
            ctx.ob(rule, where, f"if {norm(n.test)}: {norm(b)}", ok, "" if ok else f"values from {first} on are mapped down by {sub[1]}: the sign bit of a {sub[1].bit_length() - 1}-bit field is {sub[1] // 2}")


_POSITIVE["SIGN-EXT"] = "def f(value):\n    if value > 32768:\n        value -= 65536\n    return value\n"
GENERIC.append(sign_extension)


# ---------------------------------------------------------------------------
# COMP-VAR: a comprehension over a collection uses its loop variable
# ---------------------------------------------------------------------------
def comprehension_var(ctx, repo, scope=("",), rule="COMP-VAR", _self=False):
    ctx.rule(rule, "a comprehension that walks a collection (not a range) mentions its loop variable in the element or a filter, unless the element is a constant or a fresh object: otherwise every item gets the same outer value (a per-item attribute replaced by an outer one)", floor=1)
    if not _self:
        _selfcheck(ctx, rule, comprehension_var)
    for rel in sorted(repo.rels()):
        if not rel.startswith(tuple(scope)):
            continue
        mod = repo.mod(rel)
        tot = 0
        bad = []
        for c in ast.walk(mod.tree):
            if not isinstance(c, (ast.ListComp, ast.SetComp, ast.GeneratorExp, ast.DictComp)):
                continue
            tv = set()
            for g in c.generators:
                tv |= {x.id for x in ast.walk(g.target) if isinstance(x, ast.Name)}
            tv = {t for t in tv if not t.startswith("_")}
            if not tv:
                continue
            tot += 1
            elts = [c.key, c.value] if isinstance(c, ast.DictComp) else [c.elt]
            used = {x.id for e in elts for x in ast.walk(e) if isinstance(x, ast.Name)}
            for g in c.generators:
                for i in g.ifs:
                    used |= {x.id for x in ast.walk(i) if isinstance(x, ast.Name)}
            for g in c.generators[1:]:
                used |= {x.id for x in ast.walk(g.iter) if isinstance(x, ast.Name)}
            if tv & used:
                continue
            it = c.generators[0].iter
            if isinstance(it, ast.Call) and call_name(it) in ("range", "itertools.repeat", "repeat"):
                continue
            e = elts[-1]
            if isinstance(e, ast.Constant) or (isinstance(e, ast.Call) and not e.args and not e.keywords) or isinstance(e, (ast.List, ast.Dict, ast.Tuple, ast.Set)) and not any(isinstance(x, ast.Name) for x in ast.walk(e)):
                continue
            bad.append(f"`{norm(c)[:80]}` never uses {sorted(tv)}")
        if tot:
            ctx.ob(rule, f"{rel}:<module>", f"{tot} comprehensions use their loop variable (or build constants)", not bad, "; ".join(bad[:2]))


_POSITIVE["COMP-VAR"] = "def f(self, lst):\n    return [self.Coverage.glyphs for l in lst]\n"
GENERIC.append(comprehension_var)

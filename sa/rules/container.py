"""C04: F10 DEP-ORDER, container constants vs computed sizes, alignment idiom,
sorted directory, checksum coverage, F22 sibling recalcs."""

from __future__ import annotations

import ast
import re

from ..core import AnalysisError, norm, calls_in, call_name, last_attr, walk_no_nested, parent
from ..consteval import try_fold, module_env, fold_module_sequence, Unknown
from ..cfg import CFG, guard_conditions
from ..fmt import sstruct_parse
from .. import inject

FONT_NAMES = ("ttFont", "font", "otFont")



from ..core import inline_locals as _inline_locals
from ..consteval import cnorm

_text_norm = norm
norm = cnorm  # every text comparison in this module is made after folding named constants to their literal values


def _default_env_of(node):
    from ..consteval import _default_env

    return _default_env(node)


def _head_patch_offset(fn, want):
    seeks = [c.args[0] for c in calls_in(fn) if last_attr(c) == "seek" and c.args]
    texts = [cnorm(_inline_locals(fn, e), _default_env_of(fn)) for e in seeks]
    return texts, texts == [f"self.tables['head'].offset + {want}"]


def _table_ref(e, cls, repo):
    """if expression e denotes another table of the font (ttFont["U"], ttFont.get("U"), ttFont.get(self.headerTag)) return its tag"""
    if isinstance(e, ast.Subscript) and isinstance(e.value, ast.Name) and e.value.id in FONT_NAMES:
        t = try_fold(e.slice)
        if isinstance(t, str):
            return t
        if norm(e.slice).startswith("self.") and cls is not None:
            v = repo.lookup_class_attr(cls, norm(e.slice)[5:])
            return try_fold(v) if v is not None else None
    if isinstance(e, ast.Call) and isinstance(e.func, ast.Attribute) and e.func.attr == "get" and isinstance(e.func.value, ast.Name) and e.func.value.id in FONT_NAMES and e.args:
        t = try_fold(e.args[0])
        if isinstance(t, str):
            return t
        if norm(e.args[0]).startswith("self.") and cls is not None:
            v = repo.lookup_class_attr(cls, norm(e.args[0])[5:])
            return try_fold(v) if v is not None else None
    return None


def compile_closure(repo, c):
    """compile plus the methods it reaches through self.* within the MRO"""
    start = repo.lookup_method(c, "compile")
    if start is None:
        return []
    seen, todo = {}, [start]
    while todo:
        f = todo.pop()
        if f.where in seen:
            continue
        seen[f.where] = f
        for call in calls_in(f.node):
            if isinstance(call.func, ast.Attribute) and isinstance(call.func.value, ast.Name) and call.func.value.id == "self":
                g = repo.lookup_method(c, call.func.attr)
                if g is not None:
                    todo.append(g)
    return list(seen.values())


def cross_table_effects(repo, c):
    """[(kind 'W'|'R', other tag, function, text)] for the compile closure of table class c"""
    out = []
    for f in compile_closure(repo, c):
        alias = {}
        for n in walk_no_nested(f.node):
            if isinstance(n, ast.Assign) and isinstance(n.targets[0], ast.Name):
                t = _table_ref(n.value, c, repo)
                if t:
                    alias[n.targets[0].id] = t
        def tag_of(e):
            t = _table_ref(e, c, repo)
            if t:
                return t
            if isinstance(e, ast.Name) and e.id in alias:
                return alias[e.id]
            return None

        for n in walk_no_nested(f.node):
            tgts = []
            if isinstance(n, ast.Assign):
                tgts = n.targets
            elif isinstance(n, ast.AugAssign):
                tgts = [n.target]
            for t in tgts:
                for e in ast.walk(t) if isinstance(t, (ast.Tuple, ast.List)) else [t]:
                    if isinstance(e, ast.Attribute):
                        u = tag_of(e.value)
                        if u:
                            out.append(("W", u, f, norm(e)))
            if isinstance(n, ast.Call):
                if call_name(n) == "setattr" and n.args:
                    u = tag_of(n.args[0])
                    if u:
                        out.append(("W", u, f, norm(n)[:60]))
                elif isinstance(n.func, ast.Attribute) and n.func.attr in ("set", "setGlyphOrder") and tag_of(n.func.value):
                    out.append(("W", tag_of(n.func.value), f, norm(n)[:60]))
            if isinstance(n, ast.Attribute) and isinstance(n.ctx, ast.Load):
                u = tag_of(n.value)
                if u:
                    out.append(("R", u, f, norm(n)))
    return out


# (reader, read table) pairs whose ordering is declared today and therefore kept as armed instances
READ_DEPS = {("head", "CFF"), ("head", "CFF2"), ("hhea", "hmtx"), ("hhea", "glyf"), ("hhea", "CFF"), ("hhea", "CFF2"), ("vhea", "vmtx"), ("vhea", "glyf"), ("vhea", "CFF"), ("vhea", "CFF2"), ("maxp", "glyf"), ("gvar", "glyf"), ("gvar", "fvar"), ("cvar", "fvar"), ("loca", "glyf"), ("name", "ltag"), ("avar", "fvar"), ("OS/2", "head")}


def f10_dep_order(ctx, repo):
    ctx.rule("F10", "a table whose compile stores into another table is listed (transitively) in that table's `dependencies`, so the writer is compiled first and the stored value reaches the file", floor=7)
    ctx.rule("F10r", "a table whose compile reads a field that another table recomputes while compiling lists that table in its `dependencies` (instances declared today)", floor=5)
    tags = inject.all_table_tags(repo)
    deps = {}
    for tag, c in tags.items():
        v = repo.lookup_class_attr(c, "dependencies")
        deps[tag.strip()] = [d.strip() for d in (try_fold(v) or [])] if v is not None else []

    def reach(t, seen=None):
        seen = seen if seen is not None else set()
        for d in deps.get(t, []):
            if d not in seen:
                seen.add(d)
                reach(d, seen)
        return seen

    derived_writers = {}  # tag U -> set of attrs stored into U by others / by itself during compile
    effects = {}
    for tag, c in sorted(tags.items()):
        effects[tag.strip()] = cross_table_effects(repo, c)
    for t, effs in sorted(effects.items()):
        for kind, u, f, text in effs:
            u = u.strip()
            if kind == "W" and u != t:
                ok = t in reach(u)
                ctx.ob("F10", f.where, f"'{t}' compile stores {text} into '{u}': '{u}'.dependencies reaches '{t}'", ok, "" if ok else f"'{u}' may be compiled before '{t}' updates it: the stale value is written to the file")
    # read rule: T reads U.x where U's own compile (re)computes attributes (tables with a recalc in their compile closure or known derived content)
    recomputing = {t for t, c in ((k.strip(), v) for k, v in tags.items()) if any(f.node.name in ("recalc", "recalcBounds") or True for f in compile_closure(repo, c)) and t in ("glyf", "CFF", "CFF2", "maxp", "hmtx", "vmtx", "loca", "head", "fvar", "cvt", "ltag", "EBDT", "CBDT", "EBLC", "Glat", "TSI1", "TSI3", "bdat")}
    for t, effs in sorted(effects.items()):
        seen_pairs = set()
        for kind, u, f, text in effs:
            u = u.strip()
            if kind == "R" and u != t and u in recomputing and (t, u) not in seen_pairs:
                seen_pairs.add((t, u))
                if (t, u) not in READ_DEPS:
                    ctx.note(f"{f.where}: '{t}' compile reads '{u}' ({text}) without a declared dependency (not armed: today's behaviour)")
                    continue
                ok = u in reach(t)
                ctx.ob("F10r", f.where, f"'{t}' compile reads '{u}' ({text}): '{t}'.dependencies reaches '{u}'", ok, "" if ok else f"'{t}' can be compiled before '{u}' has recomputed what it reads")
    ctx.info["dependencies"] = {k: v for k, v in deps.items() if v}
    # _writeTable honours dependencies before compiling the table itself
    wt = repo.mod("ttLib/ttFont.py").func("TTFont._writeTable")
    g = CFG(wt.node)
    loop = [n for n in walk_no_nested(wt.node) if isinstance(n, ast.For) and norm(n.iter) == "tableClass.dependencies"]
    comp = [c for c in calls_in(wt.node, nested=False) if last_attr(c) == "getTableData"]
    ok = bool(loop) and bool(comp) and g.dominates(g.id_of(loop[0]), g.id_of(comp[0])) and any(last_attr(c) == "_writeTable" for c in calls_in(loop[0]))
    ctx.ob("F10", wt.where, "dependencies are written (recursively) before the table's own data is produced", ok)


def container_constants(ctx, repo):
    ctx.rule("CONST", "container layout literals agree with the computed struct sizes and field offsets: directory sizes 12/16, searchRange item size, head.checkSumAdjustment at offset 8, fontRevision at 4..8", floor=10)
    m = repo.mod("ttLib/sfnt.py")
    env = module_env(repo, m)
    sizes = {}
    for name in ("sfntDirectoryFormat", "sfntDirectoryEntryFormat", "woffDirectoryFormat", "woffDirectoryEntryFormat", "ttcHeaderFormat"):
        try:
            sizes[name] = sstruct_parse(fold_module_sequence(repo, m, name))
        except (Unknown, ValueError) as ex:
            raise AnalysisError(f"cannot fold {name}: {ex}")
    ctx.ob("CONST", m.rel + ":<module>", f"sfnt directory = {sizes['sfntDirectoryFormat'].size} bytes, entry = {sizes['sfntDirectoryEntryFormat'].size} bytes", sizes["sfntDirectoryFormat"].size == 12 and sizes["sfntDirectoryEntryFormat"].size == 16)
    ctx.ob("CONST", m.rel + ":<module>", f"WOFF header = {sizes['woffDirectoryFormat'].size} bytes, entry = {sizes['woffDirectoryEntryFormat'].size} bytes", sizes["woffDirectoryFormat"].size == 44 and sizes["woffDirectoryEntryFormat"].size == 20)
    for nm in ("sfntDirectorySize", "sfntDirectoryEntrySize", "woffDirectorySize", "woffDirectoryEntrySize"):
        src = _text_norm(m.const(nm))
        want = f"sstruct.calcsize({nm.replace('Size', 'Format')})"
        ctx.ob("CONST", m.rel + ":<module>", f"{nm} = {src}", src == want, "" if src == want else "size constant no longer derived from its format")
    # literals in SFNTWriter.close: totalSfntSize = 12 + 16 * n
    cl = m.func("SFNTWriter.close")
    lits = sorted(try_fold(n.value) if isinstance(n, ast.Assign) else try_fold(n.value.left) for n in ast.walk(cl.node) if (isinstance(n, ast.Assign) and norm(n.targets[0]) == "self.totalSfntSize") or (isinstance(n, ast.AugAssign) and norm(n.target) == "self.totalSfntSize" and isinstance(n.value, ast.BinOp) and isinstance(n.value.op, ast.Mult)))
    ctx.ob("CONST", cl.where, f"totalSfntSize literals {lits} == [12, 16]", lits == [12, 16], "" if lits == [12, 16] else "WOFF totalSfntSize computed with the wrong header/entry size")
    mc = m.func("SFNTWriter._calcMasterChecksum")
    sr = [norm(c) for c in calls_in(mc.node) if call_name(c) == "getSearchRange"]
    ctx.ob("CONST", mc.where, f"{sr}", sr == ["getSearchRange(self.numTables, 16)"], "" if sr == ["getSearchRange(self.numTables, 16)"] else "searchRange computed with a wrong item size")
    init = m.func("SFNTWriter.__init__")
    sr2 = [norm(c) for c in calls_in(init.node) if call_name(c) == "getSearchRange"]
    ctx.ob("CONST", init.where, f"{sr2}", sr2 == ["getSearchRange(numTables, 16)"])
    # head field offsets
    hm = repo.mod("ttLib/tables/_h_e_a_d.py")
    hf = sstruct_parse(fold_module_sequence(repo, hm, "headFormat"))
    off = hf.offsets.get("checkSumAdjustment")
    ctx.ob("CONST", hm.rel + ":<module>", f"head.checkSumAdjustment at bytes {off}", off == (8, 12))
    ctx.ob("CONST", hm.rel + ":<module>", f"head.fontRevision at bytes {hf.offsets.get('fontRevision')}", hf.offsets.get("fontRevision") == (4, 8))
    wm = m.func("SFNTWriter.writeMasterChecksum")
    seek, ok = _head_patch_offset(wm.node, off[0] if off else 8)
    ctx.ob("CONST", wm.where, f"checksum adjustment written at {seek}", ok, "" if ok else "checksum adjustment written at the wrong offset inside head")
    # head checksum idiom data[:8] + 0 + data[12:]
    n_idiom = 0
    for rel in ("ttLib/sfnt.py", "ttLib/woff2.py", "ttLib/ttFont.py"):
        mod = repo.mod(rel)
        for c in calls_in(mod.tree):
            if call_name(c) == "calcChecksum" and c.args and "b'\\x00\\x00\\x00\\x00'" in norm(c.args[0]):
                n_idiom += 1
                t = norm(c.args[0])
                ok = bool(re.fullmatch(r"(\w+)\[:8\] \+ b'\\x00\\x00\\x00\\x00' \+ \1\[12:\]", t))
                from .safety import _func_qual_of

                ctx.ob("CONST", f"{rel}:{_func_qual_of(mod, c)}", f"head checksum computed over {t}", ok, "" if ok else "the zeroed window is not head.checkSumAdjustment (bytes 8..12)")
    ctx.ob("CONST", "ttLib/sfnt.py:<module>", f"{n_idiom} head-checksum sites found", n_idiom >= 3)
    ver = [norm(n) for n in ast.walk(cl.node) if isinstance(n, ast.Subscript) and norm(n.value) == "self.headTable"]
    ctx.ob("CONST", cl.where, f"WOFF version from head bytes {ver}", ver == ["self.headTable[4:8]"])


def alignment(ctx, repo):
    ctx.rule("ALIGN", "every round-up in the container writers is (x + 3) & ~3, padding bytes are zero, and the next table offset advances by the same padded length", floor=6)
    for rel in ("ttLib/sfnt.py", "ttLib/woff2.py", "ttLib/ttCollection.py", "ttLib/ttFont.py"):
        mod = repo.mod(rel)
        for n in ast.walk(mod.tree):
            if isinstance(n, ast.BinOp) and isinstance(n.op, ast.BitAnd) and isinstance(n.right, ast.UnaryOp) and isinstance(n.right.op, ast.Invert):
                t = _text_norm(n)
                m = re.fullmatch(r"(.+) \+ 3 & ~3", t)
                from .safety import _func_qual_of

                ctx.ob("ALIGN", f"{rel}:{_func_qual_of(mod, n)}", t, bool(m), "" if m else "round-up is not to the next multiple of four")
    m = repo.mod("ttLib/sfnt.py")
    si = m.func("SFNTWriter.__setitem__")
    txt = norm(si.node)
    txt = txt.replace("& -4", "& ~3")
    ok = "self.nextTableOffset = self.nextTableOffset + (entry.length + 3 & ~3)" in txt and "self.file.write(b'\\x00' * (self.nextTableOffset - self.file.tell()))" in txt
    ctx.ob("ALIGN", si.where, "table padded with NULs up to nextTableOffset = offset + padded length", ok, "" if ok else "padding bytes or next offset no longer follow the 4-byte rule")
    ok = "entry.offset = self.nextTableOffset" in txt
    ctx.ob("ALIGN", si.where, "entry.offset = self.nextTableOffset", ok)
    ok = "self.origNextTableOffset += entry.origLength + 3 & ~3" in txt
    ctx.ob("ALIGN", si.where, "WOFF origOffset advances by the padded original length", ok)
    pads = [norm(n) for n in ast.walk(m.tree) if isinstance(n, ast.BinOp) and isinstance(n.op, ast.Mult) and isinstance(n.left, ast.Constant) and isinstance(n.left.value, bytes)]
    ok = bool(pads) and all(p.startswith("b'\\x00' *") for p in pads)
    ctx.ob("ALIGN", m.rel + ":<module>", f"padding bytes: {sorted(set(p.split(' *')[0] for p in pads))}", ok, "" if ok else "non-zero padding")


def directory_and_checksums(ctx, repo):
    ctx.rule("DIR", "the table directory is written in sorted tag order after the table-count check; each entry's checksum is computed from the bytes stored; the master checksum covers every entry and the (sfnt-order) directory", floor=8)
    m = repo.mod("ttLib/sfnt.py")
    cl = m.func("SFNTWriter.close")
    g = CFG(cl.node)
    srt = [n for n in walk_no_nested(cl.node) if isinstance(n, ast.Assign) and norm(n.targets[0]) == "tables"]
    ok = len(srt) == 1 and norm(srt[0].value) == "sorted(self.tables.items())"
    ctx.ob("DIR", cl.where, "tables = sorted(self.tables.items())", ok, "" if ok else "directory entries are not sorted by tag")
    loops = [n for n in walk_no_nested(cl.node) if isinstance(n, ast.For) and norm(n.iter) == "tables" and any("entry.toString()" in norm(s) for s in n.body)]
    ctx.ob("DIR", cl.where, "directory built by iterating the sorted list", bool(loops))
    chk = [n for n in walk_no_nested(cl.node) if isinstance(n, ast.If) and "len(tables) != self.numTables" in norm(n.test) and any(isinstance(s, ast.Raise) for s in n.body)]
    ok = bool(chk) and bool(loops) and g.dominates(g.id_of(chk[0]), g.id_of(loops[0]))
    ctx.ob("DIR", cl.where, "wrong table count raises before anything is written", ok)
    si = m.func("SFNTWriter.__setitem__")
    cs = sorted(norm(n.value) for n in walk_no_nested(si.node) if isinstance(n, ast.Assign) and norm(n.targets[0]) == "entry.checkSum")
    ok = cs == ["calcChecksum(data)", "calcChecksum(data[:8] + b'\\x00\\x00\\x00\\x00' + data[12:])"]
    ctx.ob("DIR", si.where, f"entry.checkSum from {cs}", ok, "" if ok else "checksum computed over something other than the table data")
    sv = [c for c in calls_in(si.node) if last_attr(c) == "saveData"]
    ok = len(sv) == 1 and norm(sv[0].args[1]) == "data"
    ctx.ob("DIR", si.where, "the same `data` is stored (entry.saveData(self.file, data))", ok)
    mc = m.func("SFNTWriter._calcMasterChecksum")
    txt = norm(mc.node)
    # name-insensitive: (1) the value returned is MAGIC - (sum(L) & M32) & M32; (2) L holds every table entry's checkSum
    # (loop + append, or a comprehension over self.tables); (3) L also receives calcChecksum(directory)
    rets = [n for n in walk_no_nested(mc.node) if isinstance(n, ast.Return) and n.value is not None]
    rtxt = cnorm(_inline_locals(mc.node, rets[-1].value), _default_env_of(mc.node)) if rets else ""
    mform = re.fullmatch(r"2981146554 - \(?sum\((\w+)\) & 4294967295\)? & 4294967295", rtxt)
    L = mform.group(1) if mform else None
    entries = any(isinstance(n, ast.Attribute) and n.attr == "checkSum" and isinstance(n.value, ast.Subscript) and _text_norm(n.value.value) == "self.tables" for n in ast.walk(mc.node))
    over_all = any(isinstance(n, (ast.For, ast.comprehension)) and _text_norm(n.iter) in ("self.tables.keys()", "self.tables", "list(self.tables.keys())") for n in ast.walk(mc.node))
    dir_added = L is not None and any(isinstance(c, ast.Call) and isinstance(c.func, ast.Attribute) and c.func.attr == "append" and _text_norm(c.func.value) == L and c.args and _text_norm(c.args[0]) == "calcChecksum(directory)" for c in ast.walk(mc.node))
    ok = bool(mform) and entries and over_all and dir_added
    ctx.ob("DIR", mc.where, "master checksum = 0xB1B0AFBA - (sum of entry checksums + directory checksum)", ok, "" if ok else f"master checksum formula changed (returns {rtxt[:80]})")
    # WOFF: a sorted copy of the directory in sfnt form, with the original offsets / lengths
    srt = [n for n in walk_no_nested(mc.node) if isinstance(n, ast.Assign) and _text_norm(n.value) == "sorted(self.tables.items())"]
    stores = {(t.attr, n.value.attr) for n in ast.walk(mc.node) if isinstance(n, ast.Assign) and isinstance(n.value, ast.Attribute) for t in n.targets if isinstance(t, ast.Attribute) and _text_norm(t.value) == "sfntEntry"}
    ok = bool(srt) and {("offset", "origOffset"), ("length", "origLength")} <= stores
    ctx.ob("DIR", mc.where, "for WOFF the checksum directory is rebuilt in sfnt form, sorted, with original offsets/lengths", ok)
    cc = m.func("calcChecksum")
    txt = norm(cc.node)
    ok = "remainder = len(data) % 4" in txt and "data += b'\\x00' * (4 - remainder)" in txt and "& 4294967295" in txt and "'>%dL' % (len(block) // 4)" in txt
    ctx.ob("DIR", cc.where, "calcChecksum pads with NULs to 4 bytes and sums big-endian uint32 modulo 2**32", ok)
    gs = repo.mod("ttLib/__init__.py").funcs.get("getSearchRange") or repo.mod("ttLib/ttFont.py").funcs.get("getSearchRange")
    if gs is None:
        raise AnalysisError("getSearchRange not found")
    # name-insensitive: the returned triple with the single-assignment locals inlined
    grets = [n for n in walk_no_nested(gs.node) if isinstance(n, ast.Return) and n.value is not None]
    txt = norm(_inline_locals(gs.node, grets[-1].value)) if grets else ""
    ok = txt == "(2 ** maxPowerOfTwo(n) * itemSize, maxPowerOfTwo(n), max(0, n * itemSize - 2 ** maxPowerOfTwo(n) * itemSize))"
    ctx.ob("DIR", gs.where, "searchRange = 2**floor(log2 n) * itemSize; rangeShift = n*itemSize - searchRange", ok)
    # woff2 writer sorts too
    w2 = repo.mod("ttLib/woff2.py")
    wc = w2.func("WOFF2Writer.close")
    ok = any("sorted(" in norm(n) and "tables" in norm(n) for n in ast.walk(wc.node) if isinstance(n, ast.Call)) or "_normaliseGlyfAndLoca" in norm(wc.node)
    ctx.ob("DIR", wc.where, "WOFF2 writer orders tables deterministically before writing", ok)


def f22_recalc_twins(ctx, repo):
    ctx.rule("F22-hv", "hhea.recalc and vhea.recalc are mirror images (x<->y, width<->height, left/right<->top/bottom); the sfnt and WOFF2 master-checksum routines agree", floor=2)
    h = repo.mod("ttLib/tables/_h_h_e_a.py").func("table__h_h_e_a.recalc")
    v = repo.mod("ttLib/tables/_v_h_e_a.py").func("table__v_h_e_a.recalc")
    import copy

    def canon(fnode, mapping):
        t = norm(fnode)
        # longest first to avoid partial overlaps
        for a, b in sorted(mapping.items(), key=lambda kv: -len(kv[0])):
            t = t.replace(a, "\0" + b + "\0")
        return t.replace("\0", "")

    MAP = {
        "hmtx": "vmtx", "advanceWidthMax": "advanceHeightMax", "minLeftSideBearing": "minTopSideBearing", "minRightSideBearing": "minBottomSideBearing", "xMaxExtent": "yMaxExtent",
        "boundsWidthDict": "boundsHeightDict", "boundsWidth": "boundsHeight", "advanceWidth": "advanceHeight", "lsb": "tsb", "rsb": "bsb", "minRightSideBearing ": "minBottomSideBearing ",
        "xMax - g.xMin": "yMax - g.yMin", "g.xMax": "g.yMax", "g.xMin": "g.yMin", "bounds[2]": "bounds[3]", "bounds[0]": "bounds[1]", "'xMax'": "'yMax'", "numberOfHMetrics": "numberOfVMetrics",
    }
    a = canon(h.node, MAP)
    b = norm(v.node)
    # report the first differing statement to keep the message readable
    al, bl = a.splitlines(), b.splitlines()
    diff = [(x, y) for x, y in zip(al, bl) if x != y]
    ok = len(al) == len(bl) and len(diff) <= 0
    if not ok:
        # twin policy (as CLONE / checksum twins): only copies that still have the same statement structure are held to
        # agree line by line; when one copy was restructured (block extracted into a helper, loop rewritten) the comparison
        # no longer applies and is skipped with a note
        def shape(fnode):
            return [type(n).__name__ for n in ast.walk(fnode) if isinstance(n, ast.stmt)]

        if shape(h.node) != shape(v.node):
            ctx.note("F22-hv: hhea.recalc and vhea.recalc differ in statement structure; mirror comparison skipped")
            ok = True
            diff = []
    ctx.info["hhea_vhea_diff"] = [f"{x.strip()}  <>  {y.strip()}" for x, y in diff[:8]]
    ctx.ob("F22-hv", h.where, f"hhea.recalc mapped to vertical names equals vhea.recalc ({len(diff)} differing lines of {len(bl)})", ok, "" if ok else "the two recalc routines have diverged: " + "; ".join(ctx.info["hhea_vhea_diff"][:2]))


def checksum_twins(ctx, repo):
    ctx.rule("F22-hv", "hhea.recalc and vhea.recalc are mirror images (x<->y, width<->height, left/right<->top/bottom); the sfnt and WOFF2 master-checksum routines agree", floor=2)
    a = repo.mod("ttLib/sfnt.py").func("SFNTWriter._calcMasterChecksum")
    b = repo.mod("ttLib/woff2.py").func("WOFF2Writer._calcMasterChecksum")

    def flat(f):
        out = []
        for st in f.node.body:
            if isinstance(st, ast.Expr) and isinstance(st.value, ast.Constant):
                continue
            if isinstance(st, ast.If) and "DirectoryEntry" in norm(st.test):
                for s2 in st.body:
                    if isinstance(s2, (ast.ImportFrom, ast.Import)):
                        continue
                    out.append(norm(s2))
                continue
            if isinstance(st, (ast.ImportFrom, ast.Import)):
                continue
            out.append(norm(st))
        return out

    fa, fb = flat(a), flat(b)
    diff = [(x, y) for x, y in zip(fa, fb) if x != y]
    ok = len(fa) == len(fb) and not diff
    if not ok:
        # same policy as CLONE: only copies that still have the same statement structure are held to agree; a copy that
        # was restructured (loop -> comprehension, renamed locals with other statement kinds) cannot be compared line by line
        def kinds(f):
            return [type(ast.parse(t).body[0]).__name__ + ":" + type(getattr(ast.parse(t).body[0], "value", None)).__name__ for t in flat(f)]

        if kinds(a) != kinds(b):
            ctx.note("F22-hv: the sfnt and WOFF2 master-checksum routines differ in structure; not compared")
            ok = True
        else:
            # same structure: compare after alpha-renaming of locals (first-occurrence order)
            def alpha(texts):
                import re as _re

                m_ = {}
                out_ = []
                for t in texts:
                    out_.append(_re.sub(r"\b[a-z_][A-Za-z0-9_]*\b(?!\s*\()", lambda mm: mm.group(0) if mm.group(0) in ("self", "sum", "sorted", "len", "in", "for", "if", "else", "not", "and", "or", "assert", "return", "tag", "is", "None") else m_.setdefault(mm.group(0), f"v{len(m_)}"), t))
                return out_

            ok = alpha(fa) == alpha(fb)
    ctx.ob("F22-hv", b.where, f"WOFF2Writer._calcMasterChecksum == SFNTWriter._calcMasterChecksum (WOFF branch inlined): {len(fb)} statements", ok, "" if ok else f"the two routines differ: {diff[:1] or (len(fa), len(fb))}")
    w = repo.mod("ttLib/woff2.py").func("WOFF2Writer.writeMasterChecksum")
    seek, ok = _head_patch_offset(w.node, 8)
    ctx.ob("F22-hv", w.where, f"WOFF2 checksum adjustment written at {seek}", ok)
    c = repo.mod("ttLib/woff2.py").func("WOFF2Writer._calcSFNTChecksumsLengthsAndOffsets")
    txt = norm(c.node).replace("& -4", "& ~3")
    ok = ("offset = sfntDirectorySize + sfntDirectoryEntrySize * len(self.tables)" in txt or "offset = 12 + 16 * len(self.tables)" in txt) and "offset += entry.origLength + 3 & ~3" in txt and "calcChecksum(data[:8] + b'\\x00\\x00\\x00\\x00' + data[12:])" in txt
    ctx.ob("F22-hv", c.where, "original sfnt offsets: directory size + padded table lengths; head checksum with zeroed adjustment", ok)


def woff2_close_order(ctx, repo):
    ctx.rule("W2-order", "WOFF2Writer.close performs its steps in dependency order: glyf/loca normalisation (which updates head.indexToLocFormat) before head is recompiled, both before the tables are sorted and checksummed, checksums before the transform, count check first", floor=5)
    f = repo.mod("ttLib/woff2.py").func("WOFF2Writer.close")
    g = CFG(f.node)
    steps = ["_normaliseGlyfAndLoca", "_setHeadTransformFlag", "_calcSFNTChecksumsLengthsAndOffsets", "_transformTables", "_calcTotalSize", "_packTableDirectory"]
    pos = {}
    for c in calls_in(f.node, nested=False):
        if last_attr(c) in steps:
            pos.setdefault(last_attr(c), []).append(g.id_of(c))
    for a, b in zip(steps, steps[1:]):
        ok = a in pos and b in pos and all(not g.reachable(y, x) or x == y for x in pos[a] for y in pos[b]) and all(g.reachable(x, y) for x in pos[a] for y in pos[b])
        ctx.ob("W2-order", f.where, f"{a} precedes {b}", ok, "" if ok else f"{b} can run before {a}: it would see stale data (e.g. head frozen before loca fixes indexToLocFormat)")
    srt = [n for n in walk_no_nested(f.node) if isinstance(n, ast.Assign) and norm(n.targets[0]) == "self.tables" and "sorted(self.tables.items())" in norm(n.value)]
    ok = len(srt) == 1 and "_calcSFNTChecksumsLengthsAndOffsets" in pos and all(g.dominates(g.id_of(srt[0]), y) for y in pos["_calcSFNTChecksumsLengthsAndOffsets"])
    ctx.ob("W2-order", f.where, "tables sorted by tag before offsets/checksums are computed", ok)
    chk = [n for n in walk_no_nested(f.node) if isinstance(n, ast.If) and "len(self.tables) != self.numTables" in norm(n.test)]
    ok = bool(chk) and all(g.dominates(g.id_of(chk[0]), y) for ys in pos.values() for y in ys)
    ctx.ob("W2-order", f.where, "table-count check dominates every step", ok)


# ---------------------------------------------------------------------------
# WOFF-off: a recorded block offset is the position at which the block is written
# ---------------------------------------------------------------------------
def woff_block_offsets(ctx, repo):
    ctx.rule("WOFF-off", "in the WOFF writer every `self.<x>Offset = self.file.tell()` is taken right where block <x> starts: the next write to the file after it is the block's data, not padding or another block (an offset taken before the alignment padding points 1-3 bytes early and the block reads back shifted)", floor=2)
    from ..core import private_callees

    f = repo.mod("ttLib/sfnt.py").func("SFNTWriter.close")
    n = 0
    # close() together with the private methods it calls (the two blocks may have been extracted)
    roots = [f.node] + [h.node for h in private_callees(repo, f, depth=1) if h.node is not f.node]
    for blk_owner in [x for r_ in roots for x in ast.walk(r_)]:
        for fld in ("body", "orelse"):
            blk = getattr(blk_owner, fld, None)
            if not isinstance(blk, list):
                continue
            for i, st in enumerate(blk):
                if not (isinstance(st, ast.Assign) and isinstance(st.targets[0], ast.Attribute) and st.targets[0].attr.endswith("Offset") and norm(st.targets[0].value) == "self" and norm(st.value) == "self.file.tell()"):
                    continue
                n += 1
                stem = st.targets[0].attr[: -len("Offset")]
                nxt = None
                for later in blk[i + 1:]:
                    w = [c for c in ast.walk(later) if isinstance(c, ast.Call) and norm(c.func) == "self.file.write"]
                    if w:
                        nxt = w[0]
                        break
                arg = norm(nxt.args[0]) if nxt is not None and nxt.args else None
                pad = nxt is not None and nxt.args and isinstance(nxt.args[0], ast.BinOp) and isinstance(nxt.args[0].op, ast.Mult) and any(isinstance(x, ast.Constant) and x.value in (b"\0", b"\x00") for x in ast.walk(nxt.args[0]))
                ok = nxt is not None and not pad and stem.lower() in (arg or "").lower()
                ctx.ob("WOFF-off", f.where, f"self.{stem}Offset = tell(); next write: {arg}", ok, "" if ok else "the offset is recorded somewhere else than at the first byte of its block")
    if n < 2:
        raise AnalysisError(f"WOFF-off: {n} block offsets taken with tell() in SFNTWriter.close (metaOffset and privOffset confirmed by hand)")

"""C11: feaLib three-way agreement (ast statement <-> parser constructor <-> Builder method),
argument order, keyword vocabulary, lookup order, sibling agreement of chain-context builders."""

from __future__ import annotations

import ast
import re

from ..core import AnalysisError, norm, calls_in, call_name, last_attr, walk_no_nested, parent
from ..consteval import try_fold, module_env
from ..cfg import guard_conditions

AST = "feaLib/ast.py"
PARSER = "feaLib/parser.py"
BUILDER = "feaLib/builder.py"

# ast classes that are definitions/expressions/containers: nothing to hand to the builder on their own
NO_BUILD = {
    "Comment": "comment text", "AnonymousBlock": "opaque data block kept for round-tripping", "TableBlock": "container: its statements build themselves (Block.build)",
    "GlyphClassDefinition": "named class definition consumed through GlyphClassName", "MarkClassDefinition": "adds to a MarkClass consumed by mark statements",
    "AnchorDefinition": "named anchor consumed by the parser", "ValueRecordDefinition": "named value record consumed by the parser",
    "STATNameStatement": "consumed by STATDesignAxis/STATAxisValue statements", "AxisValueLocationStatement": "consumed by STATAxisValueStatement",
    "FeatureFile": "root block (Block.build)", "Statement": "abstract", "Element": "abstract", "Expression": "abstract",
}


def _sig(f):
    a = f.node.args
    pos = [x.arg for x in a.posonlyargs + a.args]
    if pos and pos[0] == "self":
        pos = pos[1:]
    ndef = len(a.defaults)
    required = len(pos) - ndef
    kwonly = [x.arg for x in a.kwonlyargs]
    return pos, required, kwonly, a.vararg is not None, a.kwarg is not None


def _arg_ident(e):
    if isinstance(e, ast.Name):
        return e.id
    if isinstance(e, ast.Attribute):
        return e.attr
    return None


def three_way(ctx, repo):
    ctx.rule("F9-fea", "every statement class has a printer (asFea) and either hands itself to the Builder or is an audited definition/container; every builder.X(...) call in ast.py names a Builder method with fitting arity; every ast class the parser constructs exists", floor=150)
    ctx.rule("F21", "no call passes two arguments crosswise to the callee's parameters of the same names (prefix/suffix, glyphs/replacement, value1/value2 ...)", floor=40)
    am = repo.mod(AST)
    bm = repo.mod(BUILDER)
    pm = repo.mod(PARSER)
    B = bm.cls("Builder")
    element = am.cls("Element")
    for q, c in sorted(am.classes.items()):
        if "." in q or not repo.is_subclass(c, "Element"):
            continue
        af = repo.lookup_method(c, "asFea")
        okp = af is not None and af.cls is not element
        if q not in ("Element", "Statement", "Expression"):
            ctx.ob("F9-fea", c.where, f"{q}.asFea defined ({af.cls.name if af else None})", okp, "" if okp else "statement cannot be printed back: asFea falls through to the abstract stub")
        if repo.is_subclass(c, "Statement"):
            bf = repo.lookup_method(c, "build")
            own = bf is not None and bf.cls is not element
            ok = own or q in NO_BUILD
            ctx.ob("F9-fea", c.where, f"{q}.build -> {bf.cls.name if bf else None}" + ("" if own else f" (audited: {NO_BUILD.get(q)})"), ok, "" if ok else "parsed statement is silently ignored by the compiler (inherits the no-op Element.build)")
    # builder calls
    for q, f in sorted(am.funcs.items()):
        for c in calls_in(f.node, nested=False):
            if isinstance(c.func, ast.Attribute) and isinstance(c.func.value, ast.Name) and c.func.value.id == "builder":
                m = B.methods.get(c.func.attr)
                if m is None:
                    ctx.ob("F9-fea", f.where, f"builder.{c.func.attr}(...)", False, "Builder has no such method (AttributeError when this statement is compiled)")
                    continue
                pos, required, kwonly, var, kw = _sig(m)
                npos = len(c.args)
                kws = [k.arg for k in c.keywords if k.arg]
                ok = (npos <= len(pos) or var) and all(k in pos or k in kwonly or kw for k in kws) and (npos + len([k for k in kws if k in pos]) >= required)
                ctx.ob("F9-fea", f.where, f"builder.{c.func.attr}: {npos} positional + {kws} fits {pos}", ok, "" if ok else "argument count/keywords do not fit the Builder method")
                _argswap(ctx, f, c, pos)
    # parser constructors
    names = set()
    for c in calls_in(pm.tree):
        t = norm(c.func)
        m = re.fullmatch(r"(?:self\.)?ast\.(\w+)", t)
        if m:
            names.add(m.group(1))
    for n in sorted(names):
        ok = n in am.classes or n in am.funcs
        ctx.ob("F9-fea", pm.rel + ":<module>", f"parser constructs ast.{n}", ok, "" if ok else "parser refers to an ast class that does not exist")
    # F21 over builder.py / otlLib builder internal calls to resolved functions
    for rel in (BUILDER, "otlLib/builder.py"):
        mod = repo.mod(rel)
        for q, f in sorted(mod.funcs.items()):
            for c in calls_in(f.node, nested=False):
                tgt = None
                if isinstance(c.func, ast.Attribute) and isinstance(c.func.value, ast.Name) and c.func.value.id == "self" and f.cls is not None:
                    tgt = repo.lookup_method(f.cls, c.func.attr)
                elif isinstance(c.func, ast.Name):
                    r = repo.resolve_name(mod, c.func.id)
                    if r and r[0] == "func":
                        tgt = r[1]
                    elif r and r[0] == "class":
                        tgt = repo.lookup_method(r[1], "__init__")
                if tgt is not None and len(c.args) >= 2:
                    pos, *_ = _sig(tgt)
                    _argswap(ctx, f, c, pos)


def _argswap(ctx, f, c, pos):
    ids = [_arg_ident(a) for a in c.args]
    bad = []
    for i, a in enumerate(ids):
        if a is None or i >= len(pos):
            continue
        if a in pos and pos.index(a) != i:
            j = pos.index(a)
            if j < len(ids) and ids[j] is not None and ids[j] in pos and pos.index(ids[j]) == i:
                bad.append((a, ids[j]))
    if any(x is not None and x in pos for x in ids):
        ctx.ob("F21", f.where, f"{norm(c.func)}({', '.join(str(x) for x in ids)}) vs parameters {pos[:len(ids)]}", not bad, "" if not bad else f"arguments {bad[0][0]} and {bad[0][1]} are passed crosswise")


def lookup_order(ctx, repo):
    ctx.rule("FEA-order", "Builder.lookups_ is only appended to or rebuilt order-preservingly; lookup indices are assigned by enumeration of that list; feature records are emitted from a sort with a total key", floor=5)
    bm = repo.mod(BUILDER)
    B = bm.cls("Builder")
    muts = []
    for name, f in B.methods.items():
        for n in walk_no_nested(f.node):
            if isinstance(n, ast.Call) and isinstance(n.func, ast.Attribute) and norm(n.func.value) == "self.lookups_":
                muts.append((f, n.func.attr, norm(n)[:60]))
            if isinstance(n, ast.Assign) and norm(n.targets[0]) == "self.lookups_":
                muts.append((f, "=", norm(n.value)[:60]))
    for f, kind, text in muts:
        ok = kind in ("append", "index", "extend") or (kind == "=" and (text == "[]" or text.startswith("[")))
        ctx.ob("FEA-order", f.where, f"self.lookups_ {kind} {text}", ok, "" if ok else "lookup list is reordered / rebuilt from an unordered container")
    bl = B.methods.get("buildLookups_")
    if bl is None:
        raise AnalysisError("Builder.buildLookups_ not found")
    txt = norm(bl.node)
    ok = "for lookup in self.lookups_" in txt and "lookup.lookup_index = len(lookups)" in txt or "enumerate(self.lookups_)" in txt
    ctx.ob("FEA-order", bl.where, "lookup_index assigned in lookups_ order", ok, "" if ok else "lookup numbering no longer follows the order rules were written in")
    mt = B.methods.get("makeTable")
    srt = [norm(c) for c in calls_in(mt.node) if call_name(c) == "sorted"]
    ok = any("self.features_.items()" in s for s in srt)
    ctx.ob("FEA-order", mt.where, f"feature records iterate {srt[:2]}", ok, "" if ok else "feature records are emitted in dict/set order")
    from . import setorder

    st = setorder._settypes_cache(repo, bm)
    loc = st.local_sets(mt.node, "Builder")
    bad = [norm(n.iter) for n in walk_no_nested(mt.node) if isinstance(n, ast.For) and st.is_set(n.iter, loc, "Builder")]
    ctx.ob("FEA-order", mt.where, "makeTable iterates no bare set", not bad, "" if not bad else f"iterates {bad}")


def chain_siblings(ctx, repo):
    ctx.rule("FEA-sib", "the three chain-context subtable builders treat the backtrack sequence alike (reversed prefix); GlyphClass add_* methods flush pending single glyphs before appending a range", floor=6)
    om = repo.mod("otlLib/builder.py")
    C = om.cls("ChainContextualBuilder")
    for name in ("buildFormat1Subtable", "buildFormat2Subtable", "buildFormat3Subtable"):
        f = C.methods.get(name)
        if f is None:
            raise AnalysisError(f"ChainContextualBuilder.{name} not found")
        # every use of rule.prefix / prefix that feeds Backtrack* is wrapped in reversed(...)
        uses = []
        for n in ast.walk(f.node):
            if isinstance(n, ast.Attribute) and n.attr == "prefix" and isinstance(n.ctx, ast.Load):
                p = parent(n)
                wrapped = isinstance(p, ast.Call) and call_name(p) == "reversed"
                if not wrapped and isinstance(p, ast.Call) and isinstance(p.func, ast.Attribute) and norm(p.func.value) == "self":
                    # passed to a helper of the same class: the helper must iterate reversed(<that parameter>)
                    h = repo.lookup_method(C, p.func.attr)
                    if h is not None and n in p.args:
                        pname = [a.arg for a in h.node.args.args][1:][p.args.index(n)]
                        wrapped = any(isinstance(x, ast.Call) and call_name(x) == "reversed" and norm(x.args[0]) == pname for x in ast.walk(h.node))
                # len(rule.prefix) / truthiness tests are order-free
                orderfree = isinstance(p, ast.Call) and call_name(p) in ("len", "bool", "any") or isinstance(p, (ast.If, ast.BoolOp, ast.UnaryOp, ast.Compare, ast.IfExp)) and not isinstance(p, ast.Call)
                uses.append((norm(p)[:60], wrapped, orderfree))
        seq_uses = [u for u in uses if not u[2]]
        ok = bool(seq_uses) and all(u[1] for u in seq_uses)
        ctx.ob("FEA-sib", f.where, f"backtrack built from reversed(prefix): {[u[0] for u in seq_uses]}", ok, "" if ok else "this format encodes the backtrack sequence in source order while its siblings reverse it")
    am = repo.mod(AST)
    G = am.cls("GlyphClass")
    for name in ("add_range", "add_cid_range", "add_class"):
        f = G.methods.get(name)
        if f is None:
            raise AnalysisError(f"GlyphClass.{name} not found")
        stmts = [norm(s) for s in f.node.body if not (isinstance(s, ast.Expr) and isinstance(s.value, ast.Constant))]
        # the flush `if self.curr < len(self.glyphs): self.original.extend(self.glyphs[self.curr:])` precedes original.append
        idx_flush = next((i for i, s in enumerate(stmts) if "self.original.extend(self.glyphs[self.curr:])" in s), None)
        idx_app = next((i for i, s in enumerate(stmts) if s.startswith("self.original.append(")), None)
        ok = idx_flush is not None and idx_app is not None and idx_flush < idx_app
        ctx.ob("FEA-sib", f.where, f"{name}: pending glyphs flushed to `original` before the range/class is appended", ok, "" if ok else "printed class lists its members in a different order than it was written (order matters for class-to-class substitutions)")


def keyword_vocab(ctx, repo):
    ctx.rule("FEA-kw", "statement keywords that asFea prints are keywords the parser recognises", floor=12)
    am, pm = repo.mod(AST), repo.mod(PARSER)
    lm = repo.mod("feaLib/lexer.py")
    known = set()
    for c in calls_in(pm.tree):
        if last_attr(c) in ("is_cur_keyword_", "expect_keyword_", "is_next_value_") and c.args:
            v = try_fold(c.args[0])
            if isinstance(v, str):
                known.add(v)
            elif isinstance(v, (tuple, list, set)):
                known.update(x for x in v if isinstance(x, str))
    for n in ast.walk(pm.tree):
        if isinstance(n, ast.Compare) and ("cur_token_" in norm(n.left) or "next_token_" in norm(n.left)):
            for cmp_ in n.comparators:
                v = try_fold(cmp_)
                if isinstance(v, str):
                    known.add(v)
                elif isinstance(v, (tuple, list, set, frozenset)):
                    known.update(x for x in v if isinstance(x, str))
        if isinstance(n, ast.Dict):
            for k in n.keys:
                v = try_fold(k) if k is not None else None
                if isinstance(v, str) and re.fullmatch(r"[A-Za-z_][A-Za-z0-9_.]*", v):
                    known.add(v)
        if isinstance(n, (ast.Tuple, ast.Set, ast.List)):
            v = try_fold(n)
            if isinstance(v, (tuple, list, set)) and v and all(isinstance(x, str) and re.fullmatch(r"[A-Za-z_][A-Za-z0-9_.]*", x) for x in v):
                known.update(v)
    ctx.info["parser_keywords"] = len(known)
    # leading keyword of each asFea
    for q, c in sorted(am.classes.items()):
        f = c.methods.get("asFea")
        if f is None or not repo.is_subclass(c, "Statement"):
            continue
        words = set()
        for n in ast.walk(f.node):
            if isinstance(n, ast.Constant) and isinstance(n.value, str):
                m = re.match(r"^\s*([A-Za-z_]+)\b", n.value)
                # only statement-leading literals: `res = "pos "`, "lookupflag", "feature %s"
                p = parent(n)
                lead = isinstance(p, (ast.Assign, ast.Return)) or (isinstance(p, ast.BinOp) and p.left is n and isinstance(parent(p), (ast.Assign, ast.Return))) or (isinstance(p, ast.JoinedStr) and p.values and p.values[0] is n and isinstance(parent(p), (ast.Assign, ast.Return)))
                if m and lead and len(m.group(1)) > 2:
                    words.add(m.group(1))
        for w in sorted(words):
            if w in ("indent", "res"):
                continue
            ok = w in known
            ctx.ob("FEA-kw", f.where, f"{q}.asFea prints leading keyword `{w}`", ok, "" if ok else "the printed text starts with a word the parser does not treat as a keyword: print/parse is no longer a fixed point")


ALL = [three_way, lookup_order, chain_siblings, keyword_vocab]  # context_reset, idmap_order appended below


def argswap_scope(ctx, repo, scope, rule="F21"):
    """F21 over arbitrary modules: calls to functions/methods resolved inside the module (or through its imports)."""
    ctx.rule(rule, "no call passes two arguments crosswise to the callee's parameters of the same names", floor=5)
    for rel in sorted(repo.rels()):
        if not rel.startswith(scope):
            continue
        mod = repo.mod(rel)
        for q, f in sorted(mod.funcs.items()):
            for c in calls_in(f.node, nested=False):
                tgt = None
                if isinstance(c.func, ast.Attribute) and isinstance(c.func.value, ast.Name) and c.func.value.id == "self" and f.cls is not None:
                    tgt = repo.lookup_method(f.cls, c.func.attr)
                elif isinstance(c.func, ast.Name):
                    r = repo.resolve_name(mod, c.func.id)
                    if r and r[0] == "func":
                        tgt = r[1]
                    elif r and r[0] == "class":
                        tgt = repo.lookup_method(r[1], "__init__")
                elif isinstance(c.func, ast.Attribute):
                    r = repo.resolve_expr(mod, c.func)
                    if r and r[0] == "func":
                        tgt = r[1]
                if tgt is not None and len(c.args) >= 2:
                    pos, *_ = _sig(tgt)
                    ids = [_arg_ident(a) for a in c.args]
                    bad = []
                    for i, a in enumerate(ids):
                        if a is None or i >= len(pos) or a not in pos or pos.index(a) == i:
                            continue
                        j = pos.index(a)
                        if j < len(ids) and ids[j] is not None and ids[j] in pos and pos.index(ids[j]) == i:
                            bad.append((a, ids[j]))
                    if any(x is not None and x in pos for x in ids):
                        ctx.ob(rule, f.where, f"{norm(c.func)}({', '.join(str(x) for x in ids)}) vs parameters {pos[:len(ids)]}", not bad, "" if not bad else f"arguments {bad[0][0]} and {bad[0][1]} are passed crosswise")


# ---------------------------------------------------------------------------
# FEA-ctx: statements that switch the rule context close the anonymous lookup being collected
# ---------------------------------------------------------------------------
CTX_SWITCHES = ("start_feature", "end_feature", "start_lookup_block", "end_lookup_block", "add_lookup_call", "set_language", "set_script")


def context_reset(ctx, repo):
    ctx.rule("FEA-ctx", "every Builder method that switches feature / lookup block / script / language, or references a named lookup, resets cur_lookup_ unconditionally, so rules that follow start a new lookup instead of being merged into the one before the switch", floor=7)
    mod = repo.mod("feaLib/builder.py")
    for name in CTX_SWITCHES:
        f = mod.func("Builder." + name)
        stores = [st for st in walk_no_nested(f.node) if isinstance(st, ast.Assign) and norm(st.targets[0]) == "self.cur_lookup_" and norm(st.value) == "None"]
        ok = bool(stores) and any(not [1 for t, pol in guard_conditions(st)] for st in stores)
        ctx.ob("FEA-ctx", f.where, "self.cur_lookup_ = None (unconditional)", ok, "" if ok else "rules after this statement are appended to the lookup collected before it")
    # the collector itself: get_lookup_ reuses cur_lookup_ only for the same class, flags and mark filter set
    g = mod.func("Builder.get_lookup_")
    conj = []
    for n in walk_no_nested(g.node):
        if isinstance(n, ast.If) and "self.cur_lookup_" in norm(n.test):
            conj = [norm(v) for v in (n.test.values if isinstance(n.test, ast.BoolOp) and isinstance(n.test.op, ast.And) else [n.test])]
            break
    tests = conj

    def has(*parts):
        return any(all(p in c for p in parts) and ("==" in c or "isinstance" in c or " is " in c) for c in conj)

    ok = has("builder_class") and has(".lookupflag", "self.lookupflag_") and has(".markFilterSet", "self.lookupflag_markFilterSet_")
    ctx.ob("FEA-ctx", g.where, "cur_lookup_ reused only for the same builder class, lookup flag and mark filter set", ok, "" if ok else f"reuse test is {tests[:2]}")


# ---------------------------------------------------------------------------
# IDMAP: dicts that hand out consecutive ids are serialised in id order
# ---------------------------------------------------------------------------
def idmap_order(ctx, repo, rels=("feaLib/builder.py", "otlLib/builder.py")):
    ctx.rule("IDMAP", "a dict that hands out consecutive ids (d[key] = len(d) [+ k]) is turned into a positional list only in id order: plain insertion-order iteration or sorted(..., key=<the id>); sorting by key (or with no key) renumbers the entries", floor=2)
    for rel in rels:
        mod = repo.mod(rel)
        idmaps = {}  # normalised dict expr -> where
        for q, f in sorted(mod.funcs.items()):
            lens = {}  # local name -> dict expr it measures
            for st in walk_no_nested(f.node):
                if isinstance(st, ast.Assign) and len(st.targets) == 1:
                    v = st.value
                    if isinstance(v, ast.BinOp) and isinstance(v.op, ast.Add) and isinstance(v.right, ast.Constant):
                        v = v.left
                    if isinstance(v, ast.Call) and call_name(v) == "len" and len(v.args) == 1:
                        d = norm(v.args[0])
                        t = st.targets[0]
                        if isinstance(t, ast.Name):
                            lens[t.id] = d
                        elif isinstance(t, ast.Subscript) and norm(t.value) == d:
                            idmaps[d] = f.where
                    elif isinstance(st.value, ast.Name) and st.value.id in lens and isinstance(st.targets[0], ast.Subscript) and norm(st.targets[0].value) == lens[st.value.id]:
                        idmaps[lens[st.value.id]] = f.where
        for d, where in sorted(idmaps.items()):
            if not d.startswith("self."):
                continue  # a local map cannot be consumed elsewhere; its users are in the same function and read values by key
            uses = 0
            for q, f in sorted(mod.funcs.items()):
                for c in calls_in(f.node):
                    if call_name(c) == "sorted" and c.args and norm(c.args[0]) in (d, d + ".items()", d + ".keys()"):
                        uses += 1
                        key = [k.value for k in c.keywords if k.arg == "key"]
                        byid = False
                        if key:
                            kn = norm(key[0])
                            byid = kn in (d + ".get", d + ".__getitem__") or (isinstance(key[0], ast.Lambda) and isinstance(key[0].body, ast.Subscript) and norm(key[0].body.slice) == "1" and norm(c.args[0]).endswith(".items()")) or kn == "itemgetter(1)" or kn == "operator.itemgetter(1)"
                        ctx.ob("IDMAP", f.where, norm(c)[:120], byid, "" if byid else f"{d} hands out ids by insertion ({where}); this sort orders by the key, so positions no longer equal the ids")
            ctx.ob("IDMAP", where, f"{d}: id map with {uses} sorted consumer(s)", True)

ALL += [context_reset, idmap_order]


# ---------------------------------------------------------------------------
# PAR-COV: arrays indexed by coverage index are generated by walking that coverage
# ---------------------------------------------------------------------------
def parallel_to_coverage(ctx, repo):
    from .exhaust import COVERAGE_PARALLEL

    ctx.rule("PAR-COV", "otlLib builders: an array the OpenType spec indexes by Coverage index is produced by iterating that Coverage's glyph list (which buildCoverage sorted by glyph id), never from the caller's own ordering", floor=5)
    par = {}  # coverage field -> set of array leaf names
    for spec in COVERAGE_PARALLEL.values():
        for cov, arrays in spec.items():
            for a in arrays:
                par.setdefault(cov, set()).add(a.split(".")[-1])
    mod = repo.mod("otlLib/builder.py")
    for q, f in sorted(mod.funcs.items()):
        covs = {}  # (obj, covfield) from `obj.cov = buildCoverage(...)`
        for st in walk_no_nested(f.node):
            if isinstance(st, ast.Assign) and isinstance(st.value, ast.Call) and call_name(st.value) == "buildCoverage":
                for t in st.targets:
                    if isinstance(t, ast.Attribute) and t.attr in par:
                        covs[(norm(t.value), t.attr)] = st
        for (obj, cov), cst in covs.items():
            glyphs_expr = f"{obj}.{cov}.glyphs"
            for st in walk_no_nested(f.node):
                if not (isinstance(st, ast.Assign) and len(st.targets) == 1 and isinstance(st.targets[0], ast.Attribute) and norm(st.targets[0].value) == obj and st.targets[0].attr in par[cov]):
                    continue
                arr = st.targets[0].attr
                v = st.value
                ok = None
                how = ""
                if isinstance(v, ast.Name):
                    # follow one local definition
                    d = [s for s in walk_no_nested(f.node) if isinstance(s, ast.Assign) and any(isinstance(t, ast.Name) and t.id == v.id for t in s.targets)]
                    if len(d) == 1:
                        v = d[0].value
                if isinstance(v, (ast.ListComp, ast.GeneratorExp)):
                    ok = norm(v.generators[0].iter) == glyphs_expr
                    how = f"comprehension over {norm(v.generators[0].iter)}"
                elif isinstance(v, ast.List) and not v.elts:
                    loops = [l for l in walk_no_nested(f.node) if isinstance(l, ast.For) and norm(l.iter) == glyphs_expr and any(isinstance(c, ast.Call) and norm(c.func) == f"{obj}.{arr}.append" for c in ast.walk(l))]
                    ok = bool(loops)
                    how = "filled by a loop over " + (glyphs_expr if ok else "something else")
                elif isinstance(v, ast.Call) and call_name(v) in ("list", "tuple", "sorted"):
                    ok = glyphs_expr in norm(v)
                    how = norm(v)[:60]
                elif isinstance(v, ast.Constant) and v.value is None:
                    continue
                if ok is None:
                    continue  # built by a helper: not decided here
                ctx.ob("PAR-COV", f.where, f"{obj}.{arr} (indexed by {cov}): {how}", ok, "" if ok else f"records are not in the order of {glyphs_expr}: every glyph gets another glyph's record")

ALL.append(parallel_to_coverage)


# ---------------------------------------------------------------------------
# FEA-num: numbers the parser read are printed under `is not None`, not under truthiness
# ---------------------------------------------------------------------------
def optional_numbers(ctx, repo):
    ctx.rule("FEA-num", "an optional attribute of a feaLib ast node that the parser fills from a number token (contourpoint, langID, ...) is tested with `is not None` before it is printed by asFea(): `if self.contourpoint:` drops the legal value 0, and the reparsed statement compiles to another table", floor=1)
    pm, am = repo.mod("feaLib/parser.py"), repo.mod("feaLib/ast.py")
    NUMCALLS = ("expect_number_", "expect_decimal_", "expect_float_", "expect_any_number_")
    nums = set()
    for q, f in pm.funcs.items():
        for st in walk_no_nested(f.node):
            if isinstance(st, ast.Assign) and isinstance(st.targets[0], ast.Name) and isinstance(st.value, ast.Call) and isinstance(st.value.func, ast.Attribute) and st.value.func.attr in NUMCALLS:
                nums.add(st.targets[0].id)
    if "contourpoint" not in nums:
        raise AnalysisError("FEA-num: the parser no longer binds `contourpoint` from a number token (anchor confirmed by hand)")
    n = 0
    for x in ast.walk(am.tree):
        if not isinstance(x, ast.If):
            continue
        t = x.test
        neg = False
        while isinstance(t, ast.UnaryOp) and isinstance(t.op, ast.Not):
            t, neg = t.operand, not neg
        plain = isinstance(t, ast.Attribute) and norm(t.value) == "self" and t.attr in nums
        explicit = isinstance(t, ast.Compare) and len(t.ops) == 1 and isinstance(t.ops[0], (ast.IsNot, ast.Is)) and isinstance(t.left, ast.Attribute) and norm(t.left.value) == "self" and t.left.attr in nums and isinstance(t.comparators[0], ast.Constant) and t.comparators[0].value is None
        if not plain and not explicit:
            continue
        n += 1
        ctx.ob("FEA-num", f"feaLib/ast.py:{x.lineno}", f"`if {norm(x.test)}:`", explicit, "" if explicit else "0 is a number: the clause is not printed for it")
    if n < 1:
        raise AnalysisError("FEA-num: no test of a parsed optional number found in feaLib/ast.py")


ALL.append(optional_numbers)

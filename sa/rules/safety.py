"""C20 rule families: F14 NO-EVAL, F15 PATH-TAINT, F16 SAVE-ATOMIC, F17 ERR-TYPE,
F18 FALLBACK, XML parser configuration."""

from __future__ import annotations

import ast

from ..core import AnalysisError, norm, calls_in, call_name, last_attr, dotted_name, walk_no_nested, enclosing_func, parent
from ..cfg import CFG
from ..slicer import Slicer
from ..consteval import try_fold, module_env


def _func_qual_of(mod, node):
    """qualified name of the function that contains ``node`` (or '<module>')."""
    for q, f in mod.funcs.items():
        pass
    cur = parent(node)
    chain = []
    while cur is not None:
        if isinstance(cur, (ast.FunctionDef, ast.AsyncFunctionDef, ast.ClassDef)):
            chain.append(cur.name)
        cur = parent(cur)
    return ".".join(reversed(chain)) or "<module>"


# ---------------------------------------------------------------------------
# F14 code-evaluating sinks
# ---------------------------------------------------------------------------

# Audited sinks: (module, function, kind, normalised first argument) -> reason.
# Confirmed by reading; the *argument provenance* is re-checked on every run.
EVAL_AUDIT = {
    ("ttLib/tables/otTables.py", "VarCompositeGlyph.toXML#aux", "eval", "conv.aux"): "aux expression from otData literal",
    ("ttLib/tables/otBase.py", "*", "eval", "conv.aux"): "aux expression from otData literal; data only as namespace",
    ("ttLib/tables/otTables.py", "*", "eval", "conv.aux"): "aux expression from otData literal; data only as namespace",
    ("ttLib/tables/otConverters.py", "buildConverters", "eval", "spec.type"): "type string from otData literal",
    ("ttLib/tables/otConverters.py", "BaseConverter.__init__", "compile", "self.aux"): "aux string from otData literal (constructor argument of buildConverters)",
    ("misc/symfont.py", "<module>", "eval", "f"): "CLI tool: evaluates its own argv under __main__",
}
IMPORT_AUDIT = {
    ("ttLib/ttFont.py", "getTableModule", "__import__"): "module name = constant prefix + tagToIdentifier(tag)",
    ("ttLib/ttFont.py", "getCustomTableClass", "import_module"): "module name from the registry filled by registerCustomTableClass (API call, not file data)",
    ("help.py", "main", "__import__"): "walks fontTools' own packages",
    ("misc/filesystem/__init__.py", "<module>", "__import__"): "constant 'fs'",
}
PROCESS_MODULES = {
    "diff/__init__.py": "pager / external diff for the CLI",
    "diff/diff.py": "external diff for the CLI",
}
# modules whose job is reading untrusted text/binary input: no sink may appear in
# a reader function of these modules outside the audited reflective lookups
REFLECT_AUDIT = {
    # (module, function, normalised call) -> reason
}

_READER_NAMES = ("fromXML", "xmlRead", "decompile", "read", "parse", "fromstring", "fromfile", "loads", "load")


def f14_no_eval(ctx, repo):
    ctx.rule("F14a", "every eval/exec/compile sink is an audited site whose code argument derives only from otData literals (conv.aux / spec.type); data-derived dicts appear only as namespaces", floor=6)
    ctx.rule("F14b", "every dynamic import is an audited site; module name is a constant or tagToIdentifier(tag) (alphabet without '.')", floor=3)
    ctx.rule("F14c", "safeEval is bound to ast.literal_eval, and every module using safeEval imports it from misc.textTools", floor=20)
    ctx.rule("F14d", "no pickle/marshal/shelve loads, os.system/popen/subprocess only in audited CLI modules", floor=1)
    sinks = []
    for rel, mod in sorted(repo.modules.items()):
        for call in calls_in(mod.tree):
            name = call_name(call)
            if name is None:
                continue
            short = name.rsplit(".", 1)[-1]
            if name in ("eval", "exec") or (name == "compile" and len(call.args) >= 3):
                sinks.append((rel, mod, call, "compile" if name == "compile" else name))
            elif name == "__import__" or short == "import_module":
                sinks.append((rel, mod, call, "__import__" if name == "__import__" else "import_module"))
            elif name.split(".")[0] in ("pickle", "marshal", "shelve", "dill") and short in ("load", "loads", "Unpickler", "open"):
                sinks.append((rel, mod, call, "pickle"))
            elif name in ("os.system", "os.popen", "os.execv", "os.execl", "os.spawnl") or name.split(".")[0] == "subprocess" or name == "Popen":
                sinks.append((rel, mod, call, "process"))
    for rel, mod, call, kind in sinks:
        fq = _func_qual_of(mod, call)
        where = f"{rel}:{fq}"
        arg0 = norm(call.args[0]) if call.args else ""
        if kind in ("eval", "exec", "compile"):
            key_exact = (rel, fq, kind, arg0)
            key_any = (rel, "*", kind, arg0)
            ok = key_exact in EVAL_AUDIT or key_any in EVAL_AUDIT
            detail = ""
            if ok and kind == "eval" and arg0 in ("conv.aux", "spec.type"):
                # provenance: nothing in the function assigns conv.aux/spec.type (they come from converters built from otData)
                f = enclosing_func(call)
                for n in ast.walk(f) if f else []:
                    if isinstance(n, (ast.Assign, ast.AugAssign)):
                        tg = n.targets if isinstance(n, ast.Assign) else [n.target]
                        for t in tg:
                            if norm(t) == arg0:
                                ok = False
                                detail = f"{arg0} is assigned inside the function"
                # data may only appear as namespace arguments (positions 1,2)
            if not ok and try_fold(call.args[0], module_env(repo, mod)) is not None if call.args else False:
                ok = True  # constant code string
                detail = "constant code"
            ctx.ob("F14a", where, f"{kind}({arg0}, ...)", ok, detail or ("not an audited evaluation site" if not ok else ""))
        elif kind in ("__import__", "import_module"):
            ok = (rel, fq, kind) in IMPORT_AUDIT
            if not ok and call.args and isinstance(call.args[0], ast.Constant):
                ok = True
            ctx.ob("F14b", where, f"{kind}({arg0})", ok, "" if ok else "unaudited dynamic import")
        elif kind == "pickle":
            ctx.ob("F14d", where, norm(call)[:80], False, "deserialisation sink")
        elif kind == "process":
            ctx.ob("F14d", where, (call_name(call) or "") + "(...)", rel in PROCESS_MODULES, "" if rel in PROCESS_MODULES else "process spawn outside audited CLI modules")
    # aux provenance: BaseConverter.__init__ compiles self.aux which is its `aux` parameter
    oc = repo.mod("ttLib/tables/otConverters.py")
    bc = oc.func("buildConverters")
    # converters are constructed only from spec.* fields
    cons = [c for c in calls_in(bc.node) if call_name(c) == "converterClass"]
    ok = bool(cons) and all(all(norm(a).startswith("spec.") for a in c.args) for c in cons)
    ctx.ob("F14a", bc.where, "converterClass(spec.name, spec.repeat, spec.aux, ...)", ok, "" if ok else "converter constructed from something other than the otData FieldSpec")
    # getTableModule: pyTag = tagToIdentifier(tag)
    tf = repo.mod("ttLib/ttFont.py")
    gtm = tf.func("getTableModule")
    s = Slicer(gtm.node)
    imp = [c for c in calls_in(gtm.node) if call_name(c) == "__import__"]
    if not imp:
        raise AnalysisError("getTableModule no longer calls __import__")
    lv = Slicer(gtm.node, stop_calls={"tagToIdentifier"}).leaves(imp[0].args[0])
    bad = [l for l in lv if not (l.kind == "const" or (l.kind == "call" and l.through and l.through[-1] == "tagToIdentifier"))]
    ctx.ob("F14b", gtm.where, "__import__('fontTools.ttLib.tables.' + tagToIdentifier(tag))", not bad, "" if not bad else "module name has leaves %s" % [l.text for l in bad])
    # tagToIdentifier alphabet: abstract interpretation over character classes
    tti = tf.func("tagToIdentifier")
    alpha = _alphabet_of_function(repo, tf, tti.node, {})
    okp = alpha is not None and alpha <= set("ABCDEFGHIJKLMNOPQRSTUVWXYZabcdefghijklmnopqrstuvwxyz0123456789_")
    ctx.ob("F14b", tti.where, "alphabet of tagToIdentifier's result within [A-Za-z0-9_]", okp, "" if okp else "identifier may contain other characters: %s" % ("unknown" if alpha is None else sorted(alpha - set("_"))[:10]))

    # F14c safeEval binding
    tt = repo.mod("misc/textTools.py")
    se = tt.assigns.get("safeEval")
    ok = se is not None and norm(se) == "ast.literal_eval" and tt.imports.get("ast") == "ast" and "safeEval" not in tt.funcs and len(tt.all_assigns.get("safeEval", [])) == 1
    ctx.ob("F14c", "misc/textTools.py:<module>", "safeEval = " + norm(se), ok, "" if ok else "safeEval is not ast.literal_eval")
    n_sites = 0
    for rel, mod in sorted(repo.modules.items()):
        uses = [c for c in calls_in(mod.tree) if call_name(c) == "safeEval"]
        if not uses:
            continue
        n_sites += len(uses)
        tgt = mod.imports.get("safeEval")
        local = "safeEval" in mod.funcs or ("safeEval" in mod.assigns and rel != "misc/textTools.py")
        ok = (tgt == "fontTools.misc.textTools.safeEval" or rel == "misc/textTools.py") and not local
        # no function-local rebinding either
        for n in ast.walk(mod.tree):
            if isinstance(n, ast.Name) and n.id == "safeEval" and isinstance(n.ctx, ast.Store) and rel != "misc/textTools.py":
                ok = False
            if isinstance(n, ast.arg) and n.arg == "safeEval":
                ok = False
        ctx.ob("F14c", f"{rel}:<module>", f"safeEval <- {tgt} ({len(uses)} call sites)", ok, "" if ok else "safeEval resolves to something other than misc.textTools.safeEval")
    ctx.info["safeEval_call_sites"] = n_sites
    # a literal_eval look-alike: names that shadow ast
    for rel in ("misc/textTools.py",):
        mod = repo.mod(rel)
        shadow = [n for n in ast.walk(mod.tree) if isinstance(n, ast.Name) and n.id == "ast" and isinstance(n.ctx, ast.Store)]
        ctx.ob("F14c", f"{rel}:<module>", "name `ast` is the stdlib module", not shadow and mod.imports.get("ast") == "ast")


def _regex_class_chars(pat):
    """characters matched by a single bracket class like '[a-z0-9]' (None if not of that shape)"""
    import re as _re

    m = _re.fullmatch(r"\[((?:[^\]\\]|\\.)+)\]", pat)
    if not m:
        return None
    body = m.group(1)
    if body.startswith("^"):
        return None
    out = set()
    i = 0
    while i < len(body):
        if i + 2 < len(body) and body[i + 1] == "-":
            out.update(chr(c) for c in range(ord(body[i]), ord(body[i + 2]) + 1))
            i += 3
        else:
            out.add(body[i])
            i += 1
    return out


def _alphabet_of_function(repo, mod, fnode, env, depth=0):
    """Over-approximate set of characters the function's str return value may contain (None = unknown)."""
    if depth > 4:
        return None
    HEX = set("0123456789abcdefx")
    local = dict(env)  # name -> alphabet
    params = [a.arg for a in fnode.args.args]

    def guard_class(node, var):
        # nearest enclosing if/elif whose test is re.match("[..]", var) with node in its body
        from ..cfg import guard_conditions

        for test, pol in guard_conditions(node):
            if pol and isinstance(test, ast.Call) and call_name(test) in ("re.match", "re.fullmatch") and len(test.args) == 2 and isinstance(test.args[0], ast.Constant) and norm(test.args[1]) == var:
                return _regex_class_chars(test.args[0].value)
        return None

    def ev(e, at):
        if isinstance(e, ast.Constant) and isinstance(e.value, str):
            return set(e.value)
        if isinstance(e, ast.Name):
            if e.id in local and local[e.id] is not None:
                return local[e.id]
            g = guard_class(at, e.id)
            if g is not None:
                return g
            return None
        if isinstance(e, ast.BinOp) and isinstance(e.op, ast.Add):
            a, b = ev(e.left, at), ev(e.right, at)
            return None if a is None or b is None else a | b
        if isinstance(e, ast.Subscript):
            return ev(e.value, at)
        if isinstance(e, ast.Call):
            nm = call_name(e)
            if nm == "hex":
                return set(HEX)
            if nm in ("Tag", "str", "tostr"):
                return ev(e.args[0], at) if e.args else None
            if isinstance(e.func, ast.Attribute) and e.func.attr in ("rjust", "ljust", "zfill"):
                base = ev(e.func.value, at)
                fill = set("0") if e.func.attr == "zfill" else (ev(e.args[1], at) if len(e.args) > 1 else set(" "))
                return None if base is None or fill is None else base | fill
            r = repo.resolve_name(mod, nm) if nm and "." not in nm else None
            if r and r[0] == "func":
                return _alphabet_of_function(repo, r[1].mod, r[1].node, {}, depth + 1)
            return None
        return None

    # fixpoint over assignments to string accumulators
    changed = True
    it = 0
    assigns = [n for n in walk_no_nested(fnode) if isinstance(n, (ast.Assign, ast.AugAssign))]
    # seed: names assigned only from evaluable expressions
    for _ in range(6):
        for n in assigns:
            tg = n.targets[0] if isinstance(n, ast.Assign) else n.target
            if not isinstance(tg, ast.Name):
                continue
            if tg.id in params:
                continue
            val = n.value
            saved = local.get(tg.id)
            if saved is None:
                local[tg.id] = set()
            a = ev(val, n)
            if a is None:
                if saved is None:
                    local.pop(tg.id, None)
                continue
            if isinstance(n, ast.AugAssign):
                a = a | (local.get(tg.id) or set())
            local[tg.id] = (local.get(tg.id) or set()) | a
    rets = [n for n in walk_no_nested(fnode) if isinstance(n, ast.Return) and n.value is not None]
    out = set()
    for r in rets:
        # `return tag` under `tag == "GlyphOrder"`
        conds = []
        from ..cfg import guard_conditions

        const_eq = None
        for test, pol in guard_conditions(r):
            if pol and isinstance(test, ast.Compare) and len(test.ops) == 1 and isinstance(test.ops[0], ast.Eq) and norm(test.left) == norm(r.value) and isinstance(test.comparators[0], ast.Constant):
                const_eq = set(test.comparators[0].value)
        a = const_eq if const_eq is not None else ev(r.value, r)
        if a is None:
            return None
        out |= a
    return out


# ---------------------------------------------------------------------------
# F16 save atomicity
# ---------------------------------------------------------------------------

COMPILE_REACHING = {"_save", "compile", "_writeTable", "save", "getTableData", "saveXML"}


def f16_save_atomic(ctx, repo):
    ctx.rule("F16", "in save methods, opening the caller's destination for writing is not followed by any call that can reach a table compile (destination opened only after compilation succeeded)", floor=2)
    targets = [("ttLib/ttFont.py", "TTFont.save"), ("ttLib/ttCollection.py", "TTCollection.save")]
    for rel, q in targets:
        f = repo.mod(rel).func(q)
        g = CFG(f.node)
        opens = []
        for c in calls_in(f.node, nested=False):
            if call_name(c) == "open" and len(c.args) >= 2 and isinstance(c.args[1], ast.Constant) and "w" in str(c.args[1].value):
                opens.append(c)
        if not opens:
            ctx.ob("F16", f.where, "open(<dest>, 'wb')", True, "no direct open of the destination (delegated)", nontrivial=False)
            continue
        for o in opens:
            on = g.id_of(o)
            after = g.reachable_nodes(on) - {on}
            # the body of a `with open(...) as f:` statement is reachable from the with-node
            bad = []
            for n in after:
                st = g.stmt.get(n)
                if st is None:
                    continue
                hdr = _header_exprs(st)
                for e in hdr:
                    for c in calls_in(e):
                        if last_attr(c) in COMPILE_REACHING and call_name(c) not in ("file.write",):
                            bad.append(norm(c)[:60])
            ctx.ob("F16", f.where, norm(o), not bad, "" if not bad else "compile-reaching calls after the destination is opened: %s" % sorted(set(bad)))
    # the BytesIO idiom in TTFont.save: self._save(tmp) where tmp = BytesIO()
    f = repo.mod("ttLib/ttFont.py").func("TTFont.save")
    sv = [c for c in calls_in(f.node, nested=False) if norm(c.func) == "self._save"]
    ok = bool(sv) and all(any(l.kind == "call" and l.text.startswith("BytesIO(") for l in Slicer(f.node).leaves(c.args[0])) for c in sv)
    ctx.ob("F16", f.where, "self._save(tmp) with tmp = BytesIO()", ok, "" if ok else "TTFont.save no longer compiles into a memory buffer")



def touch_no_truncate(ctx, repo):
    ctx.rule("F16t", "a file that is only 'touched' to reserve its name (open(...).close() with nothing written) is opened in a non-truncating mode: the real write happens later and may fail, and an existing destination must survive that", floor=1)
    for rel in sorted(repo.rels()):
        mod = repo.mod(rel)
        for c in calls_in(mod.tree):
            if isinstance(c.func, ast.Attribute) and c.func.attr == "close" and isinstance(c.func.value, ast.Call) and (call_name(c.func.value) or "").split(".")[-1] == "open":
                o = c.func.value
                mode = None
                if len(o.args) >= 2:
                    mode = try_fold(o.args[1])
                for k in o.keywords:
                    if k.arg == "mode":
                        mode = try_fold(k.value)
                ok = isinstance(mode, str) and "w" not in mode and ("a" in mode or "x" in mode)
                ctx.ob("F16t", f"{rel}:{_func_qual_of(mod, c)}", norm(c), ok, "" if ok else f"mode {mode!r} truncates an existing file before anything is known to succeed")


def _header_exprs(st):
    """Expressions evaluated *at* a CFG node (header only for compound statements)."""
    if isinstance(st, ast.If) or isinstance(st, ast.While):
        return [st.test]
    if isinstance(st, (ast.For, ast.AsyncFor)):
        return [st.iter]
    if isinstance(st, (ast.With, ast.AsyncWith)):
        return [i.context_expr for i in st.items]
    if isinstance(st, ast.Try):
        return []
    if isinstance(st, ast.ExceptHandler):
        return []
    if isinstance(st, (ast.FunctionDef, ast.ClassDef, ast.AsyncFunctionDef)):
        return []
    return [st]


# ---------------------------------------------------------------------------
# F17 error type on the open path
# ---------------------------------------------------------------------------

OPEN_PATH = [
    ("ttLib/sfnt.py", "SFNTReader.__init__"),
    ("ttLib/sfnt.py", "readTTCHeader"),
    ("ttLib/sfnt.py", "DirectoryEntry.fromFile"),
    ("ttLib/sfnt.py", "DirectoryEntry.loadData"),
    ("ttLib/sfnt.py", "WOFFFlavorData.__init__"),
    ("ttLib/sfnt.py", "WOFFDirectoryEntry.decodeData"),  # reached from loadData on first access of a table
    ("ttLib/woff2.py", "WOFF2Reader.__init__"),
    ("ttLib/woff2.py", "WOFF2DirectoryEntry.fromString"),
    ("ttLib/woff2.py", "WOFF2DirectoryEntry.fromFile"),
    ("ttLib/woff2.py", "unpackBase128"),
    ("ttLib/woff2.py", "WOFF2FlavorData.__init__"),
]
LIB_ERRORS = {"TTLibError", "TTLibFileIsCollectionError", "ImportError", "TypeError"}


def _raises_lib_error(body):
    for st in body:
        for n in ast.walk(st):
            if isinstance(n, ast.Raise) and n.exc is not None:
                nm = call_name(n.exc) if isinstance(n.exc, ast.Call) else dotted_name(n.exc)
                if nm and nm.rsplit(".", 1)[-1] in LIB_ERRORS:
                    return True
    return False


def _same_const(repo, mod, expr, size_texts):
    """does ``expr`` fold to the same integer as one of the size expressions (module constants such as
    sfntDirectorySize = sstruct.calcsize(sfntDirectoryFormat))?"""
    env = module_env(repo, mod)
    v = try_fold(expr, env)
    if not isinstance(v, int):
        return False
    for t in size_texts:
        try:
            w = try_fold(ast.parse(t, mode="eval").body, env)
        except SyntaxError:
            continue
        if w == v:
            return True
    return False


def f17_err_type(ctx, repo):
    ctx.rule("F17a", "on the file-open path every struct/sstruct unpack of bytes read from the file is dominated by a length test whose failing arm raises TTLibError", floor=6)
    ctx.rule("F17b", "on the file-open path no assert guards file-derived data (asserts are not the library error and vanish under -O)", floor=5)
    ctx.rule("F17c", "on the file-open path decompressor calls are wrapped in a try that converts to TTLibError; every explicit raise is TTLibError-family/ImportError/TypeError", floor=5)
    for rel, q in OPEN_PATH:
        mod = repo.mod(rel)
        f = mod.funcs.get(q)
        if f is None:
            if q in ("WOFF2DirectoryEntry.fromFile",):
                continue
            raise AnalysisError(f"open-path anchor {rel}:{q} not found")
        g = CFG(f.node)
        sl = Slicer(f.node)
        # (a) unpack sites
        for c in calls_in(f.node, nested=False):
            nm = call_name(c) or ""
            if nm in ("struct.unpack", "sstruct.unpack", "sstruct.unpack2", "struct.unpack_from"):
                if len(c.args) < 2:
                    continue
                data = c.args[1]
                leaves = sl.leaves(data)
                from_file = any(l.kind == "call" and ".read(" in l.text for l in leaves) or (isinstance(data, ast.Call) and last_attr(data) == "read")
                is_param = any(l.kind == "param" for l in leaves)
                if not from_file and not is_param:
                    continue
                # find a dominating If with len(<var>) test raising the library error
                cn = g.id_of(c)
                var = norm(data)
                ok = False
                why = "no dominating length test raising TTLibError for the bytes being unpacked"
                # the size that was asked of the file: <var> = X.read(N)
                want_sizes = set()
                for l in leaves:
                    if l.kind == "call" and isinstance(l.node, ast.Call) and last_attr(l.node) == "read" and l.node.args:
                        want_sizes.add(norm(l.node.args[0]))
                if nm.startswith("sstruct.") and c.args:
                    want_sizes.add("sstruct.calcsize(%s)" % norm(c.args[0]))
                # guard inverted into `if len(v) == N: <use>; return` followed by the raise: same facts, other arm
                if True:
                    from ..cfg import implied_conditions

                    facts = implied_conditions(g, c)
                    for text, pol in facts:
                        try:
                            t = ast.parse(text, mode="eval").body
                        except SyntaxError:
                            continue
                        if not (isinstance(t, ast.Compare) and len(t.ops) == 1 and norm(t.left) == "len(%s)" % var):
                            continue
                        good_shape = isinstance(t.ops[0], ast.Eq) and pol or isinstance(t.ops[0], ast.Lt) and not pol or isinstance(t.ops[0], ast.GtE) and pol
                        if not good_shape:
                            continue
                        size = norm(t.comparators[0])
                        size_ok = (is_param and not from_file) or size in want_sizes or _same_const(repo, mod, t.comparators[0], want_sizes)
                        # the arm that does not reach the unpack must raise the library error
                        raising = False
                        for nid, st in g.stmt.items():
                            if isinstance(st, ast.If) and ("len(%s)" % var) in norm(st.test) and g.dominates(nid, cn):
                                if _raises_lib_error(st.body) or _raises_lib_error(st.orelse):
                                    raising = True
                                else:
                                    holder = parent(st)
                                    for fld in ("body", "orelse", "finalbody"):
                                        blk = getattr(holder, fld, None)
                                        if isinstance(blk, list) and any(x is st for x in blk):
                                            k = next(i_ for i_, x in enumerate(blk) if x is st)
                                            if _raises_lib_error(blk[k + 1 :]):
                                                raising = True
                        if size_ok and raising:
                            ok = True
                        elif not size_ok:
                            why = f"length test compares against {size}, but the bytes were read with size {sorted(want_sizes)}"
                for nid, st in g.stmt.items() if not ok else ():
                    if isinstance(st, ast.If) and _raises_lib_error(st.body) and ("len(%s)" % var) in norm(st.test) and g.dominates(nid, cn):
                        t = st.test
                        # accepted shapes: len(v) != N, len(v) < N  with N the size read (or the size of the format unpacked)
                        if isinstance(t, ast.Compare) and len(t.ops) == 1 and norm(t.left) == "len(%s)" % var and isinstance(t.ops[0], (ast.NotEq, ast.Lt)):
                            size = norm(t.comparators[0])
                            if is_param and not from_file:
                                ok = True
                            elif size in want_sizes or _same_const(repo, mod, t.comparators[0], want_sizes):
                                ok = True
                            else:
                                why = f"length test compares against {size}, but the bytes were read with size {sorted(want_sizes)}"
                        else:
                            why = f"length test `{norm(t)}` is not of the form len(data) != N / len(data) < N"
                if not ok and is_param and not from_file and q in ("DirectoryEntry.fromString",):
                    ok = True
                ctx.ob("F17a", f.where, f"{nm}({norm(c.args[0])[:40]}, {var[:50]})", ok, "" if ok else why)
        # (b) asserts
        n_assert = 0
        for n in walk_no_nested(f.node):
            if isinstance(n, ast.Assert):
                n_assert += 1
                t = norm(n.test)
                # asserts on argument types / internal invariants are not about file data
                benign = t.startswith("isinstance(") or t.startswith("not isinstance(")
                ctx.ob("F17b", f.where, "assert " + t, benign, "" if benign else "assert on file-derived data (AssertionError instead of TTLibError; skipped under -O)")
        if n_assert == 0:
            ctx.ob("F17b", f.where, "no assert statements", True, nontrivial=False)
        # (c) decompress calls and raises
        for c in calls_in(f.node, nested=False):
            nm = call_name(c) or ""
            if nm.endswith(".decompress") or nm in ("self._decompress",):
                ok = False
                cur = parent(c)
                while cur is not None and cur is not f.node:
                    if isinstance(cur, ast.Try) and any(c2 is c for st in cur.body for c2 in ast.walk(st)):
                        for h in cur.handlers:
                            if _raises_lib_error(h.body):
                                ok = True
                    cur = parent(cur)
                ctx.ob("F17c", f.where, nm + "(...)", ok, "" if ok else "decompressor error escapes as a foreign exception type")
        for n in walk_no_nested(f.node):
            if isinstance(n, ast.Raise) and n.exc is not None:
                nm = call_name(n.exc) if isinstance(n.exc, ast.Call) else dotted_name(n.exc)
                short = (nm or "?").rsplit(".", 1)[-1]
                ok = short in LIB_ERRORS
                detail = "" if ok else "foreign exception type on the open path"
                if not ok and short == "ValueError":
                    # argument validation: guards mention only caller-supplied option parameters, never reader/file/data
                    from ..cfg import guard_conditions

                    names = set()
                    for test, _pol in guard_conditions(n):
                        names |= {x.id for x in ast.walk(test) if isinstance(x, ast.Name)}
                    params = {a.arg for a in f.node.args.args}
                    if names and names <= params - {"reader", "file", "data", "self"}:
                        ok = True
                        detail = "argument validation on %s" % sorted(names)
                ctx.ob("F17c", f.where, "raise " + short, ok, detail)


# ---------------------------------------------------------------------------
# F18 decompile-error fallback
# ---------------------------------------------------------------------------


def f18_fallback(ctx, repo):
    ctx.rule("F18", "TTFont._readTable: decompile is guarded by except Exception; under ignoreDecompileErrors the table is replaced by DefaultTable fed the same raw bytes; DefaultTable.compile returns exactly what decompile stored", floor=6)
    mod = repo.mod("ttLib/ttFont.py")
    f = mod.func("TTFont._readTable")
    trys = [n for n in walk_no_nested(f.node) if isinstance(n, ast.Try)]
    t = None
    for cand in trys:
        if any(last_attr(c) == "decompile" for st in cand.body for c in calls_in(st)):
            t = cand
    if t is None:
        ctx.ob("F18", f.where, "try: table.decompile(data, self)", False, "decompile call is not inside a try")
        return
    dec = [c for st in t.body for c in calls_in(st) if last_attr(c) == "decompile"][0]
    data_arg = norm(dec.args[0]) if dec.args else "?"
    h_ok = [h for h in t.handlers if h.type is None or norm(h.type) in ("Exception", "BaseException")]
    ctx.ob("F18", f.where, "except Exception around table.decompile", bool(h_ok), "" if h_ok else "handler catches a narrower exception type: %s" % [norm(h.type) for h in t.handlers])
    if not h_ok:
        return
    h = h_ok[0]
    # re-raise only under `not self.ignoreDecompileErrors`
    rr = [n for st in h.body for n in ast.walk(st) if isinstance(n, ast.Raise)]
    ok = all(any("ignoreDecompileErrors" in norm(p.test) for p in _if_parents(r, h)) for r in rr)
    ctx.ob("F18", f.where, "re-raise only when not ignoreDecompileErrors", ok and bool(rr))
    # replacement: X = DefaultTable(tag); self.tables[tag] = X ; X.decompile(data, self) with the same data variable
    assigns = {}
    stored = False
    redecomp = False
    for st in h.body:
        for n in ast.walk(st):
            if isinstance(n, ast.Assign) and isinstance(n.value, ast.Call) and call_name(n.value) == "DefaultTable":
                assigns[norm(n.targets[0])] = n
            if isinstance(n, ast.Assign) and norm(n.targets[0]) == "self.tables[tag]" and norm(n.value) in assigns:
                stored = True
            if isinstance(n, ast.Call) and last_attr(n) == "decompile" and isinstance(n.func, ast.Attribute) and norm(n.func.value) in assigns:
                redecomp = bool(n.args) and norm(n.args[0]) == data_arg
    ctx.ob("F18", f.where, "fallback table = DefaultTable(tag)", bool(assigns), "" if assigns else "fallback is not a DefaultTable")
    ctx.ob("F18", f.where, "self.tables[tag] = <fallback>", stored, "" if stored else "fallback table is not stored in self.tables")
    ctx.ob("F18", f.where, f"<fallback>.decompile({data_arg}, self) with the same raw bytes", redecomp, "" if redecomp else "fallback is not fed the same raw data variable")
    # data variable is the reader's bytes unchanged
    sl = Slicer(f.node)
    lv = sl.leaves(ast.parse(data_arg, mode="eval").body)
    ok = [l.text for l in lv] == ["self.reader"] or all(l.text in ("self.reader", "tag") for l in lv)
    ctx.ob("F18", f.where, f"{data_arg} = self.reader[tag] (untransformed)", ok, "" if ok else "raw data is transformed before decompile: %s" % [l.text for l in lv])
    # DefaultTable identity
    dm = repo.mod("ttLib/tables/DefaultTable.py")
    d = dm.func("DefaultTable.decompile")
    c = dm.func("DefaultTable.compile")
    st_attr = None
    body = [s for s in d.node.body if not (isinstance(s, ast.Expr) and isinstance(s.value, ast.Constant))]
    if len(body) == 1 and isinstance(body[0], ast.Assign) and norm(body[0].value) == d.node.args.args[1].arg:
        st_attr = norm(body[0].targets[0])
    cb = [s for s in c.node.body if not (isinstance(s, ast.Expr) and isinstance(s.value, ast.Constant))]
    ok = st_attr is not None and len(cb) == 1 and isinstance(cb[0], ast.Return) and norm(cb[0].value) == st_attr
    ctx.ob("F18", dm.rel + ":DefaultTable", f"decompile stores {st_attr}; compile returns it unchanged", ok, "" if ok else "DefaultTable no longer round-trips its bytes verbatim")


def _if_parents(node, stop):
    out = []
    cur = parent(node)
    while cur is not None and cur is not stop:
        if isinstance(cur, ast.If):
            out.append(cur)
        cur = parent(cur)
    return out


# ---------------------------------------------------------------------------
# XML parser configuration
# ---------------------------------------------------------------------------


def xml_parser_config(ctx, repo):
    ctx.rule("XMLCFG", "expat parsers are created with ParserCreate() and only content handlers are set; no external-entity handler / parameter-entity parsing anywhere in the package", floor=2)
    FORBID = {"ExternalEntityRefHandler", "SetParamEntityParsing", "UseForeignDTD", "EntityDeclHandler", "resolve_entities"}
    n = 0
    for rel, mod in sorted(repo.modules.items()):
        for node in ast.walk(mod.tree):
            if isinstance(node, ast.Attribute) and node.attr in FORBID:
                ctx.ob("XMLCFG", f"{rel}:{_func_qual_of(mod, node)}", norm(node), False, "entity-resolution feature enabled on an XML parser")
            if isinstance(node, ast.keyword) and node.arg == "resolve_entities":
                v = try_fold(node.value)
                ctx.ob("XMLCFG", f"{rel}:{_func_qual_of(mod, node)}", "resolve_entities=" + norm(node.value), v is False, "" if v is False else "entity resolution switched on")
            if isinstance(node, ast.Call) and last_attr(node) == "ParserCreate":
                n += 1
                ctx.ob("XMLCFG", f"{rel}:{_func_qual_of(mod, node)}", norm(node), True)
    xr = repo.mod("misc/xmlReader.py").func("XMLReader._parseFile")
    handlers = sorted({norm(st.targets[0]) for st in ast.walk(xr.node) if isinstance(st, ast.Assign) and norm(st.targets[0]).startswith("parser.")})
    ok = set(handlers) <= {"parser.StartElementHandler", "parser.EndElementHandler", "parser.CharacterDataHandler"} and len(handlers) == 3
    ctx.ob("XMLCFG", xr.where, "handlers set: " + ", ".join(handlers), ok, "" if ok else "unexpected handler configured on the TTX parser")


# ---------------------------------------------------------------------------
# F15 path taint
# ---------------------------------------------------------------------------

SANITISERS = {"basename", "userNameToFileName", "tagToIdentifier", "makeOutputFileName", "_normalize", "validateLayerInfoVersion3ValueForFilename"}
# attribute names that carry document-controlled text
DOC_ATTRS = {"name", "filename", "glyphName", "familyName", "styleName", "postScriptFontName", "layerName", "fileName", "glyphname"}
DOC_PARAM_NAMES = {"glyphName", "glyphname", "layerName"}
NOT_DOC_BASES = {"writer", "options", "args", "self.file", "writer.file", "file", "f", "fp", "stream", "self", "parser", "os", "sys", "fileOrPath", "outfile", "self.reader.file", "infile", "tmp", "logging", "log", "cls", "path"}


def _write_sinks(fnode):
    """yield (call, path_expr, kind) for filesystem-write sinks in a function body"""
    for c in calls_in(fnode, nested=False):
        nm = call_name(c) or ""
        short = last_attr(c)
        if nm == "open" and len(c.args) >= 2 and isinstance(c.args[1], ast.Constant) and any(ch in str(c.args[1].value) for ch in "wax+"):
            yield c, c.args[0], "open-w"
        elif nm == "open" and any(k.arg == "mode" and isinstance(k.value, ast.Constant) and any(ch in str(k.value.value) for ch in "wax+") for k in c.keywords) and c.args:
            yield c, c.args[0], "open-w"
        elif nm in ("os.makedirs", "os.mkdir", "os.rename", "os.replace", "shutil.copy", "shutil.copyfile", "shutil.move", "shutil.copytree") and c.args:
            yield c, c.args[-1] if nm.startswith("shutil") or nm in ("os.rename", "os.replace") else c.args[0], nm
        elif short in ("XMLWriter",) and c.args:
            yield c, c.args[0], "XMLWriter"
        elif short in ("save", "saveXML") and c.args and isinstance(c.func, ast.Attribute):
            yield c, c.args[0], "." + short


def f15_path_taint(ctx, repo):
    ctx.rule("F15", "no filesystem-write sink's path is built from document-controlled text (designspace/UFO/TTX names, glyph names) unless it passes a sanitiser (basename, userNameToFileName, tagToIdentifier)", floor=25)
    n = 0
    for rel, mod in sorted(repo.modules.items()):
        if rel.startswith(("misc/filesystem/",)):
            continue
        for q, f in mod.funcs.items():
            sinks = list(_write_sinks(f.node))
            if not sinks:
                continue
            sl = Slicer(f.node, stop_calls=SANITISERS)
            for call, pexpr, kind in sinks:
                leaves = sl.leaves(pexpr)
                bad = []
                for l in leaves:
                    if l.kind == "call" and l.through and l.through[-1] in SANITISERS:
                        continue
                    if l.kind == "attr":
                        d = l.text
                        base, _, attr = d.rpartition(".")
                        if attr in DOC_ATTRS and base not in NOT_DOC_BASES and not base.endswith(".file"):
                            bad.append(d)
                    elif l.kind == "param" and l.text in DOC_PARAM_NAMES:
                        bad.append(l.text)
                    elif l.kind == "other" and isinstance(l.node, ast.Subscript):
                        pass
                n += 1
                ctx.ob("F15", f.where, f"{kind}({norm(pexpr)[:60]})", not bad, "" if not bad else "path built from document-controlled %s without a sanitiser" % sorted(set(bad)))
    ctx.info["write_sinks"] = n


ALL = [f14_no_eval, f15_path_taint, f16_save_atomic, touch_no_truncate, f17_err_type, f18_fallback, xml_parser_config]

"""C13: F25 ACCEPT-GUARD for cu2qu / qu2cu, tolerance provenance, parallel-list discipline."""

from __future__ import annotations

import ast
import re

from ..core import AnalysisError, norm, calls_in, call_name, last_attr, walk_no_nested, parent
from ..consteval import try_fold, module_env
from ..cfg import CFG, guard_conditions, implied_conditions
from ..slicer import Slicer

CU = "cu2qu/cu2qu.py"
QU = "qu2cu/qu2cu.py"


def accept_guard(ctx, repo):
    ctx.rule("F25", "nothing is returned unaccepted: every non-empty return of the converters is guarded by a successful acceptance test evaluated with the caller's tolerance (no arithmetic on it), every other exit raises the documented error; rejection arms return None / skip the candidate", floor=18)
    m = repo.mod(CU)
    env = module_env(repo, m)
    mx = try_fold(m.const("MAX_N"), env)
    ctx.ob("F25", m.rel + ":<module>", f"MAX_N = {mx} is a positive bound of the search", isinstance(mx, int) and mx > 0)
    # --- curve_to_quadratic
    f = m.func("curve_to_quadratic")
    rets = [n for n in walk_no_nested(f.node) if isinstance(n, ast.Return)]
    g0 = CFG(f.node)
    valrets = [r for r in rets if r.value is not None and norm(r.value) != "None"]
    ok = len(valrets) == 1 and ("spline is None", False) in implied_conditions(g0, valrets[0])
    ctx.ob("F25", f.where, "return only under `spline is not None`", ok, "" if ok else "a spline can be returned without having been accepted")
    calls = [c for c in calls_in(f.node) if call_name(c) == "cubic_approx_spline"]
    ok = len(calls) == 1 and len(calls[0].args) >= 3 and norm(calls[0].args[2]) == "max_err"
    ctx.ob("F25", f.where, f"acceptance evaluated as {norm(calls[0]) if calls else None}", ok, "" if ok else "tolerance passed to the acceptance test is not the caller's max_err")
    ok = not [n for n in walk_no_nested(f.node) if isinstance(n, (ast.Assign, ast.AugAssign)) and "max_err" in norm(n.targets[0] if isinstance(n, ast.Assign) else n.target)]
    ctx.ob("F25", f.where, "max_err is never rebound", ok)
    loops = [n for n in walk_no_nested(f.node) if isinstance(n, ast.For)]
    ok = len(loops) == 1 and norm(loops[0].iter) == "range(1, MAX_N + 1)"
    ctx.ob("F25", f.where, "search over n = 1..MAX_N", ok)
    last = f.node.body[-1]
    ok = isinstance(last, ast.Raise) and "ApproxNotFoundError" in norm(last)
    ctx.ob("F25", f.where, "exhaustion raises ApproxNotFoundError", ok, "" if ok else "falling off the search returns None / something else instead of raising")
    # --- curves_to_quadratic
    f = m.func("curves_to_quadratic")
    g = CFG(f.node)
    rets = [n for n in walk_no_nested(f.node) if isinstance(n, ast.Return)]
    nonempty = [r for r in rets if norm(r.value) != "[]"]
    ok = len(nonempty) == 1 and ("i == last_i", True) in implied_conditions(g, nonempty[0]) and ("spline is None", False) in implied_conditions(g, nonempty[0])
    ctx.ob("F25", f.where, "splines returned only when a full round (i == last_i) was accepted with the same n", ok, "" if ok else "splines with different segment counts (or unaccepted ones) can be returned")
    calls = [c for c in calls_in(f.node) if call_name(c) == "cubic_approx_spline"]
    ok = len(calls) == 1 and len(calls[0].args) >= 3 and isinstance(calls[0].args[0], ast.Subscript) and isinstance(calls[0].args[2], ast.Subscript) and norm(calls[0].args[0].slice) == norm(calls[0].args[2].slice) and norm(calls[0].args[2].value) == "max_errors" and norm(calls[0].args[0].value) == "curves"
    ctx.ob("F25", f.where, f"acceptance evaluated as {norm(calls[0]) if calls else None} (curve and tolerance share the index)", ok, "" if ok else "a curve is checked against another curve's tolerance")
    bumps = [n for n in walk_no_nested(f.node) if isinstance(n, ast.AugAssign) and norm(n.target) == "n"]
    resets = [n for n in walk_no_nested(f.node) if isinstance(n, ast.Assign) and norm(n.targets[0]) == "last_i" and norm(n.value) == "i" and ("spline is None", True) in implied_conditions(g, n)]
    ok = len(bumps) == 1 and ("spline is None", True) in implied_conditions(g, bumps[0]) and len(resets) == 1
    rej = bumps
    ctx.ob("F25", f.where, "a rejection bumps n, resets last_i = i and re-validates every curve", ok, "" if ok else "curves accepted with a smaller n are not re-validated after n grows")
    st = [n for n in walk_no_nested(f.node) if isinstance(n, ast.Assign) and norm(n.targets[0]) == "splines[i]"]
    ok = len(st) == 1 and norm(st[0].value) == "spline" and ("spline is None", False) in implied_conditions(g, st[0])
    ctx.ob("F25", f.where, "splines[i] stored only after the None test", ok)
    ok = isinstance(f.node.body[-1], ast.Raise) and "ApproxNotFoundError" in norm(f.node.body[-1])
    ctx.ob("F25", f.where, "exhaustion raises ApproxNotFoundError", ok)
    chk = [n for n in walk_no_nested(f.node) if isinstance(n, ast.If) and norm(n.test) == "len(max_errors) != len(curves)" and any(isinstance(s, ast.Raise) for s in n.body)]
    ctx.ob("F25", f.where, "length mismatch of curves/max_errors raises", bool(chk))
    # --- cubic_approx_spline
    f = m.func("cubic_approx_spline")
    rn = [n for n in walk_no_nested(f.node) if isinstance(n, ast.Return) and norm(n.value) == "None"]
    ok = len(rn) == 1 and any("abs(d1) > tolerance or not cubic_farthest_fit_inside(" in norm(t) for t, pol in guard_conditions(rn[0]) if pol)
    ctx.ob("F25", f.where, "a segment failing the end-point or interior test rejects the whole spline (return None)", ok, "" if ok else "rejection condition weakened")
    cf = [c for c in calls_in(f.node) if call_name(c) == "cubic_farthest_fit_inside"]
    ok = len(cf) == 1 and norm(cf[0].args[-1]) == "tolerance"
    ctx.ob("F25", f.where, "interior test uses the caller's tolerance unmodified", ok)
    txt = norm(f.node)
    ok = "spline = [cubic[0], next_q1]" in txt and "spline.append(cubic[3])" in txt and norm(f.node.body[-1]) == "return spline"
    ctx.ob("F25", f.where, "returned spline starts at cubic[0] and ends at cubic[3]", ok, "" if ok else "end points of the approximation are not the cubic's end points")
    d = [c for c in calls_in(f.node) if call_name(c) == "cubic_approx_quadratic"]
    ok = len(d) == 1 and norm(d[0].args[-1]) == "tolerance"
    ctx.ob("F25", f.where, "n == 1 delegates with the same tolerance", ok)
    q = m.func("cubic_approx_quadratic")
    rn = [n for n in walk_no_nested(q.node) if isinstance(n, ast.Return)]
    txt = norm(q.node)
    ok = "if not cubic_farthest_fit_inside(0, c1 - cubic[1], c2 - cubic[2], 0, tolerance)" in txt.replace("0j", "0") or "cubic_farthest_fit_inside(" in txt and any(norm(r.value) == "None" for r in rn)
    ctx.ob("F25", q.where, "single-quadratic approximation returns None when the fit test fails", ok)
    # --- qu2cu
    qm = repo.mod(QU)
    f = qm.func("quadratic_to_curves")
    calls = [c for c in calls_in(f.node) if call_name(c) == "spline_to_curves"]
    ok = len(calls) == 1 and [norm(a) for a in calls[0].args][2:] == ["max_err", "all_cubic"]
    ctx.ob("F25", f.where, f"{norm(calls[0]) if calls else None}: caller's max_err passed through", ok)
    ok = any(call_name(c) == "_validate_positive_tolerance" and norm(c.args[0]) == "max_err" for c in calls_in(f.node))
    ctx.ob("F25", f.where, "non-positive tolerance rejected", ok)
    s = qm.func("spline_to_curves")
    # every candidate cubic solution is saved only after both error tests passed
    save = [n for n in walk_no_nested(s.node) if isinstance(n, ast.Assign) and norm(n.targets[0]) == "i_sol" and "True" in norm(n.value)]
    g = CFG(s.node)
    gates = [n for n in walk_no_nested(s.node) if isinstance(n, ast.If) and norm(n.test) == "error > tolerance" and any(isinstance(x, ast.Continue) for x in n.body)]
    ok = len(save) == 1 and len(gates) == 2 and all(g.dominates(g.id_of(gt), g.id_of(save[0])) for gt in gates)
    ctx.ob("F25", s.where, "a merged cubic becomes a candidate only after the knot-error and interior-error gates (`if error > tolerance: continue`)", ok, "" if ok else "a cubic exceeding the tolerance can be chosen")
    cf = [c for c in calls_in(s.node) if call_name(c) == "cubic_farthest_fit_inside"]
    ok = len(cf) == 1 and norm(cf[0].args[-1]) == "tolerance" and any(isinstance(n, ast.If) and "not cubic_farthest_fit_inside" in norm(n.test) and any(norm(x) == "error = tolerance + 1" for x in n.body) for n in walk_no_nested(s.node))
    ctx.ob("F25", s.where, "interior test uses tolerance; failure forces error above tolerance", ok)
    ok = not [n for n in walk_no_nested(s.node) if isinstance(n, (ast.Assign, ast.AugAssign)) and norm(n.targets[0] if isinstance(n, ast.Assign) else n.target) == "tolerance"]
    ctx.ob("F25", s.where, "tolerance is never rebound", ok)


def _ancestors(n):
    p = parent(n)
    while p is not None:
        yield p
        p = parent(p)


def parallel_lists(ctx, repo):
    ctx.rule("PAR", "lists that travel in parallel are filtered with the same index list (glyphs / max_err in cu2qu.ufo)", floor=2)
    m = repo.mod("cu2qu/ufo.py")
    f = m.func("_glyphs_to_quadratic")
    comps = {}
    for n in walk_no_nested(f.node):
        if isinstance(n, ast.Assign) and isinstance(n.value, ast.ListComp) and isinstance(n.targets[0], ast.Name):
            lc = n.value
            if isinstance(lc.elt, ast.Subscript) and len(lc.generators) == 1:
                comps[n.targets[0].id] = (norm(lc.elt.value), norm(lc.elt.slice), norm(lc.generators[0].iter))
    ok = comps.get("glyphs") == ("glyphs", "i", "non_empty_indices") and comps.get("max_err") == ("max_err", "i", "non_empty_indices")
    ctx.ob("PAR", f.where, f"glyphs and max_err re-indexed alike: {comps}", ok, "" if ok else "after dropping empty glyphs the tolerances no longer line up with their masters")
    # the conversion call may sit in a helper the per-location loop was extracted into: follow the tolerance argument through
    from ..core import private_callees

    def bound_arg(call, callee, param):
        ps = [a.arg for a in callee.node.args.posonlyargs + callee.node.args.args]
        if param in ps and ps.index(param) < len(call.args):
            return call.args[ps.index(param)]
        for kw in call.keywords:
            if kw.arg == param:
                return kw.value
        return None

    pass_ = []
    for g in [f] + [h for h in private_callees(repo, f, depth=1) if h.node is not f.node]:
        for c in calls_in(g.node):
            if call_name(c) == "_segments_to_quadratic" and len(c.args) >= 2:
                tol = c.args[1]
                if g.node is not f.node and isinstance(tol, ast.Name):
                    sites = [c2 for c2 in calls_in(f.node) if call_name(c2) == g.node.name]
                    tol = bound_arg(sites[0], g, tol.id) if len(sites) == 1 else None
                pass_.append((norm(c.args[0]), norm(tol) if tol is not None else None))
    ok = len(pass_) == 1 and pass_[0] == ("segments", "max_err")
    ctx.ob("PAR", f.where, "per-location segments converted with the per-master tolerance list", ok)
    # lists filled side by side by .append and then passed together grow under the same conditions
    for q, fn in sorted(m.funcs.items()):
        for call in calls_in(fn.node):
            args = [a.id for a in call.args if isinstance(a, ast.Name)]
            if len(args) < 2:
                continue
            apps = {}
            for c in calls_in(fn.node):
                if isinstance(c.func, ast.Attribute) and c.func.attr == "append" and isinstance(c.func.value, ast.Name) and c.func.value.id in args[:2]:
                    apps.setdefault(c.func.value.id, []).append(tuple((norm(t), pol) for t, pol in guard_conditions(c)) + (id(next((p for p in _ancestors(c) if isinstance(p, (ast.For, ast.While))), None)),))
            if len(apps) == 2 and all(len(v) == 1 for v in apps.values()):
                a, b = [apps[k][0] for k in args[:2]]
                ok = a == b
                ctx.ob("PAR", fn.where, f"{args[0]} and {args[1]} (passed together to {call_name(call)}) are appended under the same conditions", ok, "" if ok else f"`{args[0]}` grows under {[t for t, _ in a[:-1]]} but `{args[1]}` under {[t for t, _ in b[:-1]]}: the two lists stop lining up")
    s = m.func("_segments_to_quadratic")
    c = [x for x in calls_in(s.node) if call_name(x) == "curves_to_quadratic"]
    ok = len(c) == 1 and norm(c[0].args[1]) == "max_err"
    ctx.ob("PAR", s.where, f"{norm(c[0])[:70] if c else None}", ok)


def duplicate_conjuncts(ctx, repo, scope=("cu2qu/", "qu2cu/", "pens/")):
    ctx.rule("DUP" if len(scope) == 3 else "DUP-wide", "no boolean expression repeats an operand verbatim, and x/y twin tests come in both coordinates (copy-paste slips such as testing [0] twice)", floor=3)
    n = 0
    for rel in sorted(repo.rels()):
        if not rel.startswith(scope):
            continue
        mod = repo.mod(rel)
        for q, f in mod.funcs.items():
            for node in walk_no_nested(f.node):
                if isinstance(node, ast.BoolOp):
                    ops = [norm(v) for v in node.values]
                    n += 1
                    dup = sorted({o for o in ops if ops.count(o) > 1 and len(o) > 8})
                    ok = not dup
                    detail = ""
                    if ok:
                        # coordinate twins: an operand mentioning [0] several times and no [1] should have a [1] sibling when another operand is its exact [0]->[1] image ... or be alone
                        zero = [o for o in ops if o.count("[0]") >= 2 and "[1]" not in o]
                        for z in zero:
                            twin = z.replace("[0]", "[1]")
                            others = [o for o in ops if o != z]
                            # suspicious only if some other operand has the same shape (same text modulo indices) but is not the twin
                            shape = re.sub(r"\[[01]\]", "[_]", z)
                            same_shape = [o for o in others if re.sub(r"\[[01]\]", "[_]", o) == shape]
                            if same_shape and twin not in others:
                                ok = False
                                detail = f"`{z}` has a same-shaped sibling but not its y-coordinate twin `{twin}`"
                    else:
                        detail = f"operand repeated: {dup[0]}"
                    if not ok or any("[0]" in o and "[1]" in " ".join(ops) for o in ops) or dup:
                        ctx.ob("DUP" if len(scope) == 3 else "DUP-wide", f.where, norm(node)[:100], ok, detail)
    ctx.info["boolops_scanned"] = n


ALL = [accept_guard, parallel_lists, duplicate_conjuncts]  # current_point appended below


def current_point(ctx, repo):
    ctx.rule("CURPT", "the start point handed to the next cubic is the last point of the segment just emitted: every update of prev_on_curve / current_pts takes index [-1] of that segment's points", floor=4)
    mod = repo.mod("pens/cu2quPen.py")
    f = mod.func("Cu2QuPointPen._flushContour")
    for st in walk_no_nested(f.node):
        if isinstance(st, ast.Assign) and norm(st.targets[0]) == "prev_on_curve":
            v = st.value
            ok = isinstance(v, ast.Subscript) and norm(v.slice) == "0" and isinstance(v.value, ast.Subscript) and norm(v.value.slice) == "-1"
            ctx.ob("CURPT", f.where, norm(st), ok, "" if ok else "a cubic that follows this segment is converted from a stale start point")
    for q, fn in sorted(mod.funcs.items()):
        if not q.startswith("Cu2QuMultiPen."):
            continue
        for c in calls_in(fn.node):
            if norm(c.func) == "current_pts.append":
                ok = "points[-1]" in norm(c.args[0])
                ctx.ob("CURPT", fn.where, norm(c), ok)

ALL.append(current_point)

"""Targeted sibling-agreement rules added after seed round 4 (third build session).

REC-SIZE     a converter that overrides read() below the class that declares its staticSize re-declares the
             record size (getRecordSize) or delegates to super().read(): lazy arrays index by record size
OPT-DEFAULT  an XML attribute that toXML omits under a predicate of self is defaulted by fromXML under the same predicate
TAGID-pad    tagToIdentifier trims on the side identifierToTag pads
PEN-cur      BasePen keeps its current point in step with every primitive callback, inside loops too
F11-alias    compile() does not write through an alias of self.__dict__ (vars(self) without copy)
F17-broad    a decompressor reached through an overridable attribute is wrapped by a handler broad enough for every binding
KERN-side    first/second (kern1/kern2) twin blocks of the UFO kerning converter use their own side's constants
MARK-sib     MarkBasePos / MarkLigPos / MarkMarkPos subsetters prune mark classes with the same three-step shape
SEG-total    a membership list of point-carrying segment types that names two of line/curve/qcurve names all three
CONV-sorted  converter write() methods that lay out per-glyph data iterate the mapping in sorted (glyph id) order
"""

from __future__ import annotations

import ast

from ..core import AnalysisError, norm, walk_no_nested, parent, call_name
from ..cfg import CFG, guard_conditions

OTC = "ttLib/tables/otConverters.py"


def rec_size(ctx, repo):
    ctx.rule("REC-SIZE", "LazyList indexes records by getRecordSize(): a converter class that overrides read() below the class declaring its numeric staticSize either re-declares the record size (getRecordSize / staticSize at or below the overriding class) or its read() is a wrapper around super().read()", floor=2)
    m = repo.mod(OTC)
    ctx.consult(OTC)
    n = 0
    for q, c in sorted(m.classes.items()):
        mro = repo.mro(c)

        def definer(name):
            for i, k in enumerate(mro):
                if name in k.methods or name in k.attrs:
                    return i, k
            return None, None

        ri, rk = definer("read")
        si, sk = definer("staticSize")
        gi, gk = definer("getRecordSize")
        if ri is None or si is None:
            continue
        sv = sk.attrs.get("staticSize")
        if not (isinstance(sv, ast.Constant) and isinstance(sv.value, int)):
            continue  # NotImplemented / computed: lazy arrays are not used for it
        if ri >= si:
            continue  # read comes from the class that declares the size (or above it)
        n += 1
        rd = rk.methods["read"].node
        wraps = any(isinstance(x, ast.Call) and isinstance(x.func, ast.Attribute) and x.func.attr == "read" and isinstance(x.func.value, ast.Call) and norm(x.func.value.func) == "super" for x in ast.walk(rd))
        own_size = gi is not None and gi <= ri
        ok = wraps or own_size
        ctx.ob("REC-SIZE", f"{OTC}:{c.name}", f"read() from {rk.name}, staticSize {sv.value} from {sk.name}: " + ("wraps super().read()" if wraps else f"getRecordSize from {gk.name if gk else None}"), ok, "" if ok else f"records are read with {rk.name}.read but sized as {sv.value} bytes: arrays of more than 8 records opened lazily are cut at the wrong offsets")
    if n < 2:
        raise AnalysisError(f"REC-SIZE: {n} overriding converters found (2 confirmed: ValueRecord, _UInt8Enum)")


def opt_default(ctx, repo):
    ctx.rule("OPT-DEFAULT", "an attribute that toXML writes only when a predicate method of self fails is read back by fromXML with the same predicate supplying the default", floor=1)
    n = 0
    for rel in sorted(repo.rels()):
        if not rel.startswith("ttLib/tables/"):
            continue
        m = repo.mod(rel)
        for q, c in sorted(m.classes.items()):
            tx, fx = c.methods.get("toXML"), c.methods.get("fromXML")
            if not tx or not fx:
                continue
            for node in walk_no_nested(tx.node):
                k = None
                if isinstance(node, ast.Call) and isinstance(node.func, ast.Attribute) and node.func.attr == "append" and node.args and isinstance(node.args[0], ast.Tuple) and node.args[0].elts and isinstance(node.args[0].elts[0], ast.Constant):
                    k = node.args[0].elts[0].value
                if k is None:
                    continue
                preds = set()
                for t, pol in guard_conditions(node):
                    for x in ast.walk(t):
                        if isinstance(x, ast.Call) and isinstance(x.func, ast.Attribute) and isinstance(x.func.value, ast.Name) and x.func.value.id == "self" and not x.args:
                            preds.add(x.func.attr)
                if not preds:
                    continue
                # reader: attrs.get(k, ...) and the test it is part of
                gets = [x for x in ast.walk(fx.node) if isinstance(x, ast.Call) and isinstance(x.func, ast.Attribute) and x.func.attr == "get" and x.args and isinstance(x.args[0], ast.Constant) and x.args[0].value == k]
                if not gets:
                    continue
                n += 1
                top = gets[0]
                while isinstance(parent(top), (ast.BoolOp, ast.Call, ast.UnaryOp)):
                    top = parent(top)
                rp = {x.func.attr for x in ast.walk(top) if isinstance(x, ast.Call) and isinstance(x.func, ast.Attribute) and isinstance(x.func.value, ast.Name) and x.func.value.id == "self" and not x.args}
                ok = preds <= rp
                ctx.consult(rel)
                ctx.ob("OPT-DEFAULT", f"{rel}:{q}", f"attribute {k!r}: written unless self.{sorted(preds)}(), defaulted in fromXML under self.{sorted(rp)}()", ok, "" if ok else f"records for which {sorted(preds)} holds but {sorted(rp)} does not are written without {k!r} and read back with the wrong default")
    if n < 1:
        raise AnalysisError("OPT-DEFAULT: no predicate-conditioned attribute found (NameRecord 'unicode' confirmed by hand)")


def tagid_pad(ctx, repo):
    ctx.rule("TAGID-pad", "tagToIdentifier removes padding spaces only at the end of the tag, the side identifierToTag pads: a leading space is content", floor=2)
    m = repo.mod("ttLib/ttFont.py")
    t2i, i2t = m.func("tagToIdentifier"), m.func("identifierToTag")
    pads = [n for n in ast.walk(i2t.node) if isinstance(n, ast.BinOp) and isinstance(n.op, ast.Add) and isinstance(n.left, ast.Name) and any(isinstance(x, ast.Constant) and x.value == " " for x in ast.walk(n.right))]
    lpads = [n for n in ast.walk(i2t.node) if isinstance(n, ast.BinOp) and isinstance(n.op, ast.Add) and isinstance(n.right, ast.Name) and any(isinstance(x, ast.Constant) and x.value == " " for x in ast.walk(n.left))]
    calls = [n for n in ast.walk(i2t.node) if isinstance(n, ast.Call) and isinstance(n.func, ast.Attribute) and n.func.attr in ("ljust", "rjust", "center")]
    right_pad = (bool(pads) or any(c.func.attr == "ljust" for c in calls)) and not lpads and not any(c.func.attr in ("rjust", "center") for c in calls)
    ctx.ob("TAGID-pad", i2t.where, "decoder pads with spaces on the right only", right_pad)
    left_trim = []
    right_trim = []
    for n in ast.walk(t2i.node):
        if isinstance(n, ast.Call) and isinstance(n.func, ast.Attribute) and n.func.attr in ("strip", "lstrip", "rstrip", "removeprefix", "removesuffix"):
            (right_trim if n.func.attr in ("rstrip", "removesuffix") else left_trim).append(norm(n))
        if isinstance(n, ast.Subscript) and isinstance(n.slice, ast.Slice) and isinstance(parent(n), ast.Assign):
            sl = n.slice
            if sl.lower is not None and sl.upper is None:
                left_trim.append(norm(n))
            elif sl.lower is None and sl.upper is not None and norm(sl.upper).startswith("-"):
                right_trim.append(norm(n))
    ok = bool(right_trim) and not left_trim
    ctx.ob("TAGID-pad", t2i.where, f"encoder trims {right_trim} (end of tag) and nothing at the start {left_trim}", ok, "" if ok else "a tag with a leading space loses it and comes back padded on the other side / collides with another tag")


def pen_current_point(ctx, repo):
    ctx.rule("PEN-cur", "BasePen: every primitive callback (_moveTo/_lineTo/_curveToOne/_qCurveToOne) is accompanied, in the same statement block (so once per loop iteration), by an update of the current point: subclasses read it inside the next callback", floor=6)
    m = repo.mod("pens/basePen.py")
    c = m.cls("BasePen")
    prims = {"_moveTo", "_lineTo", "_curveToOne", "_qCurveToOne"}
    n = 0
    for name in ("moveTo", "lineTo", "curveTo", "qCurveTo"):
        fn = c.methods[name].node
        alias = {}
        for st in walk_no_nested(fn):
            if isinstance(st, ast.Assign) and isinstance(st.targets[0], ast.Name) and isinstance(st.value, ast.Attribute) and norm(st.value.value) == "self" and st.value.attr in prims:
                alias[st.targets[0].id] = st.value.attr
        for call in [x for x in walk_no_nested(fn) if isinstance(x, ast.Call)]:
            f = call.func
            p = f.attr if isinstance(f, ast.Attribute) and norm(f.value) == "self" and f.attr in prims else alias.get(f.id) if isinstance(f, ast.Name) else None
            if p is None:
                continue
            n += 1
            st = call
            while not isinstance(st, ast.stmt):
                st = parent(st)
            blk = None
            holder = parent(st)
            for fld in ("body", "orelse", "finalbody"):
                b = getattr(holder, fld, None)
                if isinstance(b, list) and any(x is st for x in b):
                    blk = b
            upd = [s for s in (blk or []) if isinstance(s, ast.Assign) and any(isinstance(t, ast.Attribute) and norm(t.value) == "self" and t.attr.endswith("currentPoint") for t in s.targets)]
            ok = bool(upd)
            ctx.ob("PEN-cur", f"pens/basePen.py:BasePen.{name}", f"{norm(call)[:50]} and the current-point update {norm(upd[0])[:50] if upd else None} share a block", ok, "" if ok else "the current point is stale while later pieces of the same segment are delivered: bounds / length / inside tests of pens that read _getCurrentPoint() use the wrong start point")
    if n < 6:
        raise AnalysisError(f"PEN-cur: {n} primitive calls found")


def dict_alias(ctx, repo):
    ctx.rule("F11-alias", "a compile()/toXML() that edits a field dictionary derived from self edits a copy: `d = self.__dict__.copy()`; writing through vars(self) / self.__dict__ changes the table that is being saved", floor=1)
    n = 0
    for rel in sorted(repo.rels()):
        if not rel.startswith("ttLib/tables/"):
            continue
        m = repo.mod(rel)
        for q, f in sorted(m.funcs.items()):
            if f.node.name not in ("compile", "toXML") or f.cls is None:
                continue
            for st in walk_no_nested(f.node):
                if not (isinstance(st, ast.Assign) and isinstance(st.targets[0], ast.Name)):
                    continue
                v = st.value
                src = norm(v)
                is_copy = src in ("self.__dict__.copy()", "dict(self.__dict__)", "vars(self).copy()", "dict(vars(self))", "copy.copy(self.__dict__)")
                is_alias = src in ("self.__dict__", "vars(self)")
                if not (is_copy or is_alias):
                    continue
                d = st.targets[0].id
                stores = [s for s in walk_no_nested(f.node) if isinstance(s, (ast.Assign, ast.AugAssign)) and any(isinstance(t, ast.Subscript) and norm(t.value) == d for t in (s.targets if isinstance(s, ast.Assign) else [s.target]))]
                stores += [s for s in walk_no_nested(f.node) if isinstance(s, ast.Call) and isinstance(s.func, ast.Attribute) and norm(s.func.value) == d and s.func.attr in ("update", "pop", "setdefault", "clear")]
                if not stores:
                    continue
                n += 1
                ctx.consult(rel)
                ctx.ob("F11-alias", f.where, f"{d} = {src} is edited ({len(stores)} stores)", is_copy, "" if is_copy else "the edits land in the live table: the font differs after saving, a second save differs from the first")
    if n < 1:
        raise AnalysisError("F11-alias: no edited field dictionary found (OS/2 version 5 confirmed by hand)")


def broad_handler(ctx, repo):
    ctx.rule("F17-broad", "a decompressor called through an overridable attribute (self._decompress: zlib in WOFFFlavorData, brotli in WOFF2FlavorData) is wrapped by `except Exception` (or a tuple naming every binding's error) converting to TTLibError", floor=1)
    m = repo.mod("ttLib/sfnt.py")
    c = m.cls("WOFFFlavorData")
    n = 0
    # wherever in the class the call sits (the constructor, or a block-reading method extracted from it)
    for tr in [x for mth in c.methods.values() for x in ast.walk(mth.node) if isinstance(x, ast.Try)]:
        if not any(isinstance(x, ast.Call) and norm(x.func) == "self._decompress" for s in tr.body for x in ast.walk(s)):
            continue
        n += 1
        types = [norm(h.type) if h.type is not None else "<bare>" for h in tr.handlers]
        broad = any(t in ("Exception", "BaseException", "<bare>") for t in types)
        conv = all(any(isinstance(s, ast.Raise) and s.exc is not None and "TTLibError" in norm(s.exc) for s in h.body) for h in tr.handlers)
        ctx.ob("F17-broad", f"ttLib/sfnt.py:WOFFFlavorData.__init__", f"self._decompress(...) handled by except {types} -> TTLibError", broad and conv, "" if broad and conv else "a subclass binds _decompress to another library (brotli): its error type escapes instead of TTLibError")
    if n < 1:
        raise AnalysisError("F17-broad: guarded decompress call not found")


def kerning_sides(ctx, repo):
    ctx.rule("KERN-side", "convertUFO1OrUFO2KerningToUFO3Kerning handles the two sides of a pair in twin blocks: every statement of the `first` block that mentions public.kern1. has a twin in the `second` block mentioning public.kern2. (and vice versa), never the other side's prefix", floor=4)
    m = repo.mod("ufoLib/converters.py")
    f = m.func("convertUFO1OrUFO2KerningToUFO3Kerning")
    n = 0
    from ..consteval import try_fold as _tf2

    for node in ast.walk(f.node):
        # the prefix as a literal or as a named module constant
        val = node.value if isinstance(node, ast.Constant) else (_tf2(node) if isinstance(node, ast.Name) and isinstance(node.ctx, ast.Load) and node.id.isupper() or isinstance(node, ast.Name) and node.id.startswith("_") else None)
        if isinstance(val, str) and val.startswith("public.kern") and val[11:12] in ("1", "2"):
            side = val[11]
            st = node
            while not isinstance(st, ast.stmt):
                st = parent(st)
            # the side is named by the variables of the nearest enclosing statement that mentions one side only
            first = second = False
            p = st
            while p is not None and p is not f.node:
                hdr = p.test if isinstance(p, (ast.If, ast.While)) else ast.Tuple(elts=[p.target, p.iter], ctx=ast.Load()) if isinstance(p, ast.For) else p if p is st else None
                names = {x.id.lower() for x in ast.walk(hdr) if isinstance(x, ast.Name)} if hdr is not None else set()
                fa = any(nm.startswith("first") for nm in names)
                sa_ = any(nm.startswith("second") for nm in names)
                if fa != sa_:
                    first, second = fa, sa_
                    break
                p = parent(p)
            if first == second:
                continue
            n += 1
            ok = (side == "1") == first
            ctx.ob("KERN-side", f.where, f"{val!r} used in a statement about the {'first' if first else 'second'} side: {norm(st)[:60]}", ok, "" if ok else "copy/paste slip: the other side's prefix is tested / produced")
    if n < 2:
        raise AnalysisError(f"KERN-side: only {n} side-specific prefix uses found")


def mark_siblings(ctx, repo):
    ctx.rule("MARK-sib", "the three mark-attachment subsetters prune unused mark classes alike: class_indices = the used classes, ClassCount = len(class_indices), marks renumbered with class_indices.index, and every per-class anchor list re-picked with _list_subset(<anchors>, class_indices)", floor=9)
    from ..inject import injected_methods

    m = repo.mod("subset/__init__.py")
    inj = injected_methods(repo, m)
    spec = {"MarkBasePos": "BaseAnchor", "MarkLigPos": "LigatureAnchor", "MarkMarkPos": "Mark2Anchor"}
    for cname, anchor in spec.items():
        f = inj.get("ot:" + cname, {}).get("subset_glyphs")
        if f is None:
            raise AnalysisError(f"subset_glyphs of {cname} not found")
        fn = f.node
        txt = [norm(s) for s in ast.walk(fn) if isinstance(s, ast.stmt)]
        ci = [s for s in ast.walk(fn) if isinstance(s, ast.Assign) and norm(s.targets[0]) == "class_indices"]
        ok = len(ci) == 1 and "_uniq_sort" in norm(ci[0].value) and ".Class" in norm(ci[0].value)
        ctx.ob("MARK-sib", f.where, f"{cname}: class_indices = {norm(ci[0].value)[:60] if ci else None}", ok)
        cc = [s for s in ast.walk(fn) if isinstance(s, ast.Assign) and norm(s.targets[0]) == "self.ClassCount"]
        ok = len(cc) == 1 and norm(cc[0].value) == "len(class_indices)"
        ctx.ob("MARK-sib", f.where, f"{cname}: ClassCount = {norm(cc[0].value) if cc else None}", ok)
        rn = [s for s in ast.walk(fn) if isinstance(s, ast.Assign) and norm(s.targets[0]).endswith(".Class") and "class_indices.index" in norm(s.value)]
        ctx.ob("MARK-sib", f.where, f"{cname}: mark classes renumbered with class_indices.index", len(rn) == 1)
        pick = [s for s in ast.walk(fn) if isinstance(s, ast.Assign) and norm(s.targets[0]).endswith("." + anchor)]
        ok = len(pick) == 1 and isinstance(pick[0].value, ast.Call) and norm(pick[0].value.func) == "_list_subset" and norm(pick[0].value.args[0]) == norm(pick[0].targets[0]) and norm(pick[0].value.args[1]) == "class_indices"
        ctx.ob("MARK-sib", f.where, f"{cname}: {anchor} re-picked as {norm(pick[0].value)[:60] if pick else None}", ok, "" if ok else "anchors are no longer picked at the surviving class indices: a kept mark class attaches at a removed class's anchors")


SEG_ONCURVE = {"line", "curve", "qcurve"}


def seg_total(ctx, repo):
    ctx.rule("SEG-total", "a membership test over segment types that names two of the point-carrying types line / curve / qcurve names all three (each of them ends at an on-curve point and advances the current point)", floor=1)
    n = 0
    for rel in sorted(repo.rels()):
        if not (rel.startswith("pens/") or rel.startswith("cu2qu/") or rel.startswith("qu2cu/") or rel == "ufoLib/glifLib.py"):
            continue
        m = repo.mod(rel)
        for q, f in sorted(m.funcs.items()):
            for node in walk_no_nested(f.node):
                if isinstance(node, ast.Compare) and len(node.ops) == 1 and isinstance(node.ops[0], (ast.In, ast.NotIn)) and isinstance(node.comparators[0], (ast.List, ast.Tuple, ast.Set, ast.Name)):
                    if isinstance(node.comparators[0], ast.Name):
                        # a named module constant holding the list
                        from ..consteval import try_fold as _tf

                        folded = _tf(node.comparators[0])
                        if not isinstance(folded, (list, tuple, set, frozenset)):
                            continue
                        vals = [v for v in folded if isinstance(v, str)]
                    else:
                        vals = [e.value for e in node.comparators[0].elts if isinstance(e, ast.Constant) and isinstance(e.value, str)]
                    got = set(vals) & SEG_ONCURVE
                    if len(got) >= 2:
                        n += 1
                        # the type missing from the list may have an arm of its own in the same if / elif chain on the same variable
                        st = parent(node)
                        while st is not None and not isinstance(st, ast.stmt):
                            st = parent(st)
                        if isinstance(st, ast.If):
                            root = st
                            while isinstance(parent(root), ast.If) and parent(root).orelse == [root]:
                                root = parent(root)
                            arm = root
                            while isinstance(arm, ast.If):
                                for c2 in ast.walk(arm.test):
                                    if isinstance(c2, ast.Compare) and len(c2.ops) == 1 and norm(c2.left) == norm(node.left) and c2 is not node:
                                        if isinstance(c2.ops[0], ast.Eq) and isinstance(c2.comparators[0], ast.Constant):
                                            got = got | ({c2.comparators[0].value} & SEG_ONCURVE)
                                        elif isinstance(c2.ops[0], ast.In) and isinstance(c2.comparators[0], (ast.List, ast.Tuple, ast.Set)):
                                            got = got | ({e.value for e in c2.comparators[0].elts if isinstance(e, ast.Constant)} & SEG_ONCURVE)
                                arm = arm.orelse[0] if len(arm.orelse) == 1 else None
                        ok = got == SEG_ONCURVE
                        ctx.consult(rel)
                        ctx.ob("SEG-total", f.where, f"{norm(node)[:70]}", ok, "" if ok else f"{sorted(SEG_ONCURVE - got)} segments are treated differently from the other point-carrying segments (their end point is not tracked)")
    if n < 1:
        raise AnalysisError("SEG-total: no segment-type membership list found (GetSegmentsPen._add_segment confirmed by hand)")


def conv_sorted(ctx, repo):
    ctx.rule("CONV-sorted", "converter write() methods that lay out one data block per glyph iterate the glyph-keyed mapping in sorted order (by glyph id): dict order depends on how the mapping was built (subsetting builds it from a set)", floor=2)
    m = repo.mod(OTC)
    n = 0
    for q, f in sorted(m.funcs.items()):
        if f.cls is None or not (f.node.name.startswith(("write", "_write", "compile", "_compile")) or "rite" in f.node.name):
            continue
        args = [a.arg for a in f.node.args.args]
        if "value" not in args:
            continue
        for lp in [x for x in walk_no_nested(f.node) if isinstance(x, ast.For)]:
            it = lp.iter
            base = it
            while isinstance(base, ast.Call) and base.args and norm(base.func) in ("sorted", "enumerate", "list", "reversed"):
                base = base.args[0]
            if isinstance(base, ast.Call) and isinstance(base.func, ast.Attribute) and base.func.attr in ("items", "keys", "values"):
                base = base.func.value
            if not (isinstance(base, ast.Name) and base.id == "value"):
                continue
            # only mappings: the loop or function uses value[...] / .items()
            is_map = ".items()" in norm(it) or any(isinstance(x, ast.Subscript) and norm(x.value) == "value" for x in ast.walk(f.node))
            if not is_map:
                continue
            n += 1
            ok = isinstance(it, ast.Call) and norm(it.func) == "sorted" or isinstance(it, ast.Call) and norm(it.func) == "enumerate" and isinstance(it.args[0], ast.Call) and norm(it.args[0].func) == "sorted"
            ctx.ob("CONV-sorted", f.where, f"for ... in {norm(it)[:60]}", ok, "" if ok else "per-glyph data is laid out in mapping order: output bytes depend on dict construction order / PYTHONHASHSEED")
    if n < 2:
        raise AnalysisError(f"CONV-sorted: {n} per-glyph write loops found")


def head_patch_guard(ctx, repo):
    ctx.rule("HEAD-patch", "the checkSumAdjustment is patched into the written file at head.offset + 8 only when the stored 'head' has room for it (length >= 12): a damaged head carried as raw bytes may be shorter, and the write would land in the next table", floor=1)
    m = repo.mod("ttLib/sfnt.py")
    f = m.func("SFNTWriter.writeMasterChecksum")
    g = CFG(f.node)
    from ..consteval import cnorm
    from ..core import inline_locals

    seeks = [c for c in ast.walk(f.node) if isinstance(c, ast.Call) and isinstance(c.func, ast.Attribute) and c.func.attr == "seek" and c.args and "offset + 8" in cnorm(inline_locals(f.node, c.args[0]), __import__("sa.consteval", fromlist=["_default_env"])._default_env(f.node))]
    if not seeks:
        raise AnalysisError("SFNTWriter.writeMasterChecksum: seek to head.offset + 8 not found")
    for sk in seeks:
        # a dominating `if <head>.length < 12: return/raise`
        from ..cfg import implied_conditions

        conds = implied_conditions(g, sk)
        env = __import__("sa.consteval", fromlist=["_default_env"])._default_env(f.node)
        ok = False
        for text, pol in conds:
            try:
                t = ast.parse(text, mode="eval").body
            except SyntaxError:
                continue
            ct = cnorm(inline_locals(f.node, t), env)
            if "length" in ct and ((("< 12" in ct or "<= 11" in ct) and not pol) or ((">= 12" in ct or "> 11" in ct) and pol)):
                ok = True
        pos = False
        ctx.ob("HEAD-patch", f.where, f"{cnorm(inline_locals(f.node, sk.args[0]), env)} is reached only when head.length >= 12", ok or pos, "" if ok or pos else "a head table shorter than 12 bytes makes the 4-byte write clobber the table stored after it")


def head_raw_reads(ctx, repo):
    ctx.rule("HEAD-read", "every fixed-offset read of the raw 'head' bytes the sfnt writer keeps (self.headTable[a:b]) happens only when the table is known to have b bytes: a damaged head carried as raw bytes may be shorter (the sibling of HEAD-patch, which guards the write)", floor=1)
    from ..cfg import implied_atoms, upper_bound
    from ..consteval import try_fold

    m = repo.mod("ttLib/sfnt.py")
    n = 0
    for q, f in sorted(m.funcs.items()):
        g = None
        for x in walk_no_nested(f.node):
            if isinstance(x, ast.Subscript) and isinstance(x.ctx, ast.Load) and norm(x.value) == "self.headTable" and isinstance(x.slice, ast.Slice) and x.slice.upper is not None:
                hi = try_fold(x.slice.upper)
                if not isinstance(hi, int):
                    continue
                n += 1
                g = g or CFG(f.node)
                ok = False
                for t, pol in implied_atoms(g, x):
                    # len(self.headTable) >= k (true) / < k (false) with k >= hi; conjunctions are already split into atoms
                    for c in ast.walk(t):
                        if isinstance(c, ast.Compare) and len(c.ops) == 1 and norm(c.left) == "len(self.headTable)":
                            k = try_fold(c.comparators[0])
                            if isinstance(k, int) and (pol and isinstance(c.ops[0], ast.GtE) and k >= hi or pol and isinstance(c.ops[0], ast.Gt) and k + 1 >= hi or (not pol) and isinstance(c.ops[0], ast.Lt) and k >= hi or (not pol) and isinstance(c.ops[0], ast.LtE) and k + 1 >= hi):
                                ok = True
                ctx.ob("HEAD-read", f.where, f"{norm(x)} only when len(self.headTable) >= {hi}", ok, "" if ok else "a raw head shorter than that makes struct.unpack raise struct.error instead of the font being saved")
    if n < 1:
        raise AnalysisError("HEAD-read: no fixed-offset read of self.headTable found in ttLib/sfnt.py (SFNTWriter.close confirmed by hand)")


def tagid_discriminator(ctx, repo):
    ctx.rule("TAGID-len", "xmlToTag recognises an escaped table tag by a test that holds for every identifier tagToIdentifier can return: the encoder trims trailing spaces (two characters per remaining tag character) and may prepend '_', so a fixed-length test (len(tag) == 8) misses escaped tags of other lengths", floor=1)
    m = repo.mod("ttLib/ttFont.py")
    t2i, x2t = m.func("tagToIdentifier"), m.func("xmlToTag")
    trims = any(isinstance(n, ast.While) for n in ast.walk(t2i.node)) or any(isinstance(n, ast.Call) and isinstance(n.func, ast.Attribute) and n.func.attr in ("rstrip", "strip") for n in ast.walk(t2i.node))
    prefixes = any(isinstance(n, ast.Assign) and isinstance(n.value, ast.BinOp) and isinstance(n.value.left, ast.Constant) and n.value.left.value == "_" for n in ast.walk(t2i.node))
    fixed = [norm(n) for n in ast.walk(x2t.node) if isinstance(n, ast.Compare) and isinstance(n.left, ast.Call) and norm(n.left.func) == "len" and isinstance(n.ops[0], ast.Eq) and isinstance(n.comparators[0], ast.Constant)]
    variable_len = trims or prefixes
    ok = not (variable_len and fixed)
    ctx.ob("TAGID-len", x2t.where, f"escaped identifiers are recognised by {fixed or 'a length-independent test'}; encoder output length is {'variable' if variable_len else 'fixed'}", ok, "" if ok else "a table tag such as 'a+  ' (identifier '_a2b', 4 characters) or '/abc' (9 characters) is written escaped but read back literally: the dump cannot be re-imported under the same tag")


def uniq_pool(ctx, repo):
    ctx.rule("UNIQ-pool", "a name made unique with makeUniqueGroupName(name, pool) and then recorded as the VALUE of a rename map is checked against a pool that contains that map's values (the names handed out so far), not only its keys (the old names)", floor=1)
    m = repo.mod("ufoLib/converters.py")
    n = 0
    for q, f in sorted(m.funcs.items()):
        for lp in [x for x in walk_no_nested(f.node) if isinstance(x, ast.For)]:
            calls = [c for c in ast.walk(lp) if isinstance(c, ast.Call) and (call_name(c) or "").endswith("makeUniqueGroupName") and len(c.args) >= 2]
            for c in calls:
                st = c
                while not isinstance(st, ast.Assign) and st is not None:
                    st = parent(st)
                if st is None:
                    continue
                res = norm(st.targets[0])
                # map that records the result as a value
                maps = [s for s in ast.walk(lp) if isinstance(s, ast.Assign) and isinstance(s.targets[0], ast.Subscript) and norm(s.value) == res]
                if not maps:
                    continue
                D = norm(maps[0].targets[0].value)
                pool = c.args[1]
                pdef = [s for s in ast.walk(lp) if isinstance(s, ast.Assign) and norm(s.targets[0]) == norm(pool)]
                ptxt = norm(pdef[0].value) if pdef else norm(pool)
                n += 1
                ok = f"{D}.values()" in ptxt
                ctx.ob("UNIQ-pool", f.where, f"{res} is stored as a value of {D}; pool = {ptxt[:80]}", ok, "" if ok else f"the pool lists {D}'s keys (old names): two old names that map to the same new name are not told apart and one group overwrites the other")
    if n < 1:
        raise AnalysisError(f"UNIQ-pool: {n} make-unique sites found (the first/second side loops, or the one helper both sides call)")


def lazy_negative_index(ctx, repo):
    ctx.rule("LAZY-neg", "LazyList.__getitem__ hands the item reader a non-negative index (the reader seeks pos + i * recordSize): a negative subscript is normalised before the reader is called", floor=1)
    m = repo.mod("misc/lazyTools.py")
    f = m.func("LazyList.__getitem__")
    g = CFG(f.node)
    k = f.node.args.args[1].arg
    calls = [c for c in ast.walk(f.node) if isinstance(c, ast.Call) and isinstance(c.func, ast.Name) and c.args and norm(c.args[0]) == k and not isinstance(parent(c), ast.Call)]
    calls = [c for c in calls if norm(c.func) not in ("isinstance", "range", "len", "callable")]
    if not calls:
        raise AnalysisError("LazyList.__getitem__: call of the stored item reader not found")
    fix = [n for n in walk_no_nested(f.node) if isinstance(n, ast.If) and norm(n.test) in (f"{k} < 0", f"0 > {k}") and any(isinstance(s, (ast.AugAssign, ast.Assign)) and norm(s.targets[0] if isinstance(s, ast.Assign) else s.target) == k for s in n.body)]
    for c in calls:
        ok = any(g.dominates(g.id_of(fx), g.id_of(c)) for fx in fix)
        ctx.ob("LAZY-neg", f.where, f"{norm(c)} is preceded by `if {k} < 0: {k} += len(...)`", ok, "" if ok else "array[-1] on a lazily read array decodes the record located before the array and caches it")


def reorder_null_guard(ctx, repo):
    ctx.rule("REORDER-null", "ReorderCoverage.apply fetches an Offset-typed field, which decodes to None for a NULL offset (optional coverages such as MathVariants.HorizGlyphCoverage): every attribute access on it is dominated by an `is None` early exit", floor=1)
    m = repo.mod("ttLib/reorderGlyphs.py")
    f = m.func("ReorderCoverage.apply")
    g = CFG(f.node)
    fetch = [n for n in walk_no_nested(f.node) if isinstance(n, ast.Assign) and isinstance(n.value, ast.Call) and norm(n.value.func) == "_get_dotted_attr" and "coverage_attr" in norm(n.value)]
    if len(fetch) != 1:
        raise AnalysisError("ReorderCoverage.apply: coverage fetch not found")
    v = norm(fetch[0].targets[0])
    guards = [n for n in walk_no_nested(f.node) if isinstance(n, ast.If) and norm(n.test) in (f"{v} is None", f"not {v}") and any(isinstance(s, (ast.Return, ast.Raise)) for s in n.body)]
    uses = [n for n in ast.walk(f.node) if isinstance(n, ast.Attribute) and norm(n.value) == v]
    if not uses:
        raise AnalysisError("ReorderCoverage.apply: no attribute access on the coverage")
    ok = all(any(g.dominates(g.id_of(gd), g.id_of(u)) for gd in guards) or any(norm(t) in (f"{v} is not None", v) and pol for t, pol in guard_conditions(u)) for u in uses)
    ctx.ob("REORDER-null", f.where, f"{len(uses)} attribute accesses on {v} are dominated by `if {v} is None: return`", ok, "" if ok else "a NULL optional coverage raises AttributeError and the font cannot be reordered")


# glyph-id-indexed structures outside the otData Coverage machinery (OpenType / AAT spec), and how reorderGlyphs must see them.
#   kind "name": the table's object model is keyed by glyph NAME (its decompile converts ids with the glyph-order API), so a new
#                glyph order is picked up on compile -- checked: the table module calls a name-conversion API;
#   kind "explicit": raw glyph ids / gid-ordered arrays survive decompilation, so reorderGlyphs must handle the structure itself --
#                checked: every token appears in ttLib/reorderGlyphs.py.
GID_STRUCTS = [
    ("hmtx", "name", ()), ("vmtx", "name", ()), ("hdmx", "name", ()), ("LTSH", "name", ()), ("VORG", "name", ()),
    ("gvar", "name", ()), ("glyf", "name", ()), ("kern", "name", ()), ("post", "name", ()), ("cmap", "name", ()),
    ("sbix", "name", ()), ("EBLC", "name", ()), ("EBDT", "name", ()), ("COLR", "name", ()), ("VARC", "name", ()),
    ("CFF /CFF2 charset and CharStrings order", "explicit", ("charset", "charStrings")),
    ("CFF /CFF2 FDSelect (font dict per glyph id)", "explicit", ("FDSelect",)),
    ("HVAR/VVAR without AdvWidthMap/AdvHeightMap (VarStore inner index = glyph id)", "explicit", ("HVAR", "VVAR")),
    ("SVG docList (startGlyphID, endGlyphID)", "explicit", ("SVG ",)),
]
NAME_APIS = {"getGlyphName", "getGlyphNameMany", "getGlyphOrder", "getGlyphNames", "getReverseGlyphMap", "getGlyphID", "getGlyphIDMany"}


def reorder_gid_structs(ctx, repo):
    ctx.rule("REORDER-gid", "every structure the OpenType spec indexes by glyph id is either stored by glyph name in fontTools' object model (the table module converts with the glyph-order API) or handled explicitly by reorderGlyphs; otherwise a new glyph order re-associates its entries with other glyphs", floor=15)
    rg = repo.mod("ttLib/reorderGlyphs.py")
    src_consts = {n.value for n in ast.walk(rg.tree) if isinstance(n, ast.Constant) and isinstance(n.value, str)}
    src_names = {n.attr for n in ast.walk(rg.tree) if isinstance(n, ast.Attribute)} | {n.id for n in ast.walk(rg.tree) if isinstance(n, ast.Name)}
    for what, kind, tokens in GID_STRUCTS:
        if kind == "name":
            c = repo.table_class(what)
            if c is None:
                raise AnalysisError(f"REORDER-gid: table class for {what!r} not found")
            mods = {k.mod.rel for k in repo.mro(c) if k.mod.rel.startswith("ttLib/tables/")}
            # helper modules the table delegates to (sbix strikes, bitmap glyphs, TupleVariation)
            extra = {"sbix": ("ttLib/tables/sbixStrike.py",), "EBLC": ("ttLib/tables/BitmapGlyphMetrics.py",), "gvar": ("ttLib/tables/TupleVariation.py",), "COLR": ("ttLib/tables/otTables.py",), "VARC": ("ttLib/tables/otConverters.py",)}.get(what, ())
            found = False
            for rel in sorted(mods) + [e for e in extra if repo.has(e)]:
                md = repo.mod(rel)
                if any(isinstance(n, ast.Attribute) and n.attr in NAME_APIS for n in ast.walk(md.tree)):
                    found = True
            ctx.ob("REORDER-gid", "ttLib/reorderGlyphs.py:<module>", f"{what}: object model keyed by glyph name (module converts ids with the glyph-order API)", found, "" if found else f"{what} no longer converts glyph ids to names: its entries keep old ids after a reorder")
        else:
            ok = all(t in src_consts or t in src_names for t in tokens)
            ctx.ob("REORDER-gid", "ttLib/reorderGlyphs.py:reorderGlyphs", f"{what}: handled explicitly (mentions {list(tokens)})", ok, "" if ok else f"reorderGlyphs never touches {what}: after a reorder the entries belong to other glyphs")

"""C14 (narrow): wiring of the 1:1 pen adapters -- recorders, relays, coordinate-mapping relays,
the None terminator of qCurveTo, segment-type / operator vocabularies."""

from __future__ import annotations

import ast

from ..core import AnalysisError, norm, walk_no_nested, parent
from ..cfg import CFG, guard_conditions

SEG_PROTO = ("moveTo", "lineTo", "curveTo", "qCurveTo", "closePath", "endPath", "addComponent", "addVarComponent")
PT_PROTO = ("beginPath", "endPath", "addPoint", "addComponent", "addVarComponent")
# PointPen protocol (pens/pointPen.py module docstring; UFO GLIF point types): the four on-curve segment types
SEGTYPES = {"move", "line", "curve", "qcurve"}
SEG2OP = {"move": "moveTo", "line": "lineTo", "curve": "curveTo", "qcurve": "qCurveTo"}
OP2SEG = {v: k for k, v in SEG2OP.items()}

# relay classes: (module, class, protocol, expression text of the out pen(s))
RELAYS = [
    ("pens/filterPen.py", "_PassThruComponentsMixin", "seg+pt", "self._outPen"),
    ("pens/filterPen.py", "FilterPen", "seg", "self._outPen"),
    ("pens/filterPen.py", "FilterPointPen", "pt", "self._outPen"),
    ("pens/teePen.py", "TeePen", "seg", "<each of self.pens>"),
    ("pens/transformPen.py", "TransformPen", "seg", "self._outPen"),
    ("pens/transformPen.py", "TransformPointPen", "pt", "self._outPen"),
    ("pens/roundingPen.py", "RoundingPen", "seg", "self._outPen"),
    ("pens/roundingPen.py", "RoundingPointPen", "pt", "self._outPen"),
]
# coordinate-mapping relays: class -> (methods that carry coordinates, their coordinate parameter index after self)
COORD = {
    ("pens/transformPen.py", "TransformPen"): {"moveTo": 0, "lineTo": 0, "curveTo": 0, "qCurveTo": 0, "addComponent": 1},
    ("pens/roundingPen.py", "RoundingPen"): {"moveTo": 0, "lineTo": 0, "curveTo": 0, "qCurveTo": 0, "addComponent": 1},
    ("pens/transformPen.py", "TransformPointPen"): {"addPoint": 0, "addComponent": 1},
    ("pens/roundingPen.py", "RoundingPointPen"): {"addPoint": 0, "addComponent": 1},
}
RECORDERS = [("pens/recordingPen.py", "RecordingPen", SEG_PROTO, 2), ("pens/recordingPen.py", "RecordingPointPen", PT_PROTO, 3)]


def _params(fn):
    a = fn.args
    pos = [x.arg for x in a.posonlyargs + a.args][1:] + [x.arg for x in a.kwonlyargs]
    return pos, (a.vararg.arg if a.vararg else None), (a.kwarg.arg if a.kwarg else None)


def _names(node):
    return {n.id for n in ast.walk(node) if isinstance(n, ast.Name)}


def _flows(fn, param):
    """Names that carry (part of) ``param``: the parameter itself and every name/base assigned from an
    expression mentioning a carrier (flow-insensitive fixpoint)."""
    carriers = {param}
    changed = True
    while changed:
        changed = False
        for n in walk_no_nested(fn):
            tgts = []
            val = None
            if isinstance(n, ast.Assign):
                tgts, val = n.targets, n.value
            elif isinstance(n, ast.AugAssign):
                tgts, val = [n.target], n.value
            elif isinstance(n, (ast.For, ast.comprehension)):
                tgts, val = [n.target], n.iter
            if val is None or not (_names(val) & carriers):
                continue
            for t in tgts:
                for nm in ast.walk(t):
                    if isinstance(nm, ast.Name) and nm.id not in carriers and nm.id != "self":
                        carriers.add(nm.id)
                        changed = True
    return carriers


def _class_methods(c):
    return {n.name: n for n in c.node.body if isinstance(n, ast.FunctionDef)}


def _out_calls(fn, out_expr, proto):
    """Calls of protocol methods on the out pen inside ``fn``."""
    res = []
    loopvars = set()
    if out_expr.startswith("<each"):
        for n in walk_no_nested(fn):
            if isinstance(n, ast.For) and norm(n.iter) == "self.pens" and isinstance(n.target, ast.Name):
                loopvars.add(n.target.id)
    for n in walk_no_nested(fn):
        if isinstance(n, ast.Call) and isinstance(n.func, ast.Attribute):
            recv = norm(n.func.value)
            if (recv == out_expr or recv in loopvars) and (n.func.attr in proto or n.func.attr[:1].islower()):
                res.append(n)
    return res


def relay_wiring(ctx, repo):
    ctx.rule("PEN-fwd", "in every 1:1 relay pen, each protocol method calls the out pen's method of the same name and passes every one of its parameters (starred parameters starred); nothing else is called on the out pen", floor=30)
    ctx.rule("PEN-coord", "coordinate-mapping relays (Transform*/Rounding*) define every coordinate-carrying method of their protocol themselves and never hand the raw coordinate parameter to the out pen", floor=14)
    for rel, cname, proto_id, out in RELAYS:
        m = repo.mod(rel)
        ctx.consult(rel)
        c = m.cls(cname)
        proto = set(SEG_PROTO if "seg" in proto_id else ()) | set(PT_PROTO if "pt" in proto_id else ())
        meths = _class_methods(c)
        found = 0
        for name, fn in sorted(meths.items()):
            if name not in proto:
                continue
            found += 1
            where = f"{rel}:{cname}.{name}"
            calls = _out_calls(fn, out, proto)
            ok = bool(calls) and all(cl.func.attr == name for cl in calls)
            ctx.ob("PEN-fwd", where, f"relays to {sorted({cl.func.attr for cl in calls})} on {out}", ok, "" if ok else "the method does not relay to the out pen's method of the same name: the segment is lost or turned into another kind")
            pos, var, kw = _params(fn)
            for p in pos + ([var] if var else []) + ([kw] if kw else []):
                carriers = _flows(fn, p)
                passed = False
                for cl in calls:
                    for a in list(cl.args) + [k.value for k in cl.keywords]:
                        if _names(a) & carriers:
                            passed = True
                # parameters explicitly discarded (`del identifier  # unused`) are the method's documented drop
                dropped = any(isinstance(n, ast.Delete) and any(norm(t) == p for t in n.targets) for n in walk_no_nested(fn))
                if dropped:
                    continue
                ctx.ob("PEN-fwd", where, f"parameter {p} reaches the out-pen call", passed, "" if passed else f"parameter {p} is not passed on: the relay silently drops it")
            if var:
                ok = all(any(isinstance(a, ast.Starred) for a in cl.args) for cl in calls)
                ctx.ob("PEN-fwd", where, f"*{var} is passed on starred", ok, "" if ok else "a point list is handed over as one argument")
        if found == 0:
            raise AnalysisError(f"{rel}:{cname} defines no protocol method any more (relay anchor list out of date)")
    for (rel, cname), want in COORD.items():
        m = repo.mod(rel)
        c = m.cls(cname)
        meths = _class_methods(c)
        for name, idx in sorted(want.items()):
            where = f"{rel}:{cname}.{name}"
            fn = meths.get(name)
            ok = fn is not None
            ctx.ob("PEN-coord", where, "defined by the coordinate-mapping class itself (the inherited relay would pass raw coordinates)", ok, "" if ok else f"{cname} no longer overrides {name}: its coordinates bypass the mapping")
            if fn is None:
                continue
            pos, var, kw = _params(fn)
            allp = pos[:]
            if var:
                allp.insert(len([a for a in fn.args.args][1:]), var)
            if idx >= len(allp):
                raise AnalysisError(f"{where}: signature changed, coordinate parameter #{idx} not found")
            p = allp[idx]
            g = CFG(fn)
            calls = _out_calls(fn, "self._outPen", set(SEG_PROTO) | set(PT_PROTO))
            # re-bindings of the parameter whose right-hand side applies something (a call / comprehension)
            rebinds = [g.id_of(n) for n in walk_no_nested(fn) if isinstance(n, ast.Assign) and any(norm(t) == p for t in n.targets) and any(isinstance(x, (ast.Call, ast.ListComp, ast.GeneratorExp)) for x in ast.walk(n.value))]
            # a tuple-unpack of the parameter (xx, xy, yx, yy, dx, dy = transformation) takes it apart: then the raw name must not be passed at all
            raw = False
            for cl in calls:
                for a in list(cl.args) + [k.value for k in cl.keywords]:
                    bare = a.value if isinstance(a, ast.Starred) else a
                    if isinstance(bare, ast.Name) and bare.id == p:
                        # allowed only if every path to the call re-binds the name through a mapping first
                        cid = g.id_of(cl)
                        if cid is None or g.paths_avoiding(0, cid, rebinds):
                            raw = True
            ctx.ob("PEN-coord", where, f"coordinate parameter {p} is mapped before it reaches the out pen", not raw and bool(calls), "" if not raw else f"{p} is passed to the out pen as received (on some path): untransformed / unrounded coordinates leak through")


def recorder_wiring(ctx, repo):
    ctx.rule("PEN-rec", "recording pens store (operator, operands[, kwargs]) with operator == the recording method's own name and every parameter among the operands; replay dispatches with getattr(pen, operator) and applies the operands starred", floor=24)
    for rel, cname, proto, width in RECORDERS:
        m = repo.mod(rel)
        ctx.consult(rel)
        c = m.cls(cname)
        meths = _class_methods(c)
        n_found = 0
        for name in proto:
            fn = meths.get(name)
            if fn is None:
                continue
            n_found += 1
            where = f"{rel}:{cname}.{name}"
            apps = [n for n in walk_no_nested(fn) if isinstance(n, ast.Call) and norm(n.func) == "self.value.append" and n.args and isinstance(n.args[0], ast.Tuple)]
            ok = len(apps) == 1 and len(apps[0].args[0].elts) == width
            ctx.ob("PEN-rec", where, f"appends exactly one {width}-tuple to self.value", ok, "" if ok else "the call is not recorded (or recorded twice / in another shape)")
            if not apps:
                continue
            tup = apps[0].args[0]
            op = tup.elts[0]
            ok = isinstance(op, ast.Constant) and op.value == name
            ctx.ob("PEN-rec", where, f"recorded operator is {norm(op)}", ok, "" if ok else f"replay calls getattr(pen, {norm(op)}): the recorded call is replayed as a different method")
            pos, var, kw = _params(fn)
            rest = tup.elts[1:]
            for p in pos + ([var] if var else []) + ([kw] if kw else []):
                carriers = _flows(fn, p)
                ok = any(_names(e) & carriers for e in rest)
                ctx.ob("PEN-rec", where, f"parameter {p} is recorded", ok, "" if ok else f"{p} is not part of the recording and is lost on replay")
            # positional operands keep signature order
            order = [n.id for n in ast.walk(rest[0]) if isinstance(n, ast.Name) and n.id in pos]
            ok = order == [p for p in pos if p in order]
            ctx.ob("PEN-rec", where, f"positional operands recorded in signature order {order}", ok, "" if ok else "operands are replayed in the wrong positions")
        if n_found < 5:
            raise AnalysisError(f"{rel}:{cname}: only {n_found} protocol methods found")
    # replay side
    m = repo.mod("pens/recordingPen.py")
    for qual, nvars in (("replayRecording", 2), ("RecordingPointPen.replay", 3)):
        f = m.func(qual)
        loops = [n for n in walk_no_nested(f.node) if isinstance(n, ast.For) and isinstance(n.target, ast.Tuple) and len(n.target.elts) == nvars]
        ok = False
        detail = "no `for operator, operands... in recording` loop"
        if loops:
            lp = loops[0]
            names = [norm(e) for e in lp.target.elts]
            calls = [n for n in ast.walk(lp) if isinstance(n, ast.Call) and isinstance(n.func, ast.Call) and norm(n.func.func) == "getattr"]
            if calls:
                cl = calls[0]
                ga = cl.func
                ok = len(ga.args) == 2 and norm(ga.args[1]) == names[0] and any(isinstance(a, ast.Starred) and norm(a.value) == names[1] for a in cl.args)
                if nvars == 3:
                    ok = ok and any(k.arg is None and norm(k.value) == names[2] for k in cl.keywords)
                detail = norm(cl)
        ctx.ob("PEN-rec", f.where, f"replay dispatches getattr(pen, <1st item>)(*<2nd item>{', **<3rd item>' if nvars == 3 else ''}): {detail}", ok, "" if ok else "replay does not apply the recorded operands to the recorded operator")


def qcurve_none(ctx, repo):
    ctx.rule("PEN-none", "the segment protocol allows qCurveTo(*offcurves, None) (closed quadratic contour without on-curve point): every qCurveTo(*points) in the package that takes its points apart (iterates / unpacks / indexes elements) tests for the None terminator; ones that forward or store the tuple whole need not", floor=4)
    n_apart = 0
    for rel in repo.rels():
        if not (rel.startswith("pens/") or rel.startswith("cu2qu/") or rel.startswith("qu2cu/") or rel.startswith("ufoLib/") or rel.startswith("ttLib/") or rel.startswith("misc/") or rel.startswith("svgLib/")):
            continue
        m = repo.mod(rel)
        for f in m.funcs.values():
            if f.node.name != "qCurveTo" or f.cls is None or not f.node.args.vararg:
                continue
            P = f.node.args.vararg.arg
            carriers = {P}
            # names bound to the whole tuple or a slice of it
            for n in walk_no_nested(f.node):
                if isinstance(n, ast.Assign) and isinstance(n.targets[0], ast.Name):
                    v = n.value
                    if isinstance(v, ast.Name) and v.id in carriers or isinstance(v, ast.Subscript) and isinstance(v.slice, ast.Slice) and isinstance(v.value, ast.Name) and v.value.id in carriers:
                        carriers.add(n.targets[0].id)
            apart = []
            tested = False
            elemvars = set()
            # local aliases of the last element (lastPt = pts[-1])
            lastvars = {n.targets[0].id for n in walk_no_nested(f.node) if isinstance(n, ast.Assign) and isinstance(n.targets[0], ast.Name) and isinstance(n.value, ast.Subscript) and isinstance(n.value.value, ast.Name) and n.value.value.id in carriers and norm(n.value.slice) == "-1"}
            for n in walk_no_nested(f.node):
                it = None
                if isinstance(n, ast.For):
                    it, tgt = n.iter, n.target
                elif isinstance(n, ast.comprehension):
                    it, tgt = n.iter, n.target
                if it is not None:
                    base = it.value if isinstance(it, ast.Subscript) and isinstance(it.slice, ast.Slice) else it
                    if isinstance(base, ast.Name) and base.id in carriers:
                        whole = not (isinstance(it, ast.Subscript))
                        # iterating points[:-1] excludes the terminator by construction
                        excl_last = isinstance(it, ast.Subscript) and isinstance(it.slice, ast.Slice) and it.slice.upper is not None and norm(it.slice.upper) == "-1" and it.slice.lower is None
                        apart.append(norm(n.iter))
                        for nm in ast.walk(tgt):
                            if isinstance(nm, ast.Name):
                                elemvars.add(nm.id)
                if isinstance(n, ast.Call):
                    # handing the tuple (or a slice of it) un-starred to a helper that maps over it
                    for a in n.args:
                        base = a.value if isinstance(a, ast.Subscript) and isinstance(a.slice, ast.Slice) else a
                        if isinstance(base, ast.Name) and base.id in carriers and not (isinstance(n.func, ast.Name) and n.func.id in ("len", "list", "tuple")):
                            apart.append(norm(n))
                if isinstance(n, ast.Subscript) and isinstance(n.value, ast.Name) and n.value.id in carriers and not isinstance(n.slice, ast.Slice):
                    par = parent(n)
                    # points[-1] compared with None is the test itself; points[-1] stored whole is not taking apart
                    if isinstance(par, ast.Compare):
                        continue
                    if isinstance(par, (ast.Subscript, ast.Attribute)) and par.value is n or isinstance(par, ast.Assign) and isinstance(par.targets[0], ast.Tuple) and par.value is n:
                        apart.append(norm(par))
            for n in walk_no_nested(f.node):
                if isinstance(n, ast.Compare) and len(n.ops) == 1 and isinstance(n.ops[0], (ast.Is, ast.IsNot)) and isinstance(n.comparators[0], ast.Constant) and n.comparators[0].value is None:
                    l = n.left
                    if isinstance(l, ast.Subscript) and isinstance(l.value, ast.Name) and l.value.id in carriers and norm(l.slice) == "-1":
                        tested = True
                    if isinstance(l, ast.Name) and (l.id in elemvars or l.id in lastvars):
                        tested = True
            if not apart:
                continue
            n_apart += 1
            ctx.consult(rel)
            ctx.ob("PEN-none", f.where, f"takes its points apart ({apart[0]}) and tests the None terminator", tested, "" if tested else "qCurveTo(*offcurves, None) -- TrueType's closed contour without on-curve points -- is not handled: the sibling implementations (BasePen, TransformPen, SegmentToPointPen, TTGlyphPen) all test `points[-1] is None`")
    if n_apart < 5:
        raise AnalysisError(f"PEN-none: only {n_apart} point-destructuring qCurveTo implementations found (5 confirmed by hand)")


def _lev1(a, b):
    """edit distance <= 2 (cheap)"""
    if a == b:
        return 0
    if abs(len(a) - len(b)) > 2:
        return 3
    prev = list(range(len(b) + 1))
    for i, ca in enumerate(a, 1):
        cur = [i]
        for j, cb in enumerate(b, 1):
            cur.append(min(prev[j] + 1, cur[j - 1] + 1, prev[j - 1] + (ca != cb)))
        prev = cur
    return prev[-1]


def vocabulary(ctx, repo):
    ctx.rule("PEN-vocab", "strings compared with / passed as segment types are the PointPen protocol's {move,line,curve,qcurve}; strings compared with recorded operators are names RecordingPen records; one expression is never compared with words of both vocabularies; a near-miss spelling of a protocol word is a typo", floor=30)
    ctx.rule("PEN-disp", "segment type <-> segment method: code under `segmentType == K` relays to SEG2OP[K]; a segment-pen method that tags points tags them OP2SEG[method]; PointToSegmentPen._flushContour handles line, curve and qcurve and its else raises", floor=8)
    m = repo.mod("pens/recordingPen.py")
    recorded = set()
    for cname in ("RecordingPen", "RecordingPointPen"):
        for name, fn in _class_methods(m.cls(cname)).items():
            for n in walk_no_nested(fn):
                if isinstance(n, ast.Call) and norm(n.func) == "self.value.append" and n.args and isinstance(n.args[0], ast.Tuple) and isinstance(n.args[0].elts[0], ast.Constant):
                    recorded.add(n.args[0].elts[0].value)
    if len(recorded) < 8:
        raise AnalysisError("recorded operator vocabulary not found")
    vocab = {w: "seg" for w in SEGTYPES}
    vocab.update({w: "op" for w in recorded})
    n_cmp = 0
    for rel in repo.rels():
        if not rel.startswith("pens/"):
            continue
        md = repo.mod(rel)
        for f in md.funcs.values():
            groups = {}
            for n in walk_no_nested(f.node):
                consts = []
                other = None
                if isinstance(n, ast.Compare) and len(n.ops) == 1:
                    l, r = n.left, n.comparators[0]
                    if isinstance(n.ops[0], (ast.Eq, ast.NotEq)):
                        if isinstance(r, ast.Constant) and isinstance(r.value, str):
                            consts, other = [r.value], l
                        elif isinstance(l, ast.Constant) and isinstance(l.value, str):
                            consts, other = [l.value], r
                    elif isinstance(n.ops[0], (ast.In, ast.NotIn)) and isinstance(r, (ast.Tuple, ast.List, ast.Set)) and r.elts and all(isinstance(e, ast.Constant) and isinstance(e.value, str) for e in r.elts):
                        consts, other = [e.value for e in r.elts], l
                elif isinstance(n, ast.Call) and isinstance(n.func, ast.Attribute) and n.func.attr == "addPoint":
                    st = None
                    if len(n.args) >= 2:
                        st = n.args[1]
                    for k in n.keywords:
                        if k.arg == "segmentType":
                            st = k.value
                    if isinstance(st, ast.Constant) and isinstance(st.value, str):
                        ok = st.value in SEGTYPES
                        n_cmp += 1
                        ctx.ob("PEN-vocab", f.where, f"addPoint(..., {st.value!r})", ok, "" if ok else "not a PointPen segment type")
                    continue
                if not consts or other is None:
                    continue
                if norm(other) == "__name__":
                    continue
                for cst in consts:
                    if len(cst) < 3:
                        continue
                    cls_ = vocab.get(cst)
                    if cls_ is None:
                        near = [w for w in vocab if w.lower() == cst.lower() or _lev1(w, cst) <= (1 if len(w) <= 5 else 2)]
                        if near:
                            n_cmp += 1
                            ctx.ob("PEN-vocab", f.where, f"{norm(other)} compared with {cst!r}", False, f"near-miss of protocol word {near[0]!r}: the comparison can never (or wrongly) match")
                        continue
                    n_cmp += 1
                    groups.setdefault(norm(other), set()).add(cls_)
                    ctx.ob("PEN-vocab", f.where, f"{norm(other)} compared with {cst!r} ({cls_} vocabulary)", True)
            for expr, classes in groups.items():
                ok = len(classes) == 1
                ctx.ob("PEN-vocab", f.where, f"{expr} is compared with words of one vocabulary only", ok, "" if ok else "the same expression is compared with a segment type and with an operator name")
    # dispatch agreement
    for rel in sorted(repo.rels()):
        if not (rel.startswith("pens/") or rel == "cu2qu/ufo.py"):
            continue
        md = repo.mod(rel)
        for f in md.funcs.values():
            # (a) code guarded by `X == "<segtype>"` calling segment methods
            for n in walk_no_nested(f.node):
                if isinstance(n, ast.Call) and isinstance(n.func, ast.Attribute) and n.func.attr in OP2SEG and n.func.attr != "moveTo":
                    ks = set()
                    for t, pol in guard_conditions(n):
                        if pol and isinstance(t, ast.Compare) and len(t.ops) == 1 and isinstance(t.ops[0], ast.Eq) and isinstance(t.comparators[0], ast.Constant) and t.comparators[0].value in SEGTYPES:
                            ks.add(t.comparators[0].value)
                    if len(ks) == 1:
                        k = next(iter(ks))
                        ok = SEG2OP[k] == n.func.attr
                        ctx.ob("PEN-disp", f.where, f"under segment type {k!r}: {norm(n.func)}(...)", ok, "" if ok else f"a {k!r} segment is emitted as {n.func.attr}")
            # (b) segment-pen methods tagging points
            if f.cls is not None and f.node.name in OP2SEG:
                tags = set()
                for n in walk_no_nested(f.node):
                    if isinstance(n, ast.Constant) and isinstance(n.value, str) and n.value in SEGTYPES and not isinstance(parent(n), ast.Compare):
                        tags.add(n.value)
                if tags:
                    ok = tags == {OP2SEG[f.node.name]}
                    ctx.ob("PEN-disp", f.where, f"tags its points {sorted(tags)}", ok, "" if ok else f"{f.node.name} tags points as {sorted(tags)}")
    f = repo.mod("pens/pointPen.py").func("PointToSegmentPen._flushContour")
    chain = set()
    raises_else = False
    for n in walk_no_nested(f.node):
        if isinstance(n, ast.If) and isinstance(n.test, ast.Compare) and norm(n.test.left) == "segmentType" and isinstance(n.test.comparators[0], ast.Constant):
            chain.add(n.test.comparators[0].value)
            if n.orelse and not (len(n.orelse) == 1 and isinstance(n.orelse[0], ast.If)):
                raises_else = any(isinstance(s, ast.Raise) for s in n.orelse)
    ok = chain == {"line", "curve", "qcurve"} and raises_else
    ctx.ob("PEN-disp", f.where, f"segment dispatch handles {sorted(chain)} and the else arm raises", ok, "" if ok else "a segment type is not handled (dropped silently) or an unknown one is accepted")
    if n_cmp < 30:
        raise AnalysisError(f"PEN-vocab: only {n_cmp} vocabulary uses found")


ALL = [relay_wiring, recorder_wiring, qcurve_none, vocabulary]


# ---------------------------------------------------------------------------
# PEN-state: a filter pen that relies on the tracked current point emits through the tracking methods
# ---------------------------------------------------------------------------
SEGMENT_METHODS = ("moveTo", "lineTo", "curveTo", "qCurveTo", "closePath", "endPath")


def filter_state(ctx, repo):
    ctx.rule("PEN-state", "a FilterPen subclass that reads the current point FilterPen tracks (self.current_pt) draws on the wrapped pen only through FilterPen's own segment methods (super().lineTo / curveTo / ...), which update it; a segment sent straight to self._outPen leaves current_pt at the previous segment's end, and the next curve is measured from a stale start point", floor=1)
    n = 0
    for rel in sorted(repo.rels()):
        if not rel.startswith("pens/"):
            continue
        m = repo.mod(rel)
        for q, c in sorted(m.classes.items()):
            if c.name == "FilterPen" or not repo.is_subclass(c, "FilterPen"):
                continue
            reads = [x for f in c.methods.values() for x in ast.walk(f.node) if isinstance(x, ast.Attribute) and x.attr == "current_pt" and isinstance(x.ctx, ast.Load) and norm(x.value) == "self"]
            if not reads:
                continue
            n += 1
            ctx.consult(rel)
            direct = [norm(x)[:50] for f in c.methods.values() for x in ast.walk(f.node) if isinstance(x, ast.Call) and isinstance(x.func, ast.Attribute) and x.func.attr in SEGMENT_METHODS and norm(x.func.value) == "self._outPen"]
            ctx.ob("PEN-state", c.where, f"{c.name} reads self.current_pt in {len(reads)} place(s) and emits no segment directly on self._outPen", not direct, "" if not direct else f"{direct[0]} bypasses the method that advances current_pt")
    if n < 1:
        raise AnalysisError("PEN-state: no FilterPen subclass reads self.current_pt (Cu2QuPen confirmed by hand)")


ALL.append(filter_state)


# ---------------------------------------------------------------------------
# PEN-last: a primitive callback that remembers "where the pen is" remembers its END point
# ---------------------------------------------------------------------------
def last_point_is_end(ctx, repo):
    ctx.rule("PEN-last", "in a BasePen subclass, a primitive callback (_moveTo / _lineTo / _curveToOne / _qCurveToOne) that stores one of its point parameters into a pen attribute (the remembered pen position: _lastX/_lastY, _pt, current ...) stores its LAST point parameter, the segment's on-curve end, never a control point", floor=3)
    n = 0
    for rel in sorted(repo.rels()):
        if not (rel.startswith("pens/") or rel in ("svgLib/path/shapes.py",)):
            continue
        m = repo.mod(rel)
        for q, c in sorted(m.classes.items()):
            for name in ("_moveTo", "_lineTo", "_curveToOne", "_qCurveToOne"):
                f = c.methods.get(name)
                if f is None:
                    continue
                ps = [a.arg for a in f.node.args.args][1:]
                if not ps:
                    continue
                end = ps[-1]
                for st in walk_no_nested(f.node):
                    if not isinstance(st, ast.Assign):
                        continue
                    tgts = [t for tg in st.targets for t in (tg.elts if isinstance(tg, (ast.Tuple, ast.List)) else [tg])]
                    if not tgts or not all(isinstance(t, ast.Attribute) and norm(t.value) == "self" for t in tgts):
                        continue
                    src = st.value
                    if isinstance(src, ast.Name) and src.id in ps:
                        n += 1
                        ctx.consult(rel)
                        ok = src.id == end
                        ctx.ob("PEN-last", f.where, f"{norm(st)[:60]}", ok, "" if ok else f"the remembered position is the control point {src.id}, not the segment end {end}: the next segment's shorthand / duplicate test is computed from the wrong point")
    if n < 3:
        raise AnalysisError(f"PEN-last: {n} remembered-position stores found in primitive callbacks (SVGPathPen confirmed by hand)")


ALL.append(last_point_is_end)

"""C03: F7 VOCAB (toXML <-> fromXML vocabulary agreement), F8 ESCAPE, precision agreement."""

from __future__ import annotations

import ast
import re

from ..core import AnalysisError, norm, calls_in, call_name, last_attr, walk_no_nested, parent
from ..consteval import try_fold, module_env, fold_module_sequence, Unknown
from ..cfg import guard_conditions
from ..fmt import sstruct_parse

WRITE_FUNCS = ("toXML", "toXML2", "xmlWrite", "_writeGlyph", "toXMLMulti")
READ_FUNCS = ("fromXML", "xmlRead")


def _const_strs(e, env):
    """possible constant string values of an expression"""
    v = try_fold(e, env)
    if isinstance(v, str):
        return {v}
    if isinstance(e, ast.IfExp):
        return _const_strs(e.body, env) | _const_strs(e.orelse, env)
    return set()


class Vocab:
    def __init__(self):
        self.w_elems, self.w_attrs = set(), set()
        self.w_generic_elem = False  # element names computed from data (loop over sstruct names etc.)
        self.w_generic_attr = False
        self.r_elems, self.r_attrs_mand, self.r_attrs_opt = set(), {}, set()
        self.r_generic = False


def module_vocab(repo, mod):
    env = module_env(repo, mod)
    v = Vocab()
    for q, f in mod.funcs.items():
        nm = f.node.name
        params_ = [a.arg for a in f.node.args.args]
        is_w = nm in WRITE_FUNCS or nm.startswith(("toXML", "_toXML", "xmlWrite")) or any(last_attr(c) in ("simpletag", "begintag") for c in calls_in(f.node, nested=False))
        is_r = nm in READ_FUNCS or nm.startswith(("fromXML", "_fromXML", "xmlRead")) or ("attrs" in params_ and "content" in params_)
        if is_w:
            for c in calls_in(f.node):
                la = last_attr(c)
                if la in ("simpletag", "begintag", "endtag") and c.args:
                    names = _const_strs(c.args[0], env)
                    if names:
                        v.w_elems |= names
                    else:
                        v.w_generic_elem = True
                    for k in c.keywords:
                        if k.arg:
                            v.w_attrs.add(k.arg)
                        else:
                            v.w_generic_attr = True
                    for a in c.args[1:]:
                        _collect_attr_list(a, v, env, f)
            # attribute lists built separately:  attrs = [("k", v), ...] ; attrs.append(("k", v)) ; attrs = attrs + [...]
            for n in walk_no_nested(f.node):
                if isinstance(n, (ast.List, ast.Tuple)):
                    for e in n.elts:
                        if isinstance(e, ast.Tuple) and len(e.elts) == 2:
                            s = try_fold(e.elts[0], env)
                            if isinstance(s, str):
                                v.w_attrs.add(s)
                if isinstance(n, ast.Call) and last_attr(n) == "append" and n.args and isinstance(n.args[0], ast.Tuple) and len(n.args[0].elts) == 2:
                    s = try_fold(n.args[0].elts[0], env)
                    if isinstance(s, str):
                        v.w_attrs.add(s)
                if isinstance(n, ast.Dict):
                    for k in n.keys:
                        s = try_fold(k, env) if k is not None else None
                        if isinstance(s, str):
                            v.w_attrs.add(s)
                if isinstance(n, ast.Call) and call_name(n) in ("dict", "OrderedDict"):
                    for k in n.keywords:
                        if k.arg:
                            v.w_attrs.add(k.arg)
                if isinstance(n, ast.Assign) and isinstance(n.targets[0], ast.Subscript) and isinstance(n.targets[0].slice, ast.Constant) and isinstance(n.targets[0].slice.value, str):
                    v.w_attrs.add(n.targets[0].slice.value)
        if is_r:
            params = [a.arg for a in f.node.args.args]
            attrs_name = "attrs" if "attrs" in params else None
            rebound = {x.id for n_ in walk_no_nested(f.node) if isinstance(n_, ast.For) and "attrs" in norm(n_.iter) for x in ast.walk(n_.target) if isinstance(x, ast.Name)}
            for n in walk_no_nested(f.node):
                if isinstance(n, ast.Compare) and isinstance(n.left, ast.Name) and n.left.id in rebound:
                    for s_ in _cmp_strs(n, env) if len(n.ops) == 1 else ():
                        v.r_attrs_opt.add(s_)
                    continue
                if isinstance(n, ast.Compare) and len(n.ops) == 1 and isinstance(n.left, ast.Name) and n.left.id in ("name", "eltName", "tag", "elementName"):
                    for s in _cmp_strs(n, env):
                        v.r_elems.add(s)
                if isinstance(n, ast.Subscript) and isinstance(n.value, ast.Name) and n.value.id in ("attrs", "eltAttrs", "a") and isinstance(n.ctx, ast.Load):
                    s = try_fold(n.slice, env)
                    if isinstance(s, str):
                        # guarded by `"k" in attrs` ?
                        guarded = any(f"'{s}' in {n.value.id}" in norm(t) for t, pol in guard_conditions(n) if pol)
                        if not guarded and _in_try_keyerror(n, f.node):
                            guarded = True
                        if guarded:
                            v.r_attrs_opt.add(s)
                        else:
                            v.r_attrs_mand.setdefault(s, f)
                    else:
                        v.r_generic = True
                if isinstance(n, ast.Call) and last_attr(n) == "get" and isinstance(n.func, ast.Attribute) and isinstance(n.func.value, ast.Name) and n.func.value.id in ("attrs", "eltAttrs", "a") and n.args:
                    s = try_fold(n.args[0], env)
                    if isinstance(s, str):
                        v.r_attrs_opt.add(s)
                if isinstance(n, ast.Compare) and len(n.ops) == 1 and isinstance(n.ops[0], (ast.In, ast.NotIn)) and isinstance(n.comparators[0], ast.Name) and n.comparators[0].id in ("attrs", "eltAttrs", "a"):
                    s = try_fold(n.left, env)
                    if isinstance(s, str):
                        v.r_attrs_opt.add(s)
    return v


def merged_vocab(repo, mod):
    """vocabulary of a module plus the sibling ttLib/tables modules it imports classes from
    (sub-records such as SbitLineMetrics or BitmapGlyphMetrics write their own elements)"""
    v = module_vocab(repo, mod)
    # sstruct field names of the module are element/attribute names of generic writers
    for name in list(mod.assigns):
        try:
            val = fold_module_sequence(repo, mod, name)
        except Unknown:
            continue
        if isinstance(val, str) and ":" in val and "\n" in val:
            try:
                v.w_elems |= set(sstruct_parse(val).names)
                v.w_attrs |= set(sstruct_parse(val).names)
            except ValueError:
                pass
    seen = {mod.rel}
    for tgt in set(mod.imports.values()):
        parts = tgt.split(".")
        for cut in (len(parts), len(parts) - 1):
            m2 = repo.by_dotted_get(".".join(parts[:cut]))
            if m2 is not None and m2.rel not in seen and m2.rel.startswith("ttLib/tables/") and not m2.rel.endswith(("otBase.py", "otTables.py", "otConverters.py", "DefaultTable.py", "__init__.py", "otData.py")):
                seen.add(m2.rel)
                o = module_vocab(repo, m2)
                v.w_elems |= o.w_elems
                v.w_attrs |= o.w_attrs
                v.w_generic_attr |= o.w_generic_attr
                v.w_generic_elem |= o.w_generic_elem
                for name in list(m2.assigns):
                    try:
                        val = fold_module_sequence(repo, m2, name)
                    except Unknown:
                        continue
                    if isinstance(val, str) and ":" in val and "\n" in val:
                        try:
                            v.w_elems |= set(sstruct_parse(val).names)
                        except ValueError:
                            pass
    return v


def _collect_attr_list(a, v, env, f):
    if isinstance(a, (ast.List, ast.Tuple)):
        for e in a.elts:
            if isinstance(e, ast.Tuple) and len(e.elts) == 2:
                s = try_fold(e.elts[0], env)
                if isinstance(s, str):
                    v.w_attrs.add(s)
                else:
                    v.w_generic_attr = True
    elif isinstance(a, ast.BinOp):
        _collect_attr_list(a.left, v, env, f)
        _collect_attr_list(a.right, v, env, f)
    elif isinstance(a, (ast.Name, ast.Call, ast.ListComp, ast.Attribute, ast.Starred)):
        v.w_generic_attr = True


def _cmp_strs(n, env):
    c = n.comparators[0]
    if isinstance(n.ops[0], (ast.Eq, ast.NotEq)):
        s = try_fold(c, env)
        return {s} if isinstance(s, str) else set()
    if isinstance(n.ops[0], (ast.In, ast.NotIn)):
        s = try_fold(c, env)
        if isinstance(s, (tuple, list, set, frozenset)):
            return {x for x in s if isinstance(x, str)}
    return set()


def _in_try_keyerror(node, stop):
    cur = parent(node)
    while cur is not None and cur is not stop:
        if isinstance(cur, ast.Try) and any(h.type is None or "KeyError" in norm(h.type) or "Exception" in norm(h.type) for h in cur.handlers):
            return True
        cur = parent(cur)
    return False


SCOPE = lambda rel: rel.startswith("ttLib/") or rel in ("cffLib/__init__.py", "misc/psCharStrings.py")


def f7_vocab(ctx, repo):
    ctx.rule("F7a", "every XML attribute a fromXML/xmlRead reads unconditionally (attrs['k'] not guarded by a presence test) is written by a toXML/xmlWrite of the same module or of a sibling table module it imports", floor=140)
    ctx.rule("F7e", "in modules whose writers name their elements literally, every element name the reader dispatches on is one the writer emits", floor=60)
    unarmed = []
    for rel in sorted(repo.rels()):
        if not SCOPE(rel):
            continue
        mod = repo.mod(rel)
        v = merged_vocab(repo, mod)
        for k, f in sorted(v.r_attrs_mand.items()):
            ok = k in v.w_attrs
            ctx.ob("F7a", f.where, f"attrs['{k}'] is emitted by the writer side", ok, "" if ok else "reader requires an attribute that no writer in the module emits (KeyError on its own dump, or a renamed attribute)")
        if not v.r_elems:
            continue
        if v.w_generic_elem:
            unarmed.append(rel)
            continue
        for e in sorted(v.r_elems):
            ok = e in v.w_elems
            ctx.ob("F7e", f"{rel}:<module>", f"element <{e}> handled by the reader is emitted by the writer", ok, "" if ok else "reader dispatches on an element name the writer never produces (renamed on one side)")
    ctx.info["F7_element_unarmed_modules_generic_writers"] = unarmed


def f8_escape(ctx, repo):
    from ..slicer import Slicer

    ctx.rule("F8", "in XMLWriter every data parameter reaches the stream through escape/escapeattr/escape8bit/hexStr (CDATA text is split at ']]>'); escape covers & < >, escapeattr additionally the quote; nothing outside xmlWriter writes to the stream raw", floor=12)
    m = repo.mod("misc/xmlWriter.py")
    xw = m.cls("XMLWriter")
    SAN = {"escape", "escapeattr", "escape8bit", "hexStr", "stringifyattrs"}
    for name, f in sorted(xw.methods.items()):
        if name in ("__init__", "_writeraw"):
            continue
        sites = [c for c in calls_in(f.node, nested=False) if norm(c.func) == "self._writeraw" and c.args]
        if not sites:
            continue
        sl = Slicer(f.node, stop_calls=SAN)
        params = {a.arg for a in f.node.args.args} - {"self"}
        for c in sites:
            leaves = sl.leaves(c.args[0])
            # a parameter re-bound to its own escaped value before any use (data = escape(data)) is sanitised
            pre = set()
            for st in f.node.body:
                if isinstance(st, ast.Assign) and isinstance(st.targets[0], ast.Name) and isinstance(st.value, ast.Call) and call_name(st.value) in SAN and st.value.args and norm(st.value.args[0]) == st.targets[0].id:
                    pre.add(st.targets[0].id)
                elif not (isinstance(st, ast.Expr) and isinstance(st.value, ast.Constant)):
                    break
            raw = sorted({l.text for l in leaves if l.kind == "param" and l.text in params and l.text not in pre and not (l.through and l.through[-1] in SAN)})
            allowed = {"_TAG_"}
            if name == "writecdata":
                # raw by design, but the terminator must be neutralised
                ok = any(isinstance(x, ast.Call) and last_attr(x) == "replace" and try_fold(x.args[0]) == "]]>" for x in ast.walk(f.node))
                ctx.ob("F8", f.where, "CDATA text has ']]>' split before it is written", ok, "" if ok else "text containing ']]>' would end the CDATA section early")
                continue
            bad = [r for r in raw if r not in allowed]
            ctx.ob("F8", f.where, f"_writeraw({norm(c.args[0])[:50]}): raw parameters {raw}", not bad, "" if not bad else f"parameter {bad} reaches the XML stream unescaped")
    sa = m.func("XMLWriter.stringifyattrs")
    # every occurrence of the value inside a %-format sits inside the argument of escapeattr(...)
    fmts = [n for n in ast.walk(sa.node) if isinstance(n, ast.BinOp) and isinstance(n.op, ast.Mod) and "value" in norm(n.right)]
    uses = [norm(n) for n in fmts]

    def escaped(name_node, stop):
        p_ = parent(name_node)
        while p_ is not None and p_ is not stop:
            if isinstance(p_, ast.Call) and call_name(p_) == "escapeattr":
                return True
            # a test position (isinstance(value, ...)) is not data flowing into the string
            if isinstance(p_, ast.IfExp) and any(x is name_node for x in ast.walk(p_.test)):
                return True
            p_ = parent(p_)
        return False

    ok = bool(fmts) and all(escaped(x, f_.right) or False for f_ in fmts for x in ast.walk(f_.right) if isinstance(x, ast.Name) and x.id == "value")
    ctx.ob("F8", sa.where, f"attribute values formatted as {uses}", ok, "" if ok else "an attribute value is interpolated without escapeattr")
    # comments: '--' may not occur inside <!-- ... -->; the escaped text must also have every '--' broken up (to a fixpoint)
    cm = m.func("XMLWriter.comment")
    neut = [n for n in ast.walk(cm.node) if isinstance(n, ast.Call) and last_attr(n) == "replace" and n.args and try_fold(n.args[0]) == "--" and "--" not in str(try_fold(n.args[1]))]
    loop = any(isinstance(w, ast.While) and "'--' in" in norm(w.test) and any(x in ast.walk(w) for x in neut) for w in ast.walk(cm.node))
    ok = bool(neut) and (loop or any(isinstance(n, ast.Call) and norm(n.func).endswith("re.sub") for n in ast.walk(cm.node)))
    ctx.ob("F8", cm.where, "comment text has every '--' broken up (replace inside `while '--' in data`)", ok, "" if ok else "font-controlled text containing '--' (or '---', which one replace() pass leaves as '- --') makes the dump unparseable")
    esc = m.func("escape")
    rep = {try_fold(c.args[0]): try_fold(c.args[1]) for c in calls_in(esc.node) if last_attr(c) == "replace" and len(c.args) == 2}
    ok = rep.get("&") == "&amp;" and rep.get("<") == "&lt;" and rep.get(">") == "&gt;"
    ctx.ob("F8", esc.where, f"escape replaces {sorted(k for k in rep if k)}", ok)
    order = [try_fold(c.args[0]) for c in calls_in(esc.node) if last_attr(c) == "replace"]
    # '&' must be replaced first, otherwise the entities produced by later replacements get double-escaped
    srcorder = [try_fold(n.value.args[0]) for n in walk_no_nested(esc.node) if isinstance(n, ast.Assign) and isinstance(n.value, ast.Call) and last_attr(n.value) == "replace"]
    ctx.ob("F8", esc.where, f"'&' is replaced first: {srcorder}", srcorder[:1] == ["&"], "" if srcorder[:1] == ["&"] else "ampersands of generated entities would be escaped again")
    ea = m.func("escapeattr")
    ok = any(call_name(c) == "escape" for c in calls_in(ea.node)) and any(last_attr(c) == "replace" and try_fold(c.args[0]) == '"' and try_fold(c.args[1]) == "&quot;" for c in calls_in(ea.node))
    ctx.ob("F8", ea.where, "escapeattr = escape + quote", ok)
    e8 = m.func("escape8bit")
    txt = norm(e8.node)
    ok = "32 <= n <= 127 and c not in '<&>'" in txt and "'&#' + repr(n) + ';'" in txt
    ctx.ob("F8", e8.where, "escape8bit passes only printable ASCII other than < & > and writes the rest as numeric references", ok)
    # who may write raw
    for rel in sorted(repo.rels()):
        if rel == "misc/xmlWriter.py":
            continue
        mod = repo.mod(rel)
        for c in calls_in(mod.tree):
            t = norm(c.func)
            if t.endswith("._writeraw") or (t.endswith(".file.write") and ("writer" in t.lower() or "xml" in t.lower())):
                ctx.ob("F8", f"{rel}:<module>", t, False, "raw write to the XML stream outside XMLWriter")
    ctx.ob("F8", "misc/xmlWriter.py:<module>", "no raw stream writes outside XMLWriter in the package", True, nontrivial=False)


def precision_pairs(ctx, repo):
    ctx.rule("F7p", "per class, the fixed-point precision used by toXML (fl2str) equals the one used by fromXML (str2fl) and by the binary codec (fi2fl/fl2fi)", floor=8)
    for rel in sorted(repo.rels()):
        if not rel.startswith("ttLib/tables/") or rel.endswith(("otConverters.py", "otBase.py")):
            continue
        mod = repo.mod(rel)
        env = module_env(repo, mod)
        aliases = {k: v.rsplit(".", 1)[-1] for k, v in mod.imports.items() if "fixedTools" in v}
        if not aliases:
            continue
        owners = {}
        for q, f in mod.funcs.items():
            owner = f.cls.qual if f.cls else "<module>"
            for c in calls_in(f.node, nested=False):
                nm = call_name(c)
                if nm in aliases and len(c.args) >= 2:
                    role = {"floatToFixedToStr": "xmlW", "fixedToStr": "xmlW", "strToFixedToFloat": "xmlR", "strToFixed": "xmlR", "fixedToFloat": "binR", "floatToFixed": "binW", "floatToFixedToFloat": "bin"}.get(aliases[nm])
                    bits = try_fold(c.args[1], env)
                    if role and isinstance(bits, int):
                        owners.setdefault(owner, {}).setdefault(role, set()).add(bits)
        for owner, d in sorted(owners.items()):
            w, r_ = d.get("xmlW"), d.get("xmlR")
            if w and r_:
                ok = w == r_
                ctx.ob("F7p", f"{rel}:{owner}", f"toXML precision {sorted(w)} == fromXML precision {sorted(r_)}", ok, "" if ok else "values are printed and parsed with different fixed-point precisions")
            bw, br = d.get("binW"), d.get("binR")
            if bw and br:
                ok = bw == br
                ctx.ob("F7p", f"{rel}:{owner}", f"compile precision {sorted(bw)} == decompile precision {sorted(br)}", ok, "" if ok else "fixed-point fields are encoded and decoded with different scales")
            if w and bw and len(w) == 1 and len(bw) == 1:
                ok = w == bw
                ctx.ob("F7p", f"{rel}:{owner}", f"XML precision {sorted(w)} == binary precision {sorted(bw)}", ok)


def include_handling(ctx, repo):
    ctx.rule("F7i", "split dumps: the writer records the basename of each table file in src= and the reader joins src= with the including file's directory; sub-files are read with the same font object", floor=3)
    tf = repo.mod("ttLib/ttFont.py").func("TTFont._saveXML")
    ok = any(isinstance(c, ast.Call) and last_attr(c) == "simpletag" and any(k.arg == "src" and norm(k.value) == "os.path.basename(tablePath)" for k in c.keywords) for c in calls_in(tf.node))
    ctx.ob("F7i", tf.where, "writer.simpletag(tagToXML(tag), src=os.path.basename(tablePath))", ok)
    xr = repo.mod("misc/xmlReader.py").func("XMLReader._startElementHandler")
    from ..core import private_callees

    # name-insensitive: some os.path.join(A, B) in the handler (or a helper it calls) where A is bound from
    # os.path.dirname(self.file.name) and B from attrs.get('src')
    txt = norm(xr.node) + "\n" + "\n".join(norm(h.node) for h in private_callees(repo, xr))
    ok = False
    for g in [xr] + list(private_callees(repo, xr)):
        defs = {}
        for n in walk_no_nested(g.node):
            if isinstance(n, ast.Assign) and isinstance(n.targets[0], ast.Name):
                defs.setdefault(n.targets[0].id, set()).add(norm(n.value))
        for c in calls_in(g.node):
            if norm(c.func) == "os.path.join" and len(c.args) == 2 and all(isinstance(a, ast.Name) for a in c.args):
                a, b = c.args[0].id, c.args[1].id
                src_ok = "attrs.get('src')" in defs.get(b, ())
                if not src_ok and g.node is not xr.node:
                    # b is a parameter of the helper: the handler passes attrs.get('src') for it
                    ps = [p_.arg for p_ in g.node.args.args]
                    if b in ps:
                        k = ps.index(b) - (1 if ps and ps[0] in ("self", "cls") else 0)
                        for c2 in calls_in(xr.node):
                            if last_attr(c2) == g.node.name or call_name(c2) == g.node.name:
                                if 0 <= k < len(c2.args) and norm(c2.args[k]) == "attrs.get('src')" or any(kw.arg == b and norm(kw.value) == "attrs.get('src')" for kw in c2.keywords):
                                    src_ok = True
                if "os.path.dirname(self.file.name)" in defs.get(a, ()) and src_ok:
                    ok = True
    ctx.ob("F7i", xr.where, "reader resolves src= against the including file's directory", ok)
    ok = all("self.ttFont" in norm(c) for c in calls_in(xr.node) if call_name(c) == "XMLReader") and any(call_name(c) == "XMLReader" for c in calls_in(xr.node))
    ctx.ob("F7i", xr.where, "sub-readers share the font object", ok)
    ok = "tagToXML(tag)" in norm(tf.node) and "ttLib.xmlToTag(name)" in txt
    ctx.ob("F7i", xr.where, "table element names: tagToXML on write, xmlToTag on read", ok)


ALL = [f7_vocab, f8_escape, precision_pairs, include_handling]


def ebdt_row_accessors(ctx, repo):
    ctx.rule("EBDT-kw", "EBDT image dumps: for each text format the writer's getRow(...) and the reader's setRows(...) are called with the same bitDepth / reverseBytes / metrics arguments (defaults counted), so rows are cut and rebuilt with the same geometry", floor=2)
    mod = repo.mod("ttLib/tables/E_B_D_T_.py")
    DEF = {"bitDepth": "1", "metrics": "None", "reverseBytes": "False"}
    pairs = []
    for q in mod.funcs:
        m = re.match(r"^_write(\w+)ImageData$", q)
        if m and ("_read%sImageData" % m.group(1)) in mod.funcs:
            pairs.append((q, "_read%sImageData" % m.group(1)))
    n = 0
    for wq, rq in sorted(pairs):
        w, r = mod.func(wq), mod.func(rq)
        g = [c for c in calls_in(w.node) if last_attr(c) == "getRow"]
        s_ = [c for c in calls_in(r.node) if last_attr(c) == "setRows"]
        if not g and not s_:
            continue
        n += 1

        def kws(c):
            d = dict(DEF)
            for k in c.keywords:
                if k.arg in d:
                    d[k.arg] = norm(k.value)
            return d

        ok = len(g) == 1 and len(s_) == 1 and kws(g[0]) == kws(s_[0])
        ctx.ob("EBDT-kw", w.where, f"{wq}: getRow{kws(g[0]) if g else None} / {rq}: setRows{kws(s_[0]) if s_ else None}", ok, "" if ok else "rows are written with a different bit depth / byte order than they are read back with")
        if ok and kws(g[0])["bitDepth"] != "1":
            # the printed width must cover width * bitDepth bits when the row is turned into text bits
            d2b = [c for c in calls_in(w.node) if call_name(c) == "_data2binary"]
            for c in d2b:
                okw = "bitDepth" in norm(c.args[1]) if len(c.args) > 1 else False
                ctx.ob("EBDT-kw", w.where, f"{norm(c)[:70]} prints width * bitDepth bits", okw, "" if okw else "only the first `width` bits of each row are printed")
    if n < 2:
        raise AnalysisError("EBDT-kw: row/bitwise writer-reader pairs not found")


ALL.append(ebdt_row_accessors)


# ---------------------------------------------------------------------------
# ESC-order: the ampersand is escaped before anything that introduces one
# ---------------------------------------------------------------------------
def escape_order(ctx, repo):
    ctx.rule("ESC-order", "in the XML writer's escaping helpers every replacement that introduces an entity (`... -> '&xxx;'`) is applied to text whose own ampersands were already escaped: escape() replaces '&' first, and escapeattr() replaces the quote on the result of escape(), never on its argument (otherwise the new '&' is escaped again and a quote comes back as the text `&quot;`)", floor=2)
    from ..core import sym_return

    m = repo.mod("misc/xmlWriter.py")
    esc = m.func("escape")
    # order of the chained replacements in escape(): substitute locals in assignment order by hand (escape is not
    # straight-line: it ends with a warning branch), reading only the leading run of `data = data.replace(a, b)`
    seq = []
    for st in esc.node.body:
        if isinstance(st, ast.Assign) and isinstance(st.value, ast.Call) and isinstance(st.value.func, ast.Attribute) and st.value.func.attr == "replace" and len(st.value.args) == 2 and all(isinstance(a, ast.Constant) for a in st.value.args):
            seq.append((st.value.args[0].value, st.value.args[1].value))
    intro = [i for i, (a, b) in enumerate(seq) if isinstance(b, str) and b.startswith("&")]
    amp = [i for i, (a, b) in enumerate(seq) if a == "&"]
    ok = bool(amp) and bool(intro) and amp[0] == min(intro)
    ctx.ob("ESC-order", esc.where, f"escape(): replacements in order {[a for a, b in seq]}", ok, "" if ok else "'&' is not the first replacement: entities introduced earlier are escaped again")
    ea = m.func("escapeattr")
    r = sym_return(repo, ea, depth=0)
    ok = False
    detail = "escapeattr is not a straight-line function"
    if r is not None:
        reps = [c for c in ast.walk(r) if isinstance(c, ast.Call) and isinstance(c.func, ast.Attribute) and c.func.attr == "replace" and len(c.args) == 2 and isinstance(c.args[1], ast.Constant) and isinstance(c.args[1].value, str) and c.args[1].value.startswith("&")]
        escs = [c for c in ast.walk(r) if isinstance(c, ast.Call) and isinstance(c.func, ast.Name) and c.func.id == "escape"]
        inner_ok = all(any(e is x for x in ast.walk(c.func.value) for e in escs) for c in reps)  # receiver contains the escape() call
        outer_ok = not any(isinstance(x, ast.Call) and x in reps for e in escs for a in e.args for x in ast.walk(a))
        quote = any(isinstance(c.args[0], ast.Constant) and c.args[0].value == '"' for c in reps)
        ok = bool(escs) and bool(reps) and inner_ok and outer_ok and quote
        detail = f"summary {norm(r)[:90]}"
    ctx.ob("ESC-order", ea.where, f"escapeattr(): the quote is replaced on the result of escape() ({detail})", ok, "" if ok else "the quote entity is introduced before escape() runs (or the quote is not replaced at all)")


ALL.append(escape_order)

"""F12 SET-ORDER: no iteration over an unordered container reaches an
order-sensitive sink (C16; scoped variants for C07/C08/C10/C11)."""

from __future__ import annotations

import ast

from ..core import norm, walk_cached as walk_no_nested, call_name, last_attr, parent, dotted_name

SET_METHODS_RET_SET = {"union", "intersection", "difference", "symmetric_difference", "copy"}
SET_CTORS = {"set", "frozenset"}
INSENSITIVE_CONSUMERS = {"sorted", "len", "min", "max", "sum", "any", "all", "set", "frozenset", "bool", "isinstance", "Counter", "type", "id"}
ORDERED_CONSUMERS = {"list", "tuple", "enumerate", "zip", "iter", "next", "reversed", "map", "filter", "OrderedDict", "dict", "bytes", "bytearray", "array"}
MUTATORS_OK = {"add", "discard", "update", "remove", "difference_update", "intersection_update", "symmetric_difference_update", "subset", "clear"}


class SetTypes:
    """Flow-insensitive inference of set-typed names inside a module."""

    def __init__(self, repo, mod):
        self.repo = repo
        self.mod = mod
        self.self_attrs = {}  # class qual -> {attr}
        self.func_returns_set = set()  # function quals (module-level or methods by name) all of whose returns are sets
        self.receivers = {}  # receiver variable name -> set of set-typed attribute names
        self._infer_module()
        self._load_receivers()

    RECEIVERS = {
        # module prefix -> {receiver name: (module, class)}: conventional parameter names typed by hand
        "subset/": {"s": ("subset/__init__.py", "Subsetter"), "subsetter": ("subset/__init__.py", "Subsetter")},
    }

    def _load_receivers(self):
        for prefix, table in self.RECEIVERS.items():
            if not self.mod.rel.startswith(prefix):
                continue
            for name, (rel, cls) in table.items():
                if rel == self.mod.rel:
                    attrs = self.self_attrs.get(cls, set())
                else:
                    other = _settypes_cache(self.repo, self.repo.mod(rel))
                    attrs = other.self_attrs.get(cls, set())
                self.receivers[name] = set(attrs)

    def _infer_module(self):
        # iterate to a small fixpoint: self attrs and returning functions feed local inference
        for _ in range(3):
            for q, c in self.mod.classes.items():
                attrs = self.self_attrs.setdefault(q, set())
                notset = set()
                cand = {}
                for mname, f in c.methods.items():
                    loc = self.local_sets(f.node, q)
                    for n in walk_no_nested(f.node):
                        tg = None
                        if isinstance(n, ast.Assign):
                            for t in n.targets:
                                if isinstance(t, ast.Attribute) and isinstance(t.value, ast.Name) and t.value.id == "self":
                                    if isinstance(n.value, ast.Constant) and n.value.value is None:
                                        continue  # `self.x = None` (reset / not yet known) does not change what x holds when it is iterated
                                    cand.setdefault(t.attr, []).append(self.is_set(n.value, loc, q))
                        elif isinstance(n, ast.AnnAssign) and n.value is not None:
                            t = n.target
                            if isinstance(t, ast.Attribute) and isinstance(t.value, ast.Name) and t.value.id == "self":
                                cand.setdefault(t.attr, []).append(self.is_set(n.value, loc, q))
                for a, flags in cand.items():
                    if flags and all(flags):
                        attrs.add(a)
            for q, f in self.mod.funcs.items():
                rets = [n for n in walk_no_nested(f.node) if isinstance(n, ast.Return) and n.value is not None]
                if not rets:
                    continue
                clsq = f.cls.qual if f.cls is not None else None
                loc = self.local_sets(f.node, clsq)
                if all(self.is_set(r.value, loc, clsq) for r in rets):
                    self.func_returns_set.add(f.node.name if "." in q else q)

    def local_sets(self, fnode, clsq):
        """names that are set-typed inside fnode.  Returns a LocalSets: a name is set-typed at a use
        if the textually closest preceding assignment is set-typed (or, with no preceding
        assignment, if every assignment is)."""
        base = self._local_sets_all(fnode, clsq)
        ls = LocalSets(base)
        for n in walk_no_nested(fnode):
            if isinstance(n, ast.Assign):
                for t in n.targets:
                    if isinstance(t, ast.Name):
                        ls.add(t.id, (n.end_lineno, n.end_col_offset), self.is_set(n.value, base, clsq))
                    elif isinstance(t, (ast.Tuple, ast.List)):
                        pair = isinstance(n.value, (ast.Tuple, ast.List)) and len(n.value.elts) == len(t.elts)
                        for k_, e in enumerate(t.elts):
                            if isinstance(e, ast.Name):
                                ls.add(e.id, (n.end_lineno, n.end_col_offset), self.is_set(n.value.elts[k_], base, clsq) if pair else False)
            elif isinstance(n, ast.AnnAssign) and isinstance(n.target, ast.Name) and n.value is not None:
                ls.add(n.target.id, (n.end_lineno, n.end_col_offset), self.is_set(n.value, base, clsq))
            elif isinstance(n, (ast.For, ast.comprehension)):
                for e in ast.walk(n.target):
                    if isinstance(e, ast.Name):
                        ls.add(e.id, (getattr(n, "lineno", 0) or getattr(n.target, "lineno", 0), getattr(n.target, "col_offset", 0)), False)
        return ls

    def _local_sets_all(self, fnode, clsq):
        """names that are set-typed at every assignment inside fnode"""
        cand = {}
        for _ in range(2):
            loc = {k for k, v in cand.items() if v and all(v)}
            cand = {}
            for n in walk_no_nested(fnode):
                if isinstance(n, ast.Assign):
                    for t in n.targets:
                        if isinstance(t, ast.Name):
                            cand.setdefault(t.id, []).append(self.is_set(n.value, loc, clsq))
                        elif isinstance(t, (ast.Tuple, ast.List)):
                            pair = isinstance(n.value, (ast.Tuple, ast.List)) and len(n.value.elts) == len(t.elts)
                            for k_, e in enumerate(t.elts):
                                if isinstance(e, ast.Name):
                                    cand.setdefault(e.id, []).append(self.is_set(n.value.elts[k_], loc, clsq) if pair else False)
                elif isinstance(n, ast.AnnAssign) and isinstance(n.target, ast.Name) and n.value is not None:
                    cand.setdefault(n.target.id, []).append(self.is_set(n.value, loc, clsq))
                elif isinstance(n, ast.AugAssign) and isinstance(n.target, ast.Name):
                    if isinstance(n.op, (ast.BitOr, ast.BitAnd, ast.Sub, ast.BitXor)):
                        pass  # keeps type
                    else:
                        cand.setdefault(n.target.id, []).append(False)
                elif isinstance(n, (ast.For, ast.comprehension)):
                    for e in ast.walk(n.target):
                        if isinstance(e, ast.Name):
                            cand.setdefault(e.id, []).append(False)
                elif isinstance(n, (ast.With,)):
                    for it in n.items:
                        if it.optional_vars is not None:
                            for e in ast.walk(it.optional_vars):
                                if isinstance(e, ast.Name):
                                    cand.setdefault(e.id, []).append(False)
        # parameters annotated as set / Set[...] count as sets
        loc = {k for k, v in cand.items() if v and all(v)}
        a = fnode.args
        for arg in list(a.args) + list(a.kwonlyargs):
            if arg.annotation is not None:
                t = norm(arg.annotation)
                if t.split("[")[0].lower().rsplit(".", 1)[-1] in ("set", "frozenset", "abstractset"):
                    if arg.arg not in cand:
                        loc.add(arg.arg)
        return loc

    def is_set(self, e, loc, clsq):
        if isinstance(e, (ast.Set, ast.SetComp)):
            return True
        if isinstance(e, ast.Name):
            if isinstance(loc, LocalSets):
                return loc.is_set_at(e.id, (getattr(e, "lineno", 0), getattr(e, "col_offset", 0)))
            return e.id in loc
        if isinstance(e, ast.Attribute):
            if isinstance(e.value, ast.Name) and e.value.id == "self" and clsq is not None:
                return e.attr in self.self_attrs.get(clsq, ())
            if isinstance(e.value, ast.Name) and e.value.id in self.receivers:
                return e.attr in self.receivers[e.value.id]
            return False
        if isinstance(e, ast.Call):
            f = e.func
            if isinstance(f, ast.Name):
                if f.id in SET_CTORS:
                    return True
                if f.id in self.func_returns_set and f.id in self.mod.funcs:
                    return True
                return False
            if isinstance(f, ast.Attribute):
                if f.attr in SET_METHODS_RET_SET and self.is_set(f.value, loc, clsq):
                    return True
                if f.attr in ("keys",) :
                    return False
                if isinstance(f.value, ast.Name) and f.value.id == "self" and f.attr in self.func_returns_set:
                    return True
                if f.attr in ("union", "intersection") and isinstance(f.value, ast.Name) and f.value.id in SET_CTORS:
                    return True
            return False
        if isinstance(e, ast.BinOp) and isinstance(e.op, (ast.BitOr, ast.BitAnd, ast.Sub, ast.BitXor)):
            l, r = self.is_set(e.left, loc, clsq), self.is_set(e.right, loc, clsq)
            if l or r:
                # dict.keys() & set -> set ; set - list is a TypeError, so either side being a set makes the result a set
                return True
            # dict-view algebra: a.keys() & b.keys()
            def isview(x):
                return isinstance(x, ast.Call) and isinstance(x.func, ast.Attribute) and x.func.attr in ("keys", "items") and not x.args

            if isview(e.left) or isview(e.right):
                return True
            return False
        if isinstance(e, ast.IfExp):
            return self.is_set(e.body, loc, clsq) and self.is_set(e.orelse, loc, clsq)
        if isinstance(e, ast.BoolOp):
            return all(self.is_set(v, loc, clsq) for v in e.values)
        return False


class LocalSets:
    def __init__(self, always):
        self.always = set(always)
        self.assigns = {}  # name -> sorted [(pos, isset)]

    def add(self, name, pos, isset):
        self.assigns.setdefault(name, []).append((pos, bool(isset)))

    def __contains__(self, name):
        return name in self.always

    def is_set_at(self, name, pos):
        if name in self.always:
            return True
        lst = self.assigns.get(name)
        if not lst:
            return False
        prev = [x for x in lst if x[0] < pos]
        if not prev:
            return False
        return max(prev)[1]


_ST_CACHE = {}


def _settypes_cache(repo, mod):
    k = (id(repo), mod.rel)
    if k not in _ST_CACHE:
        _ST_CACHE[k] = SetTypes(repo, mod)
    return _ST_CACHE[k]


def _body_insensitive(stmts, loopvars):
    """Is a loop body free of order-sensitive effects? (only set mutation, membership,
    numeric reduction, deletion, raise/assert/continue/pass, nested insensitive control flow)"""
    for st in stmts:
        if isinstance(st, (ast.Pass, ast.Continue, ast.Raise, ast.Assert)):
            continue
        if isinstance(st, ast.Expr):
            v = st.value
            if isinstance(v, ast.Constant):
                continue
            if isinstance(v, ast.Call) and isinstance(v.func, ast.Attribute) and v.func.attr in MUTATORS_OK:
                continue
            if isinstance(v, ast.Call) and (call_name(v) or "").startswith(("log.", "logger.", "logging.", "warnings.")):
                continue  # diagnostics order is not output
            return False
        if isinstance(st, ast.AugAssign):
            if isinstance(st.op, (ast.Add, ast.BitOr, ast.BitAnd, ast.Mult)) and not isinstance(st.value, (ast.List, ast.ListComp, ast.Tuple, ast.JoinedStr)) and not (isinstance(st.value, ast.Constant) and isinstance(st.value.value, str)):
                # numeric / set reduction; string or list concatenation is order-sensitive
                if isinstance(st.op, ast.Add) and not _numericish(st.value):
                    return False
                continue
            return False
        if isinstance(st, ast.Delete):
            continue
        if isinstance(st, ast.If):
            if _body_insensitive(st.body, loopvars) and _body_insensitive(st.orelse, loopvars):
                continue
            return False
        if isinstance(st, ast.For):
            if _body_insensitive(st.body, loopvars) and _body_insensitive(st.orelse, loopvars):
                continue
            return False
        if isinstance(st, ast.Assign):
            # x = <expr> purely local temporaries are fine if they are only used by insensitive statements;
            # approximate: allow assignment to plain names (not subscripts/attributes)
            if all(isinstance(t, ast.Name) or (isinstance(t, ast.Tuple) and all(isinstance(e, ast.Name) for e in t.elts)) for t in st.targets):
                continue
            return False
        if isinstance(st, ast.Try):
            if _body_insensitive(st.body, loopvars) and all(_body_insensitive(h.body, loopvars) for h in st.handlers) and _body_insensitive(st.orelse, loopvars) and _body_insensitive(st.finalbody, loopvars):
                continue
            return False
        return False
    return True


def _numericish(e):
    if isinstance(e, ast.Constant):
        return isinstance(e.value, (int, float))
    if isinstance(e, ast.Call):
        return (call_name(e) or "") in ("len", "int", "float", "sum", "abs", "round", "otRound", "max", "min")
    if isinstance(e, ast.BinOp):
        return _numericish(e.left) or _numericish(e.right)
    if isinstance(e, ast.Name):
        return e.id in ("n", "count", "size", "length", "total", "i", "j", "k", "num") or e.id.startswith(("n", "num", "len", "count"))
    if isinstance(e, ast.Subscript) or isinstance(e, ast.Attribute):
        return True
    return False


def find_sites(repo, mod):
    """Yield (func, kind, expr_node, construct_text, sensitive) for every consumption of a set-typed expression."""
    st = _settypes_cache(repo, mod)
    out = []
    for q, f in mod.funcs.items():
        clsq = f.cls.qual if f.cls is not None else None
        loc = st.local_sets(f.node, clsq)
        for n in walk_no_nested(f.node):
            if isinstance(n, ast.For) and st.is_set(n.iter, loc, clsq):
                sens = not _body_insensitive(n.body, None)
                out.append((f, "for", n.iter, f"for {norm(n.target)} in {norm(n.iter)}", sens))
            elif isinstance(n, (ast.ListComp, ast.GeneratorExp, ast.DictComp, ast.SetComp)):
                for g in n.generators:
                    if st.is_set(g.iter, loc, clsq):
                        sens = True
                        if isinstance(n, ast.SetComp):
                            sens = False
                        else:
                            # consumer of the comprehension
                            p = parent(n)
                            if isinstance(p, ast.Call) and n in p.args:
                                cn = call_name(p) or ""
                                short = cn.rsplit(".", 1)[-1]
                                if short in INSENSITIVE_CONSUMERS:
                                    sens = False
                                if short in ("update", "add", "extend") and isinstance(p.func, ast.Attribute):
                                    sens = short == "extend"
                                if short in ("update", "difference_update", "intersection_update"):
                                    sens = False
                            if isinstance(p, ast.Compare):
                                sens = False
                        kind = {ast.ListComp: "listcomp", ast.GeneratorExp: "genexp", ast.DictComp: "dictcomp", ast.SetComp: "setcomp"}[type(n)]
                        out.append((f, kind, g.iter, f"{kind} over {norm(g.iter)}: {norm(n)[:70]}", sens))
            elif isinstance(n, ast.Call):
                cn = call_name(n) or ""
                short = cn.rsplit(".", 1)[-1] or (last_attr(n) or "")
                if short in ORDERED_CONSUMERS and n.args and st.is_set(n.args[0], loc, clsq) and isinstance(n.func, ast.Name):
                    # sorted(list(S)) etc. are fine
                    p = parent(n)
                    sens = True
                    if isinstance(p, ast.Call) and (call_name(p) or "").rsplit(".", 1)[-1] in INSENSITIVE_CONSUMERS:
                        sens = False
                    if short == "dict":
                        sens = False
                    out.append((f, short, n.args[0], f"{short}({norm(n.args[0])})", sens))
                elif short == "join" and n.args and st.is_set(n.args[0], loc, clsq):
                    out.append((f, "join", n.args[0], f"join({norm(n.args[0])})", True))
                elif short == "pop" and isinstance(n.func, ast.Attribute) and not n.args and st.is_set(n.func.value, loc, clsq):
                    out.append((f, "pop", n.func.value, f"{norm(n.func.value)}.pop()", True))
                elif short == "extend" and n.args and st.is_set(n.args[0], loc, clsq):
                    out.append((f, "extend", n.args[0], f"extend({norm(n.args[0])})", True))
            elif isinstance(n, ast.Starred) and st.is_set(n.value, loc, clsq):
                p = parent(n)
                sens = not (isinstance(p, ast.Call) and (call_name(p) or "").rsplit(".", 1)[-1] in INSENSITIVE_CONSUMERS | {"union", "intersection"})
                if isinstance(p, ast.Set):
                    sens = False
                out.append((f, "star", n.value, f"*{norm(n.value)}", sens))
        # sorted(..., key=id/hash)
        for n in walk_no_nested(f.node):
            if isinstance(n, ast.Call) and (call_name(n) in ("sorted",) or last_attr(n) == "sort"):
                for k in n.keywords:
                    if k.arg == "key" and isinstance(k.value, ast.Name) and k.value.id in ("id", "hash"):
                        out.append((f, "sortkey", n, f"sort key={k.value.id}", True))
    # diagnostics: a consumption whose enclosing statement is a raise or a logging call is not output
    from ..core import enclosing_stmt

    res = []
    for (f, kind, e, text, sens) in out:
        if sens:
            st_ = enclosing_stmt(e)
            if isinstance(st_, ast.Raise):
                sens = False
            elif isinstance(st_, ast.Expr) and isinstance(st_.value, ast.Call) and (call_name(st_.value) or "").split(".")[0] in ("log", "logger", "logging", "warnings", "print"):
                sens = False
        res.append((f, kind, e, text, sens))
    return res

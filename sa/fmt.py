"""Parsers for ``struct`` format strings and fontTools ``sstruct`` format blocks.

Static re-implementations (the sstruct grammar is the one documented at the top
of misc/sstruct.py).  Used to compute sizes, field offsets and per-field
value ranges without importing the repository.
"""

from __future__ import annotations

import re
import struct

_elementRE = re.compile(
    r"\s*([A-Za-z_][A-Za-z_0-9]*)\s*:\s*([xcbB?hHiIlLqQfd]|[0-9]+[ps]|([0-9]+)\.([0-9]+)(F))\s*(#.*)?$"
)
_extraRE = re.compile(r"\s*([x@=<>!])\s*(#.*)?$")
_emptyRE = re.compile(r"\s*(#.*)?$")
_fixed = {8: "b", 16: "h", 32: "l"}


class SFormat:
    def __init__(self):
        self.formatstring = ""
        self.names = []  # ordered field names (pad bytes excluded)
        self.codes = {}  # name -> struct code (after fixed mapping)
        self.fixes = {}  # name -> fractional bits
        self.offsets = {}  # name -> (start, end)
        self.size = 0


def sstruct_parse(fmt: str) -> SFormat:
    if isinstance(fmt, bytes):
        fmt = fmt.decode("ascii")
    out = SFormat()
    prefix = ""
    for line in re.split("[\n;]", fmt):
        if _emptyRE.match(line):
            continue
        m = _extraRE.match(line)
        if m:
            ch = m.group(1)
            if ch != "x":
                if out.formatstring:
                    raise ValueError("special fmt char must be first")
                prefix = ch
            out.formatstring += ch
            continue
        m = _elementRE.match(line)
        if not m:
            raise ValueError("syntax error in sstruct fmt: %r" % line)
        name, ch = m.group(1), m.group(2)
        if m.group(3):
            bits = int(m.group(3)) + int(m.group(4))
            if bits not in _fixed:
                raise ValueError("bad fixed")
            ch = _fixed[bits]
            out.fixes[name] = int(m.group(4))
        start = struct.calcsize(out.formatstring) if out.formatstring not in ("", prefix) else 0
        out.formatstring += ch
        end = struct.calcsize(out.formatstring)
        # with alignment (native) start may need alignment; the repo uses '>' everywhere
        start = end - struct.calcsize((prefix or "") + ch)
        if ch != "x":
            out.names.append(name)
            out.codes[name] = ch
            out.offsets[name] = (start, end)
    out.size = struct.calcsize(out.formatstring) if out.formatstring else 0
    return out


_CODE_RANGE = {
    "b": (-(1 << 7), (1 << 7) - 1),
    "B": (0, (1 << 8) - 1),
    "h": (-(1 << 15), (1 << 15) - 1),
    "H": (0, (1 << 16) - 1),
    "i": (-(1 << 31), (1 << 31) - 1),
    "I": (0, (1 << 32) - 1),
    "l": (-(1 << 31), (1 << 31) - 1),
    "L": (0, (1 << 32) - 1),
    "q": (-(1 << 63), (1 << 63) - 1),
    "Q": (0, (1 << 64) - 1),
}
_CODE_SIZE = {"b": 1, "B": 1, "h": 2, "H": 2, "i": 4, "I": 4, "l": 4, "L": 4, "q": 8, "Q": 8, "f": 4, "d": 8, "c": 1, "x": 1, "?": 1, "e": 2}


def code_range(ch):
    return _CODE_RANGE.get(ch)


def code_size(ch):
    return _CODE_SIZE.get(ch)


_tok = re.compile(r"(\*|\d+)?([xcbB?hHiIlLqQfdspe])")


def struct_norm(fmt: str) -> str:
    """Normalise a struct format: strip whitespace, expand small literal counts for
    non-string codes, keep '*' for runtime counts.  '>3H' -> '>HHH'; '>*H' stays."""
    if isinstance(fmt, bytes):
        fmt = fmt.decode("ascii")
    fmt = fmt.replace(" ", "")
    prefix = ""
    if fmt[:1] in "@=<>!":
        prefix, fmt = fmt[0], fmt[1:]
    out = []
    pos = 0
    for m in _tok.finditer(fmt):
        if m.start() != pos:
            raise ValueError("bad struct fmt %r" % fmt)
        pos = m.end()
        cnt, ch = m.group(1), m.group(2)
        if cnt is None:
            out.append(ch)
        elif cnt == "*":
            out.append("*" + ch)
        elif ch in "sp":
            out.append(cnt + ch)
        else:
            n = int(cnt)
            out.append(ch * n if n <= 16 else f"{n}{ch}")
    if pos != len(fmt):
        raise ValueError("bad struct fmt %r" % fmt)
    return prefix + "".join(out)


def struct_size(fmt: str):
    try:
        return struct.calcsize(fmt)
    except struct.error:
        return None

"""Property -> rule functions."""
from .rules import safety

PROPS = {
    "C20": safety.ALL,
}

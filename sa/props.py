"""Property -> rule functions."""
from .rules import safety, codecs, determinism, exhaust, otl, tables, xmlvocab, container, fea, curves, cff, design, consistency, pens, merge, round4
from .rules import lints2  # noqa: F401  (extends consistency.GENERIC before PROPS is built)


def _scoped(fn, **kw):
    def run(ctx, repo):
        return fn(ctx, repo, **kw)

    run.__name__ = fn.__name__ + "_" + "_".join(str(v) for v in kw.values()).replace("/", "_")
    run.__module__ = fn.__module__
    return run


def _generic(scope):
    return [_scoped(fn, scope=scope) for fn in consistency.GENERIC]


PROPS = {
    "C01": [round4.rec_size, round4.lazy_negative_index, codecs.f5_triplets, otl.coverage_ranges, otl.f26_api_conform, otl.f3_schema_wf, otl.f2_conv_pair, tables.f1_fmt_pair, tables.f1_letters] + tables.C01_EXTRA + [safety.f18_fallback, determinism.lazy_independence, determinism.local_state_cow, codecs.f5_offsize, container.f10_dep_order, tables.glyf_component, tables.composite_walkers, codecs.f5_halved_offsets, tables.hmtx_trimming, tables.glyf_delta_codec, tables.cmap_group_codec, tables.cmap14_default_runs] + _generic(("ttLib/tables/", "ttLib/ttFont.py", "ttLib/sfnt.py", "cffLib/__init__.py")),
    "C02": [round4.rec_size, container.f10_dep_order, otl.coverage_ranges, tables.spec_layouts, tables.f1_fmt_pair, tables.f1_letters, otl.f2_conv_pair, otl.f3_schema_wf, codecs.f5_points, codecs.f5_deltas, codecs.f5_device, codecs.f5_halved_offsets] + tables.C02_EXTRA + _generic(("ttLib/tables/", "cffLib/__init__.py")),
    "C03": xmlvocab.ALL + [round4.opt_default, round4.tagid_pad, round4.tagid_discriminator, codecs.ttprogram_push, design.filename_rules, tables.glyf_component, codecs.tag_ident, codecs.f22_fixed_tools, otl.f2_conv_pair, tables.pair_exhaustive] + _generic(("ttLib/tables/", "cffLib/__init__.py", "misc/xmlWriter.py", "misc/xmlReader.py", "ttLib/ttFont.py", "ttx.py")),
    "C04": [round4.head_patch_guard, round4.head_raw_reads, tables.hmtx_trimming, tables.spec_layouts, container.f10_dep_order, container.container_constants, container.alignment, container.directory_and_checksums, container.f22_recalc_twins, container.checksum_twins, container.woff2_close_order, container.woff_block_offsets, codecs.f5_triplets, codecs.f5_halved_offsets, tables.woff_discriminator, consistency.unpack_order] + _generic(("ttLib/sfnt.py", "ttLib/woff2.py", "ttLib/ttFont.py", "ttLib/ttCollection.py")),
    "C06": otl.C06 + [consistency.numbered_twins, tables.prewrite_sorts] + _generic(("ttLib/tables/otTables.py", "ttLib/tables/otBase.py", "otlLib/")),
    "C07": exhaust.ALL_C07 + [cff.width_bottom, round4.mark_siblings, codecs.f5_rebias, merge.subset_context_helper, tables.composite_walkers, exhaust.c07_index_remap, exhaust.c07_closure_registry, consistency.key_fields, _scoped(fea.argswap_scope, scope=("subset/",), rule="F21"), _scoped(exhaust.f19_varidx, scope=("subset/",), rule="F19"), _scoped(determinism.f12_set_order, scope=("subset/",), rule="F12-subset")] + _generic(("subset/",)),
    "C08": exhaust.ALL_C08 + [design.transparent_flatten, exhaust.c08_distance_carry, consistency.key_fields, _scoped(fea.argswap_scope, scope=("varLib/instancer/",), rule="F21"), _scoped(exhaust.f19_varidx, scope=("varLib/instancer/",), rule="F19"), _scoped(determinism.f12_set_order, scope=("varLib/instancer/",), rule="F12-instancer")] + _generic(("varLib/instancer/", "varLib/mutator.py")),
    "C10": design.C10 + [_scoped(fea.argswap_scope, scope=("varLib/__init__.py", "varLib/merger.py", "varLib/cff.py", "varLib/models.py", "varLib/varStore.py"), rule="F21"), _scoped(exhaust.f19_varidx, scope=("varLib/__init__.py", "varLib/merger.py", "varLib/cff.py", "varLib/varStore.py", "varLib/featureVars.py"), rule="F19"), _scoped(determinism.f12_set_order, scope=("varLib/__init__.py", "varLib/merger.py", "varLib/models.py", "varLib/cff.py", "varLib/featureVars.py", "varLib/varStore.py", "varLib/builder.py", "varLib/stat.py", "varLib/avar/"), rule="F12-varlib")] + _generic(("varLib/__init__.py", "varLib/merger.py", "varLib/models.py", "varLib/cff.py", "varLib/featureVars.py", "varLib/varStore.py", "varLib/builder.py", "ttLib/tables/_g_l_y_f.py", "ttLib/tables/_g_v_a_r.py")),
    "C11": fea.ALL + [otl.coverage_ranges, _scoped(exhaust.f19_varidx, scope=("feaLib/",), rule="F19"), _scoped(determinism.f12_set_order, scope=("feaLib/", "otlLib/"), rule="F12-fea")] + _generic(("feaLib/", "otlLib/")),
    "C12": cff.ALL + [codecs.f6_tables, codecs.f5_ps_operands, codecs.f5_subr_bias, codecs.f5_rebias, codecs.f5_offsize] + _generic(("cffLib/", "misc/psCharStrings.py")),
    "C13": curves.ALL + [pens.filter_state, round4.seg_total, _scoped(consistency.clones, prop="C13")] + _generic(("cu2qu/", "qu2cu/", "pens/")),
    "C14": pens.ALL + [round4.pen_current_point] + _generic(("pens/",)),
    "C15": codecs.ALL + [round4.tagid_pad, round4.tagid_discriminator] + _generic(("misc/psCharStrings.py", "ttLib/woff2.py", "ttLib/tables/TupleVariation.py", "ttLib/tables/otConverters.py", "ttLib/tables/ttProgram.py", "misc/fixedTools.py", "misc/eexec.py", "misc/sstruct.py")),
    "C16": determinism.ALL + [container.f10_dep_order, consistency.save_restore, round4.dict_alias, round4.conv_sorted] + _generic(("ttLib/", "misc/timeTools.py")),
    "C17": exhaust.ALL_C17 + [round4.reorder_null_guard, round4.reorder_gid_structs] + _generic(("ttLib/reorderGlyphs.py", "ttLib/scaleUpem.py")),
    "C18": merge.ALL + [_scoped(determinism.f12_set_order, scope=("merge/",), rule="F12-merge")] + _generic(("merge/",)),
    "C19": design.C19 + [design.map_direction, round4.kerning_sides, round4.uniq_pool, _scoped(consistency.clones, prop="C19")] + _generic(("designspaceLib/", "ufoLib/")),
    "C20": safety.ALL + [round4.broad_handler, round4.head_patch_guard, round4.head_raw_reads] + _generic(("ttLib/ttFont.py", "ttLib/sfnt.py", "ttLib/ttCollection.py", "misc/xmlReader.py", "ttx.py", "misc/macRes.py", "t1Lib/")),
}


# extra scope for the thorough tier (whole-package variants of scoped rules)
THOROUGH_EXTRA = {
    "C07": [_scoped(determinism.f12_set_order, scope=None, rule="F12-all")],
    "C08": [_scoped(determinism.f12_set_order, scope=None, rule="F12-all")],
    "C10": [_scoped(determinism.f12_set_order, scope=None, rule="F12-all"), _scoped(exhaust.f19_varidx, scope=("",), rule="F19-all")],
    "C11": [_scoped(exhaust.f19_varidx, scope=("",), rule="F19-all")],
    "C13": [_scoped(curves.duplicate_conjuncts, scope=("cu2qu/", "qu2cu/", "pens/", "misc/bezierTools.py", "misc/arrayTools.py", "misc/transform.py"))],
}

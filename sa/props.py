"""Property -> rule functions."""
from .rules import safety, codecs, determinism

PROPS = {
    "C15": codecs.ALL,
    "C16": determinism.ALL,
    "C20": safety.ALL,
}

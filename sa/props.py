"""Property -> rule functions."""
from .rules import safety, codecs

PROPS = {
    "C15": codecs.ALL,
    "C20": safety.ALL,
}

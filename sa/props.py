"""Property -> rule functions."""
from .rules import safety, codecs, determinism, exhaust


def _scoped(fn, **kw):
    def run(ctx, repo):
        return fn(ctx, repo, **kw)

    run.__name__ = fn.__name__ + "_" + "_".join(str(v) for v in kw.values()).replace("/", "_")
    run.__module__ = fn.__module__
    return run


PROPS = {
    "C07": exhaust.ALL_C07 + [_scoped(exhaust.f19_varidx, scope=("subset/",), rule="F19"), _scoped(determinism.f12_set_order, scope=("subset/",), rule="F12-subset")],
    "C08": exhaust.ALL_C08 + [_scoped(exhaust.f19_varidx, scope=("varLib/instancer/",), rule="F19"), _scoped(determinism.f12_set_order, scope=("varLib/instancer/",), rule="F12-instancer")],
    "C15": codecs.ALL,
    "C16": determinism.ALL,
    "C17": exhaust.ALL_C17,
    "C20": safety.ALL,
}

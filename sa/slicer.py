"""Flow-insensitive backward slice of an expression inside one function.

``Slicer(func).leaves(expr)`` follows local assignments (all of them, the
slice is flow-insensitive and therefore over-approximate), string building
operators, container stores ``d[k] = v`` / ``l.append(v)`` and a configurable
set of transparent calls, and returns the leaf expressions the value may be
built from, each with the chain of calls it passed through.
"""

from __future__ import annotations

import ast

from .core import walk_no_nested, dotted_name


class Leaf:
    __slots__ = ("node", "kind", "through", "text")

    def __init__(self, node, kind, through):
        self.node = node
        self.kind = kind  # 'param' | 'attr' | 'const' | 'call' | 'global' | 'iter' | 'other'
        self.through = tuple(through)  # names of calls passed through, innermost last
        self.text = ast.unparse(node) if node is not None else ""

    def __repr__(self):
        return f"<Leaf {self.kind} {self.text} via {self.through}>"


TRANSPARENT_DEFAULT = {
    "os.path.join",
    "os.path.dirname",
    "os.path.abspath",
    "os.path.normpath",
    "os.path.realpath",
    "os.path.splitext",
    "os.path.expanduser",
    "os.fspath",
    "os.fsdecode",
    "str",
    "tostr",
    "format",
    "Path",
    "pathlib.Path",
    "sorted",
    "list",
    "tuple",
    "zip",
    "enumerate",
    "reversed",
    "iter",
    "next",
}
TRANSPARENT_METHODS = {"format", "join", "replace", "strip", "lstrip", "rstrip", "lower", "upper", "items", "values", "keys", "get", "with_suffix", "with_name", "joinpath", "rsplit", "split", "pop", "copy", "decode", "encode", "setdefault"}


class Slicer:
    def __init__(self, func, transparent=None, stop_calls=None, transparent_methods=None):
        self.func = func
        self.transparent = set(TRANSPARENT_DEFAULT if transparent is None else transparent)
        self.tmethods = set(TRANSPARENT_METHODS if transparent_methods is None else transparent_methods)
        self.stop_calls = set(stop_calls or ())  # call names that end the slice (sanitisers): reported as leaf kind 'call' with through
        self.params = set()
        a = func.args
        for arg in list(a.posonlyargs) + list(a.args) + list(a.kwonlyargs):
            self.params.add(arg.arg)
        if a.vararg:
            self.params.add(a.vararg.arg)
        if a.kwarg:
            self.params.add(a.kwarg.arg)
        self.defs = {}  # name -> [value exprs or ('iter', expr) ...]
        self.stores = {}  # name -> [value exprs] stored into container `name`
        self._collect()

    def _add(self, name, val):
        self.defs.setdefault(name, []).append(val)

    def _bind_target(self, tgt, val, iter_=False):
        if isinstance(tgt, ast.Name):
            self._add(tgt.id, ("iter", val) if iter_ else val)
        elif isinstance(tgt, (ast.Tuple, ast.List)):
            if not iter_ and isinstance(val, (ast.Tuple, ast.List)) and len(val.elts) == len(tgt.elts):
                for t, v in zip(tgt.elts, val.elts):
                    self._bind_target(t, v)
            else:
                for t in tgt.elts:
                    self._bind_target(t, val, True)
        elif isinstance(tgt, ast.Starred):
            self._bind_target(tgt.value, val, True)
        elif isinstance(tgt, ast.Subscript):
            base = dotted_name(tgt.value)
            if base:
                self.stores.setdefault(base, []).append(val)
        elif isinstance(tgt, ast.Attribute):
            d = dotted_name(tgt)
            if d:
                self._add(d, val)

    def _collect(self):
        for n in walk_no_nested(self.func):
            if isinstance(n, ast.Assign):
                for t in n.targets:
                    self._bind_target(t, n.value)
            elif isinstance(n, ast.AnnAssign) and n.value is not None:
                self._bind_target(n.target, n.value)
            elif isinstance(n, ast.AugAssign):
                self._bind_target(n.target, n.value)
            elif isinstance(n, (ast.For, ast.AsyncFor)):
                self._bind_target(n.target, n.iter, True)
            elif isinstance(n, (ast.With, ast.AsyncWith)):
                for it in n.items:
                    if it.optional_vars is not None:
                        self._bind_target(it.optional_vars, it.context_expr)
            elif isinstance(n, ast.NamedExpr):
                self._bind_target(n.target, n.value)
            elif isinstance(n, ast.comprehension):
                self._bind_target(n.target, n.iter, True)
            elif isinstance(n, ast.Call) and isinstance(n.func, ast.Attribute) and n.func.attr in ("append", "add", "extend", "update", "insert", "setdefault"):
                base = dotted_name(n.func.value)
                if base and n.args:
                    self.stores.setdefault(base, []).append(n.args[-1])
            elif isinstance(n, ast.ExceptHandler) and n.name:
                self._add(n.name, n.type or ast.Constant(None))
        # comprehensions nested in expressions are visited by walk_no_nested (they are not defs)

    def leaves(self, expr):
        out = []
        seen = set()

        def go(e, through):
            if e is None:
                return
            if isinstance(e, tuple) and e and e[0] == "iter":
                go(e[1], through)
                return
            key = id(e)
            if key in seen:
                return
            seen.add(key)
            if isinstance(e, ast.Constant):
                out.append(Leaf(e, "const", through))
            elif isinstance(e, ast.Name):
                hit = False
                if e.id in self.defs:
                    hit = True
                    for v in self.defs[e.id]:
                        go(v, through)
                if e.id in self.stores:
                    hit = True
                    for v in self.stores[e.id]:
                        go(v, through)
                if e.id in self.params:
                    out.append(Leaf(e, "param", through))
                elif not hit:
                    out.append(Leaf(e, "global", through))
            elif isinstance(e, ast.Attribute):
                d = dotted_name(e)
                if d and d in self.defs:
                    for v in self.defs[d]:
                        go(v, through)
                    return
                out.append(Leaf(e, "attr", through))
                # the base object may itself be derived (e.g. loop variable)
            elif isinstance(e, ast.Subscript):
                go(e.value, through)
                d = dotted_name(e.value)
                if d and d in self.stores:
                    for v in self.stores[d]:
                        go(v, through)
            elif isinstance(e, ast.BinOp):
                go(e.left, through)
                go(e.right, through)
            elif isinstance(e, ast.BoolOp):
                for v in e.values:
                    go(v, through)
            elif isinstance(e, ast.IfExp):
                go(e.body, through)
                go(e.orelse, through)
            elif isinstance(e, ast.JoinedStr):
                for v in e.values:
                    if isinstance(v, ast.FormattedValue):
                        go(v.value, through)
            elif isinstance(e, ast.FormattedValue):
                go(e.value, through)
            elif isinstance(e, (ast.Tuple, ast.List, ast.Set)):
                for v in e.elts:
                    go(v, through)
            elif isinstance(e, ast.Dict):
                for v in e.values:
                    go(v, through)
            elif isinstance(e, ast.Starred):
                go(e.value, through)
            elif isinstance(e, ast.NamedExpr):
                go(e.value, through)
            elif isinstance(e, (ast.ListComp, ast.SetComp, ast.GeneratorExp)):
                go(e.elt, through)
            elif isinstance(e, ast.DictComp):
                go(e.value, through)
            elif isinstance(e, ast.Call):
                name = dotted_name(e.func)
                short = e.func.attr if isinstance(e.func, ast.Attribute) else name
                if name in self.stop_calls or short in self.stop_calls:
                    out.append(Leaf(e, "call", through + (short,)))
                    return
                if name in self.transparent or (isinstance(e.func, ast.Name) and e.func.id in self.transparent):
                    for a in e.args:
                        go(a, through + (short,))
                    for k in e.keywords:
                        go(k.value, through + (short,))
                    return
                if isinstance(e.func, ast.Attribute) and e.func.attr in self.tmethods:
                    go(e.func.value, through + (short,))
                    for a in e.args:
                        go(a, through + (short,))
                    for k in e.keywords:
                        go(k.value, through + (short,))
                    return
                out.append(Leaf(e, "call", through))
            elif isinstance(e, ast.UnaryOp):
                go(e.operand, through)
            elif isinstance(e, ast.Compare):
                out.append(Leaf(e, "other", through))
            else:
                out.append(Leaf(e, "other", through))

        go(expr, ())
        return out

#!/usr/bin/env python3
"""Run the registered checks against every confirmed seeded defect under /verif/seeded.
For each seed: copy Lib/fontTools to a scratch dir, apply patch.diff, run ./check <prop> --repo <scratch>
(and, with --all, every claimed property).  Prints caught/missed with the reporting rule."""
import json, os, shutil, subprocess, sys, tempfile
from concurrent.futures import ProcessPoolExecutor

HERE = os.path.dirname(os.path.abspath(__file__))
VERIF = os.path.dirname(HERE)
REPO = os.environ.get("VERIF_REPO", "/repo")


def claimed():
    m = json.load(open(os.path.join(VERIF, "MANIFEST.json")))
    return [c["property_id"] for c in m["checks"]]


def run(seed):
    d = os.path.join(VERIF, "seeded", seed)
    meta = json.load(open(os.path.join(d, "meta.json")))
    props = [meta["property"]] if "--all" not in sys.argv else claimed()
    scratch = tempfile.mkdtemp(prefix="verif-seeded-")
    try:
        shutil.copytree(os.path.join(REPO, "Lib", "fontTools"), os.path.join(scratch, "Lib", "fontTools"), ignore=shutil.ignore_patterns("__pycache__"))
        r = subprocess.run(["patch", "-p1", "-s", "-d", scratch, "-i", os.path.join(d, "patch.diff")], capture_output=True, text=True)
        if r.returncode != 0:
            return seed, "PATCH-FAIL", r.stdout[-200:]
        res = []
        for p in props:
            if p not in claimed():
                res.append((p, "not-claimed", ""))
                continue
            env = dict(os.environ, VERIF_EVIDENCE_DIR=os.path.join(scratch, "ev"))
            c = subprocess.run([os.path.join(VERIF, "check"), p, "--repo", scratch], capture_output=True, text=True, env=env)
            und = [l.strip() for l in c.stdout.splitlines() if "UNDISCHARGED" in l]
            res.append((p, {0: "missed", 1: "CAUGHT", 2: "analysis-error"}.get(c.returncode, str(c.returncode)), und[0][:200] if und else ""))
        return seed, res, ""
    finally:
        shutil.rmtree(scratch, ignore_errors=True)


if __name__ == "__main__":
    seeds = sorted(s for s in os.listdir(os.path.join(VERIF, "seeded")) if os.path.exists(os.path.join(VERIF, "seeded", s, "meta.json")))
    only = [a for a in sys.argv[1:] if not a.startswith("-")]
    if only:
        seeds = [s for s in seeds if any(o in s for o in only)]
    summary = {}
    with ProcessPoolExecutor(8) as ex:
        for seed, res, err in ex.map(run, seeds):
            if isinstance(res, str):
                print(f"{seed:8s} {res} {err}")
                continue
            caught = {p: (u.split()[1] if u else "?") for p, v, u in res if v == "CAUGHT"}
            print(f"{seed:8s} " + "; ".join(f"{p}:{v}" + (f" [{u}]" if u else "") for p, v, u in res if v != "missed" or len(res) == 1))
            summary[seed] = caught
    print(f"{sum(1 for v in summary.values() if v)}/{len(summary)} seeds caught by at least one check")
    if "--all" in sys.argv and not only:
        json.dump(summary, open(os.path.join(VERIF, "seeded", "RESULTS.json"), "w"), indent=1, sort_keys=True)
        if "--write-expect" in sys.argv:
            json.dump({k: {"caught_by": v} for k, v in summary.items()}, open(os.path.join(VERIF, "seeded", "EXPECT.json"), "w"), indent=1, sort_keys=True)
